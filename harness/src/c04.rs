//! C04 — pipelining: exactly one reply per command, in order, however bytes arrive.
//!
//! The REAL `OptimizedConnectionHandler` (hook H1 `verif_hooks::run_connection`) runs on a
//! scripted in-memory stream: every `poll_read` hands out exactly the next generated network
//! segment (cut further only by the handler's own `read_buffer_size`), then EOF; everything
//! the handler writes is collected.  (A scripted stream instead of `tokio::io::duplex`: with
//! duplex two segments can coalesce into one read depending on scheduling, and the model needs
//! to know which bytes arrived together — batching and the clear-on-error path depend on it.)
//!
//! Correspondence: decoded replies (count, order, content; error texts reduced to E / PE / OV) vs the
//! Lean model `Conn.run` + reference executor on the same configuration and segments.
//! Oracle (independent of the model): reply count != command count, reply i != the reply the
//! command gets when every command is sent in its own segment on a fresh server, hang (timeout),
//! panic; for a well-formed prefix followed by ONE malformed frame: the prefix replies are
//! unchanged and the malformed frame gets an error reply (never silence, a data reply, a crash).
use crate::c15::V;
use crate::enc::hex;
use crate::out::Out;
use crate::rng::Rng;
use crate::Args;
use redis_sim::production::verif_hooks::{run_connection, run_connection_pooled};
use redis_sim::production::{ConnectionConfig, ConnectionPool, ShardedActorState};
use redis_sim::redis::RespParser;
use serde_json::json;
use std::collections::VecDeque;
use std::panic::{catch_unwind, AssertUnwindSafe};
use std::pin::Pin;
use std::sync::atomic::{AtomicUsize, Ordering::SeqCst};
use std::sync::{Arc, Mutex};
use std::task::{Context, Poll};
use tokio::io::{AsyncRead, AsyncWrite, ReadBuf};

/// one answer of the peer's socket to a `poll_write` / `poll_flush` call (Lean: `ConnW.WEv`)
#[derive(Clone, Debug, PartialEq)]
pub enum WEv {
    /// poll_write takes min(k, remaining) bytes (k = 0: `Ok(0)`, write_all fails with WriteZero); poll_flush is Ok
    Accept(usize),
    /// the call fails: the peer is gone
    Fail,
}

pub struct Scripted {
    segs: VecDeque<Vec<u8>>,
    written: Arc<Mutex<Vec<u8>>>,
    /// index (0-based) of the write call that fails: the client is gone / has stopped reading
    fail_write_at: Option<usize>,
    writes: usize,
    /// answers to successive poll_write / poll_flush calls; exhausted = everything is accepted
    script: VecDeque<WEv>,
    /// the data-returning read call (0-based) that fails instead
    read_err_at: Option<usize>,
    /// read calls that returned data
    reads: Arc<AtomicUsize>,
    /// every `pend_every`-th poll returns Pending once (waking itself) before it answers; 0 = never
    pend_every: usize,
    polls: usize,
    pended: bool,
    /// at every read call that is answered: (bytes delivered so far, bytes written so far) — what a
    /// client that stops sending HERE and waits has received
    marks: Arc<Mutex<Vec<(usize, usize)>>>,
    delivered: usize,
}

impl Scripted {
    fn plain(segs: &[Vec<u8>], written: Arc<Mutex<Vec<u8>>>, fail_write_at: Option<usize>) -> Scripted {
        Scripted { segs: segs.iter().cloned().collect(), written, fail_write_at, writes: 0, script: VecDeque::new(), read_err_at: None,
            reads: Arc::new(AtomicUsize::new(0)), pend_every: 0, polls: 0, pended: false, marks: Arc::new(Mutex::new(Vec::new())), delivered: 0 }
    }
    /// true = this poll answers Pending (the task is woken at once and polls again)
    fn pend(&mut self, cx: &mut Context<'_>) -> bool {
        if self.pend_every == 0 {
            return false;
        }
        if self.pended {
            self.pended = false;
            return false;
        }
        self.polls += 1;
        if self.polls % self.pend_every == 0 {
            self.pended = true;
            cx.waker().wake_by_ref();
            return true;
        }
        false
    }
}

impl AsyncRead for Scripted {
    fn poll_read(mut self: Pin<&mut Self>, cx: &mut Context<'_>, buf: &mut ReadBuf<'_>) -> Poll<std::io::Result<()>> {
        if self.pend(cx) {
            return Poll::Pending;
        }
        // skip empty segments (a zero-length read would mean EOF)
        while matches!(self.segs.front(), Some(s) if s.is_empty()) {
            self.segs.pop_front();
        }
        {
            let w = self.written.lock().unwrap().len();
            let d = self.delivered;
            self.marks.lock().unwrap().push((d, w));
        }
        if self.segs.front().is_some() && self.read_err_at == Some(self.reads.load(SeqCst)) {
            return Poll::Ready(Err(std::io::Error::new(std::io::ErrorKind::ConnectionReset, "connection reset by peer")));
        }
        if let Some(mut s) = self.segs.pop_front() {
            let n = s.len().min(buf.remaining());
            buf.put_slice(&s[..n]);
            self.delivered += n;
            self.reads.fetch_add(1, SeqCst);
            if n < s.len() {
                let rest = s.split_off(n);
                self.segs.push_front(rest);
            }
        }
        Poll::Ready(Ok(()))
    }
}

impl AsyncWrite for Scripted {
    fn poll_write(mut self: Pin<&mut Self>, cx: &mut Context<'_>, buf: &[u8]) -> Poll<std::io::Result<usize>> {
        if self.pend(cx) {
            return Poll::Pending;
        }
        let i = self.writes;
        self.writes += 1;
        if self.fail_write_at == Some(i) {
            return Poll::Ready(Err(std::io::Error::new(std::io::ErrorKind::BrokenPipe, "client gone")));
        }
        match self.script.pop_front() {
            Some(WEv::Fail) => Poll::Ready(Err(std::io::Error::new(std::io::ErrorKind::BrokenPipe, "client gone"))),
            Some(WEv::Accept(k)) => {
                let n = k.min(buf.len());
                self.written.lock().unwrap().extend_from_slice(&buf[..n]);
                Poll::Ready(Ok(n))
            }
            None => {
                self.written.lock().unwrap().extend_from_slice(buf);
                Poll::Ready(Ok(buf.len()))
            }
        }
    }
    fn poll_flush(mut self: Pin<&mut Self>, cx: &mut Context<'_>) -> Poll<std::io::Result<()>> {
        if self.pend(cx) {
            return Poll::Pending;
        }
        match self.script.pop_front() {
            Some(WEv::Fail) => Poll::Ready(Err(std::io::Error::new(std::io::ErrorKind::BrokenPipe, "client gone"))),
            _ => Poll::Ready(Ok(())),
        }
    }
    fn poll_shutdown(self: Pin<&mut Self>, _cx: &mut Context<'_>) -> Poll<std::io::Result<()>> {
        Poll::Ready(Ok(()))
    }
}

#[derive(Clone, Debug)]
pub struct Cfg {
    pub min_pipeline: usize,
    pub batch_threshold: usize,
    pub read_size: usize,
    pub max_buffer: usize,
}

impl Cfg {
    pub fn default_like() -> Cfg {
        Cfg { min_pipeline: 60, batch_threshold: 2, read_size: 8192, max_buffer: 1_000_000 }
    }
    /// the connection configuration as the server derives it from a (validated) PerformanceConfig
    fn real(&self) -> ConnectionConfig {
        let mut pc = redis_sim::production::PerformanceConfig::default();
        pc.buffers.read_size = self.read_size;
        pc.buffers.max_size = self.max_buffer;
        pc.batching.min_pipeline_buffer = self.min_pipeline;
        pc.batching.batch_threshold = self.batch_threshold;
        if let Err(e) = pc.validate() {
            panic!("the harness generated a configuration that PerformanceConfig::validate rejects: {}", e);
        }
        ConnectionConfig::from_perf_config(&pc.buffers, &pc.batching)
    }
}

#[derive(Clone, Debug, PartialEq)]
pub enum End {
    Eof,
    Crash(String),
    Hang,
}

pub struct ConnRun {
    pub written: Vec<u8>,
    pub end: End,
    /// read calls that returned data (only counted by `run_scripted`)
    pub reads: usize,
    /// (bytes delivered, bytes written) at every read call of the handler (only by `run`)
    pub marks: Vec<(usize, usize)>,
}

pub struct Runner {
    rt: tokio::runtime::Runtime,
}

impl Runner {
    pub fn new() -> Runner {
        Runner { rt: tokio::runtime::Builder::new_multi_thread().worker_threads(2).enable_all().build().expect("runtime") }
    }
    /// one connection on a fresh 2-shard server: the segments, then EOF
    pub fn run(&self, cfg: &Cfg, segs: &[Vec<u8>]) -> ConnRun {
        let written = Arc::new(Mutex::new(Vec::new()));
        let stream = Scripted::plain(segs, written.clone(), None);
        let marks = stream.marks.clone();
        let ccfg = cfg.real();
        let r = catch_unwind(AssertUnwindSafe(|| {
            self.rt.block_on(async move {
                let state = ShardedActorState::with_shards(2);
                tokio::time::timeout(std::time::Duration::from_secs(10), run_connection(stream, state, ccfg)).await
            })
        }));
        let end = match r {
            Err(_) => End::Crash(crate::c15::last_panic()),
            Ok(Err(_)) => End::Hang,
            Ok(Ok(())) => End::Eof,
        };
        let w = written.lock().unwrap().clone();
        let m = marks.lock().unwrap().clone();
        ConnRun { written: w, end, reads: 0, marks: m }
    }
}

impl Runner {
    /// one connection on a fresh 2-shard server whose buffers come from `pool` (shared with the
    /// connections served before it); `fail_write_at` = the write call that fails
    pub fn run_pooled(&self, cfg: &Cfg, segs: &[Vec<u8>], fail_write_at: Option<usize>, pool: Arc<ConnectionPool>) -> ConnRun {
        let written = Arc::new(Mutex::new(Vec::new()));
        let stream = Scripted::plain(segs, written.clone(), fail_write_at);
        let ccfg = cfg.real();
        let r = catch_unwind(AssertUnwindSafe(|| {
            self.rt.block_on(async move {
                let state = ShardedActorState::with_shards(2);
                tokio::time::timeout(std::time::Duration::from_secs(10), run_connection_pooled(stream, state, ccfg, pool)).await
            })
        }));
        let end = match r {
            Err(_) => End::Crash(crate::c15::last_panic()),
            Ok(Err(_)) => End::Hang,
            Ok(Ok(())) => End::Eof,
        };
        let w = written.lock().unwrap().clone();
        ConnRun { written: w, end, reads: 0, marks: Vec::new() }
    }
}

impl Runner {
    /// one connection on a fresh 2-shard server with a scripted PEER: the socket answers successive
    /// poll_write / poll_flush calls as `script` says (partial writes, Ok(0), failures), read call
    /// `read_err_at` fails, every `pend_every`-th poll is Pending first
    pub fn run_scripted(&self, cfg: &Cfg, segs: &[Vec<u8>], script: &[WEv], read_err_at: Option<usize>, pend_every: usize) -> ConnRun {
        let written = Arc::new(Mutex::new(Vec::new()));
        let reads = Arc::new(AtomicUsize::new(0));
        let mut stream = Scripted::plain(segs, written.clone(), None);
        stream.script = script.iter().cloned().collect();
        stream.read_err_at = read_err_at;
        stream.reads = reads.clone();
        stream.pend_every = pend_every;
        let ccfg = cfg.real();
        let r = catch_unwind(AssertUnwindSafe(|| {
            self.rt.block_on(async move {
                let state = ShardedActorState::with_shards(2);
                tokio::time::timeout(std::time::Duration::from_secs(10), run_connection(stream, state, ccfg)).await
            })
        }));
        let end = match r {
            Err(_) => End::Crash(crate::c15::last_panic()),
            Ok(Err(_)) => End::Hang,
            Ok(Ok(())) => End::Eof,
        };
        let w = written.lock().unwrap().clone();
        ConnRun { written: w, end, reads: reads.load(SeqCst), marks: Vec::new() }
    }
}

/// decode the reply stream with the simulation decoder; `None` = undecodable tail
pub fn decode_replies(bytes: &[u8]) -> (Vec<V>, usize) {
    let mut out = Vec::new();
    let mut off = 0;
    while off < bytes.len() {
        match catch_unwind(AssertUnwindSafe(|| RespParser::parse(&bytes[off..]))) {
            Ok(Ok((v, n))) if n > 0 => {
                out.push(V::from_rv(&v));
                off += n;
            }
            _ => break,
        }
    }
    (out, bytes.len() - off)
}

fn reply_text(v: &V) -> String {
    match v {
        V::E(m) if m == b"ERR protocol error" => "PE".into(),
        V::E(m) if m == b"ERR buffer overflow" => "OV".into(),
        V::E(_) => "E".into(),
        v => format!("V {}", v.show()),
    }
}

fn line_of(r: &ConnRun) -> (String, Vec<V>) {
    let (vals, rest) = decode_replies(&r.written);
    let texts: Vec<String> = vals.iter().map(reply_text).collect();
    let end = match &r.end {
        End::Eof => "eof".to_string(),
        End::Crash(_) => "crash".to_string(),
        End::Hang => "hang".to_string(),
    };
    let tail = if rest > 0 { format!(" undecoded={}", rest) } else { String::new() };
    (format!("n={} [{}] end={}{}", vals.len(), texts.join(" ; "), end, tail), vals)
}

pub fn frame(args: &[&[u8]]) -> Vec<u8> {
    let mut v = format!("*{}\r\n", args.len()).into_bytes();
    for a in args {
        v.extend(format!("${}\r\n", a.len()).into_bytes());
        v.extend_from_slice(a);
        v.extend_from_slice(b"\r\n");
    }
    v
}

/// `HEADER_LEN` of the four recognisers in /repo/src/production/connection_optimized.rs: a private
/// constant, read from the SOURCE by ./check (which exports it) — the model is parameterised by it
pub fn header_len() -> usize {
    std::env::var("VERIF_C04_HEADER_LEN").ok().and_then(|v| v.parse().ok()).unwrap_or(14)
}

/// `check_acl_permission` takes the base name of an unknown command with `parts[0]` (panics on a name
/// without a non-white-space character) or with `parts.first()` (after the fix): read from the SOURCE
/// by ./check (tools/props/C04.json source_constants) — the model has the flag `nameGuard`
pub fn name_guarded() -> bool {
    std::env::var("VERIF_C04_NAME_GUARD").map(|v| v.contains("first")).unwrap_or(false)
}

/// what `try_fast_get` / `try_fast_set` answer to a frame that is not complete yet: `NeedMoreData`
/// (the code as it is) or `NotFastPath` (the prepared fix `fixes-conn-s4`: an incomplete or unusual
/// frame is left to the generic parser; with it come the LF / UTF-8 tests of the recognisers, the
/// execution of collected commands below `batch_threshold` and the ACL test of the batching gate).
/// Read from the SOURCE by ./check (`VERIF_C04_INCOMPLETE`) — the model has the flag `repaired`
pub fn repaired() -> bool {
    std::env::var("VERIF_C04_INCOMPLETE").map(|v| v.contains("NotFastPath")).unwrap_or(false)
}

/// the `<headerLen>` token of the op lines: `14`, then `+g` (guarded) and / or `+r` (repaired)
pub fn hl_token() -> String {
    format!("{}{}{}", header_len(), if name_guarded() { "+g" } else { "" }, if repaired() { "+r" } else { "" })
}

/// `str::split_whitespace` yields nothing for this command name (after from_utf8_lossy / to_uppercase)
pub fn ws_only_name(name: &[u8]) -> bool {
    String::from_utf8_lossy(name).to_uppercase().split_whitespace().next().is_none()
}

fn op_line(cfg: &Cfg, segs: &[Vec<u8>]) -> String {
    let s: Vec<String> = segs.iter().map(|s| hex(s)).collect();
    format!("C {} {} {} {} {} {}", cfg.min_pipeline, cfg.batch_threshold, hl_token(), cfg.read_size, cfg.max_buffer, s.join(","))
}

// ---------------------------------------------------------------- generators

const KEYS: [&[u8]; 6] = [b"k", b"key:2", b"a-longer-key-name-0123456789", b"\r\n", b"", b"*3\r\n$3\r\nSET\r\n"];

fn value(rng: &mut Rng) -> Vec<u8> {
    match rng.below(8) {
        0 => vec![],
        1 => b"v".to_vec(),
        2 => b"with\r\ncrlf".to_vec(),
        3 => vec![0, 255, 36, 42],
        4 => vec![b'x'; rng.range(40, 90) as usize],
        5 => b"$3\r\nGET\r\n".to_vec(),
        6 if rng.chance(1, 25) => vec![b'B'; *rng.pick(&[8191usize, 8192, 8193, 12_000])], // around / above read_buffer_size
        _ => (0..rng.range(1, 12)).map(|_| rng.below(256) as u8).collect(),
    }
}

/// one well-formed command of the modelled subset
fn command(rng: &mut Rng, in_tx: &mut bool) -> Vec<Vec<u8>> {
    let lower = rng.chance(1, 5);
    let nm = |s: &str| if lower { s.to_lowercase().into_bytes() } else { s.as_bytes().to_vec() };
    match rng.below(20) {
        0..=6 => vec![nm("GET"), rng.pick(&KEYS).to_vec()],
        7..=12 => vec![nm("SET"), rng.pick(&KEYS).to_vec(), value(rng)],
        13..=14 => vec![nm("PING")],
        15..=16 => vec![nm("ECHO"), value(rng)],
        17 if !*in_tx => {
            *in_tx = true;
            vec![nm("MULTI")]
        }
        18 if *in_tx => {
            *in_tx = false;
            vec![if rng.chance(1, 4) { nm("DISCARD") } else { nm("EXEC") }]
        }
        _ if !*in_tx => vec![b"FOO".to_vec(), b"bar".to_vec()],
        _ => vec![nm("GET"), rng.pick(&KEYS).to_vec()],
    }
}

fn cut(stream: &[u8], cuts: &[usize]) -> Vec<Vec<u8>> {
    let mut v = Vec::new();
    let mut base = 0;
    for c in cuts {
        v.push(stream[base..*c].to_vec());
        base = *c;
    }
    v.push(stream[base..].to_vec());
    v
}

fn segmentation(rng: &mut Rng, stream: &[u8], boundaries: &[usize]) -> Vec<Vec<u8>> {
    let n = stream.len();
    if n < 2 {
        return vec![stream.to_vec()];
    }
    // (long streams are not cut byte by byte: the op line and the model's run time grow out of proportion)
    match if n > 1500 { 2 + rng.below(6) } else { rng.below(8) } {
        0 => vec![stream.to_vec()],
        1 => (0..n).map(|i| vec![stream[i]]).collect(),
        2 if n > 1500 && rng.chance(1, 2) => vec![stream.to_vec()],
        2 => cut(stream, boundaries), // one command per segment
        3 => {
            // cuts just around frame boundaries / inside headers
            let mut cs: Vec<usize> = Vec::new();
            for b in boundaries {
                let d = rng.range(0, 6) as usize;
                let c = if rng.chance(1, 2) { b.saturating_sub(d) } else { b + d };
                if c > 0 && c < n {
                    cs.push(c);
                }
            }
            cs.sort();
            cs.dedup();
            cut(stream, &cs)
        }
        _ => {
            let k = rng.range(1, 5) as usize;
            let mut cs: Vec<usize> = (0..k).map(|_| rng.range(1, n as u64 - 1) as usize).collect();
            cs.sort();
            cs.dedup();
            cut(stream, &cs)
        }
    }
}

/// a legal configuration (PerformanceConfig::validate): read_size >= 1, max_size >= read_size —
/// including max_size == read_size, read_size + 1 and small multiples of tiny reads
fn config(rng: &mut Rng) -> Cfg {
    let read_size = *rng.pick(&[8192usize, 8192, 8192, 64, 64, 16, 7, 1, 65536]);
    let max_buffer = match rng.below(9) {
        0 => read_size,
        1 => read_size + 1,
        2 => 2 * read_size,
        3 => 3 * read_size + 5,
        4 if read_size < 8192 => 8192,
        5 => usize::MAX,
        _ => 1_000_000.max(read_size),
    };
    Cfg {
        min_pipeline: *rng.pick(&[0usize, 1, 60, 60, 70, 1 << 40, usize::MAX]),
        batch_threshold: *rng.pick(&[0usize, 1, 2, 2, 6, usize::MAX]),
        read_size,
        max_buffer,
    }
}

/// a frame of many kilobytes read a few bytes at a time is re-parsed at every read (quadratic, in the
/// real handler and in the model alike): such cases keep a read size of at least 64
fn tame(cfg: &mut Cfg, cmds: &[Vec<Vec<u8>>]) {
    let biggest = cmds.iter().flat_map(|c| c.iter().map(|a| a.len())).max().unwrap_or(0);
    if biggest > 2000 && cfg.read_size < 64 {
        cfg.read_size = 64;
        if cfg.max_buffer < 1_000_000 {
            cfg.max_buffer = 1_000_000;
        }
    }
}

/// the reads the scripted stream hands to the handler: every segment in pieces of at most read_size
fn reads_of(segs: &[Vec<u8>], read_size: usize) -> Vec<usize> {
    let mut v = Vec::new();
    for s in segs {
        let mut left = s.len();
        while left > 0 {
            let n = left.min(read_size);
            v.push(n);
            left -= n;
        }
    }
    v
}

/// The overflow guard, stated on the input alone (independent of the model and of the code): before
/// a read of n bytes the buffer holds the bytes received after the end of the last complete frame;
/// the connection must answer `-ERR buffer overflow` and close exactly at the first read with
/// leftover + n > max_buffer_size, and never otherwise.  Returns (index of that read, number of
/// commands complete before it).
fn expected_overflow(frame_ends: &[usize], reads: &[usize], max_buffer: usize) -> Option<(usize, usize)> {
    let mut received = 0usize;
    for (i, n) in reads.iter().enumerate() {
        let done = frame_ends.iter().filter(|e| **e <= received).count();
        let last_end = frame_ends.iter().filter(|e| **e <= received).max().copied().unwrap_or(0);
        let leftover = received - last_end;
        if leftover + n > max_buffer {
            return Some((i, done));
        }
        received += n;
    }
    None
}

/// `from_utf8(..).parse::<usize>()`: optional '+', at least one digit, only digits, below 2^64
fn parse_usize_spec(b: &[u8]) -> Option<usize> {
    let d = if b.first() == Some(&b'+') { &b[1..] } else { b };
    if d.is_empty() || !d.iter().all(|c| c.is_ascii_digit()) {
        return None;
    }
    std::str::from_utf8(d).ok()?.parse::<usize>().ok()
}

/// THE LOOK-ALIKE CLASS (known_findings.json `scope`; Lean: `GetLookalike`, `lookalike_accepted_iff`).
/// With HEADER_LEN = 14 the GET recognisers accept exactly the byte strings
///   hdr ++ [x, '$'] ++ digits ++ ['\r', y] ++ key ++ [z1, z2] ++ …
/// where hdr = `*2\r\n$3\r\nGET\r\n` or `…get…` (13 bytes), x, y, z1, z2 are ARBITRARY bytes, `digits`
/// contains no CR and is a usize (optional '+'), and key has that many bytes.  Returns (key, total).
/// Every member is malformed RESP: a well-formed frame has a digit at offset 14, never '$'.
pub fn lookalike_get(buf: &[u8], h: usize) -> Option<(Vec<u8>, usize)> {
    if repaired() {
        return None; // the repaired recognisers take decodable frames only: the class is empty (Lean: repaired_recognisers_sound)
    }
    if !(buf.starts_with(b"*2\r\n$3\r\nGET\r\n") || buf.starts_with(b"*2\r\n$3\r\nget\r\n")) || buf.len() < h + 1 || buf[h] != b'$' {
        return None;
    }
    let r = buf[h + 1..].iter().position(|c| *c == b'\r')?;
    let n = parse_usize_spec(&buf[h + 1..h + 1 + r])?;
    let ks = h + 1 + r + 2;
    let total = ks.checked_add(n)?.checked_add(2)?;
    if buf.len() < total {
        return None;
    }
    Some((buf[ks..ks + n].to_vec(), total))
}

/// the SET class: hdr ++ [x,'$'] ++ d1 ++ ['\r',y1] ++ key ++ [z1,z2] ++ ['$'] ++ d2 ++ ['\r',y2] ++ val ++ [w1,w2] ++ …
pub fn lookalike_set(buf: &[u8], h: usize) -> Option<(Vec<u8>, Vec<u8>, usize)> {
    if repaired() {
        return None; // the repaired recognisers take decodable frames only: the class is empty (Lean: repaired_recognisers_sound)
    }
    if !(buf.starts_with(b"*3\r\n$3\r\nSET\r\n") || buf.starts_with(b"*3\r\n$3\r\nset\r\n")) || buf.len() < h + 1 || buf[h] != b'$' {
        return None;
    }
    let r = buf[h + 1..].iter().position(|c| *c == b'\r')?;
    let n = parse_usize_spec(&buf[h + 1..h + 1 + r])?;
    let ks = h + 1 + r + 2;
    let ke = ks.checked_add(n)?;
    let vls = ke.checked_add(2)?;
    if buf.len() <= vls || buf[vls] != b'$' {
        return None;
    }
    let r2 = buf[vls + 1..].iter().position(|c| *c == b'\r')?;
    let m = parse_usize_spec(&buf[vls + 1..vls + 1 + r2])?;
    let vs = vls + 1 + r2 + 2;
    let total = vs.checked_add(m)?.checked_add(2)?;
    if buf.len() < total {
        return None;
    }
    Some((buf[ks..ke].to_vec(), buf[vs..vs + m].to_vec(), total))
}

/// PREFIXES of look-alikes: the recognisers answer "need more data" (and the handler waits) although
/// the RESP grammar already rejects the bytes — same cause, the reply is withheld instead of wrong.
/// True iff `buf` is not (yet) a member but the GET recogniser with HEADER_LEN = h waits for more.
pub fn lookalike_prefix_get(buf: &[u8], h: usize) -> bool {
    if repaired() {
        return false; // a repaired recogniser never waits
    }
    if !(buf.starts_with(b"*2\r\n$3\r\nGET\r\n") || buf.starts_with(b"*2\r\n$3\r\nget\r\n")) || buf.len() < h + 1 || buf[h] != b'$' {
        return false;
    }
    let r = match buf[h + 1..].iter().position(|c| *c == b'\r') {
        None => return true,
        Some(r) => r,
    };
    let n = match parse_usize_spec(&buf[h + 1..h + 1 + r]) {
        None => return false,
        Some(n) => n,
    };
    match (h + 1 + r + 2).checked_add(n).and_then(|x| x.checked_add(2)) {
        None => false,
        Some(total) => buf.len() < total,
    }
}

pub fn lookalike_prefix_set(buf: &[u8], h: usize) -> bool {
    if repaired() {
        return false; // a repaired recogniser never waits
    }
    if !(buf.starts_with(b"*3\r\n$3\r\nSET\r\n") || buf.starts_with(b"*3\r\n$3\r\nset\r\n")) || buf.len() < h + 1 || buf[h] != b'$' {
        return false;
    }
    let r = match buf[h + 1..].iter().position(|c| *c == b'\r') {
        None => return true,
        Some(r) => r,
    };
    let n = match parse_usize_spec(&buf[h + 1..h + 1 + r]) {
        None => return false,
        Some(n) => n,
    };
    let vls = match (h + 1 + r + 2).checked_add(n).and_then(|x| x.checked_add(2)) {
        None => return false,
        Some(v) => v,
    };
    if buf.len() <= vls {
        return true;
    }
    if buf[vls] != b'$' {
        return false;
    }
    let r2 = match buf[vls + 1..].iter().position(|c| *c == b'\r') {
        None => return true,
        Some(r) => r,
    };
    let m = match parse_usize_spec(&buf[vls + 1..vls + 1 + r2]) {
        None => return false,
        Some(m) => m,
    };
    match (vls + 1 + r2 + 2).checked_add(m).and_then(|x| x.checked_add(2)) {
        None => false,
        Some(total) => buf.len() < total,
    }
}

fn any_byte(rng: &mut Rng) -> u8 {
    *rng.pick(&[b'X', b'$', b'-', b'0', b'\r', b'\n', 0u8, 0xff, b' '])
}

/// a random member of the look-alike class (built from its definition), or a near miss
fn gen_lookalike(rng: &mut Rng) -> (Vec<u8>, &'static str) {
    let set = rng.chance(1, 3);
    let mut v: Vec<u8> = if set { b"*3\r\n$3\r\n".to_vec() } else { b"*2\r\n$3\r\n".to_vec() };
    v.extend_from_slice(match (set, rng.chance(1, 4)) {
        (false, false) => b"GET",
        (false, true) => b"get",
        (true, false) => b"SET",
        (true, true) => b"set",
    });
    v.extend_from_slice(b"\r\n");
    let near = rng.below(8);
    v.push(any_byte(rng)); // offset 13: arbitrary
    v.push(if near == 0 { b'1' } else { b'$' }); // offset 14 must be '$'
    let field = |rng: &mut Rng, v: &mut Vec<u8>, data: &[u8], bad_digits: bool| {
        if bad_digits {
            v.extend_from_slice(*rng.pick(&[&b"x"[..], b"", b"-1", b"1 ", b"99999999999999999999"]));
        } else {
            if rng.chance(1, 5) {
                v.push(b'+');
            }
            if rng.chance(1, 6) {
                v.extend_from_slice(b"00");
            }
            v.extend_from_slice(data.len().to_string().as_bytes());
        }
        v.push(b'\r');
        v.push(if rng.chance(3, 4) { b'\n' } else { any_byte(rng) });
        v.extend_from_slice(data);
        if rng.chance(3, 4) {
            v.extend_from_slice(b"\r\n");
        } else {
            v.push(any_byte(rng));
            v.push(any_byte(rng));
        }
    };
    let key: Vec<u8> = rng.pick(&[&b"k"[..], b"", b"key:2", b"a\r\nb"]).to_vec();
    field(rng, &mut v, &key, near == 1);
    if set {
        if near == 2 {
            v.push(b'Y');
        }
        v.push(b'$');
        let val: Vec<u8> = rng.pick(&[&b"v"[..], b"", b"with\r\ncrlf"]).to_vec();
        field(rng, &mut v, &val, near == 3);
    }
    if near == 4 && v.len() > 16 {
        let n = v.len() - 1 - rng.below(2) as usize;
        v.truncate(n); // one or two bytes short: never complete
        return (v, "near-lookalike:truncated");
    }
    let label = match near {
        0 => "near-lookalike:digit-at-14",
        1 => "near-lookalike:bad-key-length",
        2 if set => "near-lookalike:junk-before-value",
        3 if set => "near-lookalike:bad-value-length",
        _ => "lookalike",
    };
    (v, label)
}

/// malformed frames that a RESP server must reject; (bytes, class)
fn malformed(rng: &mut Rng) -> (Vec<u8>, &'static str) {
    match rng.below(12) {
        0 => (b"?what\r\n".to_vec(), "unknown-type-byte"),
        1 => (b"*2\r\n$3\r\nGET\r\nX$1\r\nk\r\n".to_vec(), "lookalike"),
        2 => (b"*3\r\n$3\r\nSET\r\nX$1\r\nk\r\n$1\r\nv\r\n".to_vec(), "lookalike"),
        3 => (b"*1\r\n:x\r\n".to_vec(), "bad-integer"),
        4 => (b"*2\r\n$3\r\nGET\r\n$x\r\nk\r\n".to_vec(), "bad-bulk-length"),
        5 => (b"*2\r\n$3\r\nget\r\n-$2\r\nkk\r\n".to_vec(), "lookalike"),
        6 => (b"*x\r\n".to_vec(), "bad-array-length"),
        7 => (b"*2\r\n$3\r\nGET\r\n$$1\r\nk\r\n".to_vec(), "lookalike"),
        // stray separators where a frame must begin: an empty line, a lone LF, a blank, an inline command
        8 => (rng.pick(&[&b"\r\n"[..], b"\r\n\r\n", b"\n", b" ", b"\r\n\r", b"PING\r\n", b"\r\n?x\r\n"]).to_vec(), "stray-separator"),
        _ => gen_lookalike(rng),
    }
}

struct Cx {
    out: Out,
    runner: Runner,
}

/// well-formed pipeline: correspondence op + oracle against the one-command-per-segment twin
fn check_wellformed(cx: &mut Cx, cfg: &Cfg, cmds: &[Vec<Vec<u8>>], segs: &[Vec<u8>], src: &str) {
    let r = cx.runner.run(cfg, segs);
    let (line, vals) = line_of(&r);
    cx.out.op(op_line(cfg, segs), line.clone());
    let stream_len: usize = segs.iter().map(|s| s.len()).sum();
    cx.out.count(&format!("wf:{}:cmds={}:segs={}", src, cmds.len().min(13), segs.len().min(6)));
    cx.out.count(&format!("cfg:min={}:thr={}:read={}", cfg.min_pipeline.min(9999), cfg.batch_threshold, cfg.read_size));
    cx.out.count(if stream_len >= cfg.min_pipeline { "gate:open" } else { "gate:closed" });
    cx.out.case(&op_line(cfg, segs), cmds.len() >= 2 && segs.len() >= 2);
    let replay = |what: &str, twin: &str| json!({"op": op_line(cfg, segs), "commands": cmds.iter().map(|c| c.iter().map(|a| String::from_utf8_lossy(a).to_string()).collect::<Vec<_>>()).collect::<Vec<_>>(), "observed": line, "expected": what, "twin": twin, "source": src});
    cx.out.sample(replay("sample", ""));
    match &r.end {
        End::Crash(m) => {
            cx.out.violation("C04:crash:well-formed-stream", &format!("the connection handler panicked on a well-formed pipeline: {}", m), replay("no panic", ""));
            return;
        }
        End::Hang => {
            cx.out.violation("C04:hang:well-formed-stream", "the connection handler did not finish within 10 s", replay("EOF reached", ""));
            return;
        }
        End::Eof => {}
    }
    // the overflow guard: where (if at all) must `-ERR buffer overflow` come?
    let mut frame_ends = Vec::new();
    let mut acc = 0usize;
    for c in cmds {
        acc += frame(&c.iter().map(|a| &a[..]).collect::<Vec<_>>()).len();
        frame_ends.push(acc);
    }
    let reads = reads_of(segs, cfg.read_size);
    let exp_ov = expected_overflow(&frame_ends, &reads, cfg.max_buffer);
    cx.out.count(&format!("cfg:max={}", if cfg.max_buffer == cfg.read_size { "read" } else if cfg.max_buffer == cfg.read_size + 1 { "read+1" } else if cfg.max_buffer < stream_len { "below-stream" } else { "roomy" }));
    let saw_ov = vals.iter().any(|v| matches!(v, V::E(m) if m == b"ERR buffer overflow"));
    let twin_cfg = Cfg { min_pipeline: 1 << 40, batch_threshold: 1 << 20, read_size: 8192, max_buffer: 1_000_000 };
    let ov_replay = |what: &str| json!({"op": op_line(cfg, segs), "config": {"read_size": cfg.read_size, "max_buffer_size": cfg.max_buffer, "min_pipeline_buffer": cfg.min_pipeline, "batch_threshold": cfg.batch_threshold},
        "stream_bytes": stream_len, "frame_ends": frame_ends, "reads": reads, "segments": segs.iter().map(|s| hex(s)).collect::<Vec<_>>(), "observed": line, "expected": what, "source": src});
    if let Some((ri, done)) = exp_ov {
        cx.out.count("overflow:expected");
        // commands complete before the overflowing read are answered, then ONE overflow error, then close
        let twin_segs: Vec<Vec<u8>> = cmd_frames(&cmds[..done]);
        let t = cx.runner.run(&twin_cfg, &twin_segs);
        let (tline, tvals) = line_of(&t);
        let want_ok = vals.len() == done + 1 && vals[..done] == tvals[..] && matches!(&vals[done], V::E(m) if m == b"ERR buffer overflow");
        if !want_ok {
            let sig = if !saw_ov { "C04:overflow:missing" } else if vals.len() > done && vals[..done] != tvals[..] || vals.len() <= done { "C04:overflow:earlier-replies-lost" } else { "C04:overflow:wrong-place" };
            cx.out.violation(sig, &format!("read {} brings the unparsed bytes above max_buffer_size: the {} commands complete before it must be answered, then one -ERR buffer overflow, then close", ri, done), ov_replay(&format!("{} ; OV", tline)));
        }
        return;
    }
    if saw_ov {
        cx.out.violation("C04:overflow:spurious", "the connection answered -ERR buffer overflow and closed although the unparsed bytes plus the bytes read never exceeded max_buffer_size", ov_replay("no overflow error: one reply per command"));
        return;
    }
    // NOTHING IS WITHHELD WHILE THE CLIENT WAITS: whenever the handler asks for more input, every
    // command that is complete in the bytes delivered so far has been answered on the wire (a
    // client that sends a pipeline and waits for all replies before sending more must get them)
    for (delivered, wlen) in &r.marks {
        let complete = frame_ends.iter().filter(|e| **e <= *delivered).count();
        let got = decode_replies(&r.written[..(*wlen).min(r.written.len())]).0.len();
        if got < complete {
            cx.out.violation("C04:reply-withheld:until-more-input", &format!("the handler asked for more input after {} bytes ({} complete commands) with only {} replies on the wire: the missing replies are stranded until new bytes arrive — a client that waits for them waits for ever", delivered, complete, got),
                replay(&format!("{} replies written before the next read", complete), ""));
            break;
        }
    }
    cx.out.count(&format!("wf:depth={}", match cmds.len() { 0..=12 => "1-12", 13..=127 => "13-127", 128..=129 => "128-129", 130..=300 => "130-300", 301..=1024 => "301-1024", _ => "1025+" }));
    // twin: every command in its own segment, batching off
    let twin_segs: Vec<Vec<u8>> = cmds.iter().map(|c| frame(&c.iter().map(|a| &a[..]).collect::<Vec<_>>())).collect();
    let t = cx.runner.run(&twin_cfg, &twin_segs);
    let (tline, tvals) = line_of(&t);
    if vals.len() != cmds.len() {
        let class = if vals.len() < cmds.len() { "missing-reply" } else { "extra-reply" };
        cx.out.violation(&format!("C04:reply-count:{}", class), &format!("{} commands, {} replies", cmds.len(), vals.len()), replay("one reply per command", &tline));
    } else if vals != tvals {
        let i = (0..vals.len()).find(|i| vals.get(*i) != tvals.get(*i)).unwrap_or(0);
        cx.out.violation("C04:reply-differs-from-alone", &format!("reply {} differs from the reply the command gets when sent alone", i), replay("replies equal to one-at-a-time replies", &tline));
    }
}

fn gen_pipeline(rng: &mut Rng) -> (Vec<Vec<Vec<u8>>>, Vec<u8>, Vec<usize>) {
    let mut depth = *rng.pick(&[1u64, 2, 2, 3, 5, 6, 7, 12]);
    if rng.chance(1, 60) {
        // very deep pipelines (internal batch / drain bounds, several reads of read_size)
        depth = *rng.pick(&[64u64, 127, 128, 129, 130, 200, 255, 256, 257, 300, 513]);
    }
    let mut in_tx = false;
    let mut cmds = Vec::new();
    // runs of GETs / SETs (what the collectors look for), mixed with other commands
    let mode = rng.below(4);
    for _ in 0..depth {
        let c = match mode {
            0 => vec![b"GET".to_vec(), rng.pick(&KEYS).to_vec()],
            1 => vec![b"SET".to_vec(), rng.pick(&KEYS).to_vec(), value(rng)],
            _ => command(rng, &mut in_tx),
        };
        cmds.push(c);
    }
    if in_tx {
        cmds.push(vec![b"EXEC".to_vec()]);
    }
    let mut stream = Vec::new();
    let mut bounds = Vec::new();
    for c in &cmds {
        stream.extend(frame(&c.iter().map(|a| &a[..]).collect::<Vec<_>>()));
        bounds.push(stream.len());
    }
    bounds.pop();
    (cmds, stream, bounds)
}

fn cmd_frames(cmds: &[Vec<Vec<u8>>]) -> Vec<Vec<u8>> {
    cmds.iter().map(|c| frame(&c.iter().map(|a| &a[..]).collect::<Vec<_>>())).collect()
}

/// well-formed prefix, one malformed frame, (for look-alikes) a well-formed suffix.
///
/// Known findings are attributed by CAUSE: `C04:malformed-{accepted,silence}:{get,set}-lookalike`
/// fires only if the malformed frame is, byte for byte, a member of the look-alike class
/// (`lookalike_get` / `lookalike_set`, the class the model with the real HEADER_LEN accepts) AND the
/// observed reply stream is one of the two the current code can produce for it (the frame
/// executed as the `GET key` / `SET key value` it resembles, or the frame consumed without a
/// reply), AND — checked by ./check through `op_index` — equals the model's reply stream for this
/// very op.  Everything else gets its own signature with the concrete bytes.
fn check_malformed(cx: &mut Cx, cfg: &Cfg, cmds: &[Vec<Vec<u8>>], bad: &[u8], hint: &str, suffix: &[Vec<Vec<u8>>], segs: &[Vec<u8>], src: &str) {
    let h = header_len();
    let lg = lookalike_get(bad, h).filter(|(_, t)| *t == bad.len());
    let ls = lookalike_set(bad, h).filter(|(_, _, t)| *t == bad.len());
    let class: String = if lg.is_some() {
        "get-lookalike".into()
    } else if ls.is_some() {
        "set-lookalike".into()
    } else if lookalike_prefix_get(bad, h) {
        "get-lookalike-prefix".into()
    } else if lookalike_prefix_set(bad, h) {
        "set-lookalike-prefix".into()
    } else if hint == "lookalike" {
        "near-lookalike:other".into()
    } else {
        hint.to_string()
    };
    let r = cx.runner.run(cfg, segs);
    let (line, vals) = line_of(&r);
    cx.out.op(op_line(cfg, segs), line.clone());
    let op_index = cx.out.n_ops();
    cx.out.count(&format!("malformed:{}:{}", src, class));
    cx.out.count(&format!("malformed-suffix-cmds={}", suffix.len().min(3)));
    cx.out.case(&op_line(cfg, segs), true);
    let replay = |what: &str| json!({"op": op_line(cfg, segs), "op_index": op_index, "well_formed_prefix_commands": cmds.len(), "malformed_frame": String::from_utf8_lossy(bad), "malformed_frame_hex": hex(bad), "commands_after_it": suffix.len(), "segments": segs.iter().map(|s| hex(s)).collect::<Vec<_>>(), "class": class, "observed": line, "expected": what, "source": src});
    match &r.end {
        End::Crash(m) => {
            let sig = if class == "huge-key-length" { "C04:crash:recogniser-length-overflow".to_string() } else { format!("C04:crash:{}", class) };
            cx.out.violation(&sig, &format!("the connection handler panicked on a malformed frame ({}): {}", class, m), replay("an error reply"));
            return;
        }
        End::Hang => {
            cx.out.violation(&format!("C04:hang:{}", class), "the connection handler did not finish within 10 s", replay("an error reply"));
            return;
        }
        End::Eof => {}
    }
    let twin_cfg = Cfg { min_pipeline: 1 << 40, batch_threshold: 1 << 20, read_size: 8192, max_buffer: 1_000_000 };
    let mut twin = |cx: &mut Cx, cs: &[Vec<Vec<u8>>]| -> Vec<V> {
        let t = cx.runner.run(&twin_cfg, &cmd_frames(cs));
        line_of(&t).1
    };
    // replies to the earlier commands are unchanged
    let tvals = twin(cx, cmds);
    if vals.len() < cmds.len() || vals[..cmds.len()] != tvals[..] {
        cx.out.violation(&format!("C04:malformed-alters-earlier-replies:{}", class), "a malformed frame changed (or removed) replies to earlier commands", replay("earlier replies unchanged"));
        return;
    }
    let rest = &vals[cmds.len()..];
    let as_cmd: Option<Vec<Vec<u8>>> = if let Some((k, _)) = &lg {
        Some(vec![b"GET".to_vec(), k.clone()])
    } else if let Some((k, v, _)) = &ls {
        Some(vec![b"SET".to_vec(), k.clone(), v.clone()])
    } else {
        None
    };
    if let Some(c) = as_cmd {
        // the two reply streams the code as it is can produce for a member of the class
        let mut exec: Vec<Vec<Vec<u8>>> = cmds.to_vec();
        exec.push(c);
        exec.extend(suffix.iter().cloned());
        let a = twin(cx, &exec);
        let mut skip: Vec<Vec<Vec<u8>>> = cmds.to_vec();
        skip.extend(suffix.iter().cloned());
        let b = twin(cx, &skip);
        let mut rp = replay("an error reply");
        rp["model_must_agree"] = json!(true);
        let sig = if rest == &a[cmds.len()..] { Some(format!("C04:malformed-accepted:{}", class)) } else if rest == &b[cmds.len()..] { Some(format!("C04:malformed-silence:{}", class)) } else { None };
        if let Some(sig) = &sig {
            let e = cx.out.extra.entry("must_agree".to_string()).or_insert_with(|| json!([]));
            e.as_array_mut().unwrap().push(json!([op_index, sig]));
        }
        if rest == &a[cmds.len()..] {
            cx.out.violation(&format!("C04:malformed-accepted:{}", class), "a look-alike frame (garbage byte where the `$` of the key belongs) is executed as the GET / SET it resembles", rp);
        } else if rest == &b[cmds.len()..] {
            cx.out.violation(&format!("C04:malformed-silence:{}", class), "a look-alike frame is consumed by a batch collector and, below batch_threshold, dropped: no reply for the frame", rp);
        } else {
            cx.out.violation(&format!("C04:malformed-lookalike-unpredicted-outcome:{}", class), "a look-alike frame was neither executed as the command it resembles nor simply dropped: replies of other commands are affected", replay("(known finding) the frame executed as GET/SET, or consumed without reply — nothing else"));
        }
        return;
    }
    // only a frame that the RESP grammar REJECTS must be answered with an error; a near miss that is
    // merely an incomplete (or a well-formed) frame may legitimately stay unanswered at EOF
    let verdict = crate::c15::decode_here(2, bad);
    if verdict.kind != crate::c15::Kind::Error {
        cx.out.count(&format!("malformed-not-rejected-by-grammar:{}", class));
        if rest.first().map(|v| !matches!(v, V::E(_))).unwrap_or(false) && verdict.kind == crate::c15::Kind::Incomplete {
            cx.out.violation(&format!("C04:incomplete-frame-executed:{}", class), "an incomplete frame was executed as a command", replay("no reply before the frame is complete"));
        }
        return;
    }
    if rest.is_empty() && class.ends_with("-lookalike-prefix") && suffix.is_empty() {
        // same cause as the look-alikes: the recogniser waits for the rest of a frame it would accept
        let sig = format!("C04:malformed-stall:{}", class);
        let e = cx.out.extra.entry("must_agree".to_string()).or_insert_with(|| json!([]));
        e.as_array_mut().unwrap().push(json!([op_index, sig]));
        let mut rp = replay("an error reply");
        rp["model_must_agree"] = json!(true);
        cx.out.violation(&sig, "a proper prefix of a look-alike frame, which the RESP grammar already rejects, gets no reply: the fast path waits for the rest of the frame", rp);
        return;
    }
    if rest.is_empty() {
        cx.out.violation(&format!("C04:malformed-silence:{}", class), "a complete malformed frame got no reply at all", replay("an error reply"));
    } else if !matches!(rest[0], V::E(_)) {
        cx.out.violation(&format!("C04:malformed-accepted:{}", class), "a malformed frame was executed as a command (data reply instead of an error)", replay("an error reply"));
    }
}

// ---------------------------------------------------------------- every arm of the handler (class 1)

/// the source tree this binary was BUILT against (the `redis-sim` path dependency of harness/Cargo.toml)
fn repo_dir() -> String {
    const MANIFEST: &str = include_str!("../Cargo.toml");
    for line in MANIFEST.lines() {
        if line.trim_start().starts_with("redis-sim") {
            if let Some(i) = line.find("path = \"") {
                let rest = &line[i + 8..];
                if let Some(j) = rest.find('"') {
                    return rest[..j].to_string();
                }
            }
        }
    }
    "/repo".to_string()
}

/// (frames sent outside MULTI, frames sent inside MULTI) that reach the arm of `try_execute_command`
/// matching `Command::<variant>`; `None` = the harness does not know the variant
fn arm_drivers(variant: &str) -> Option<Vec<Vec<&'static [u8]>>> {
    Some(match variant {
        "Multi" => vec![vec![b"MULTI"]],
        "Exec" => vec![vec![b"EXEC"]],
        "Discard" => vec![vec![b"DISCARD"]],
        "Watch" => vec![vec![b"WATCH", b"k"], vec![b"WATCH", b"k", b"key:2"]],
        "Unwatch" => vec![vec![b"UNWATCH"]],
        "Auth" => vec![vec![b"AUTH", b"pw"], vec![b"AUTH", b"default", b"pw"]],
        "AclWhoami" => vec![vec![b"ACL", b"WHOAMI"]],
        "AclList" => vec![vec![b"ACL", b"LIST"]],
        "AclUsers" => vec![vec![b"ACL", b"USERS"]],
        "AclGetUser" => vec![vec![b"ACL", b"GETUSER", b"default"], vec![b"ACL", b"GETUSER", b"no-such-user"]],
        "AclSetUser" => vec![vec![b"ACL", b"SETUSER", b"bob", b"on", b"nopass", b"~*", b"+@all"]],
        "AclDelUser" => vec![vec![b"ACL", b"DELUSER", b"bob"]],
        "AclCat" => vec![vec![b"ACL", b"CAT"], vec![b"ACL", b"CAT", b"string"]],
        "AclGenPass" => vec![vec![b"ACL", b"GENPASS"], vec![b"ACL", b"GENPASS", b"32"]],
        "AclDryrun" => vec![vec![b"ACL", b"DRYRUN", b"default", b"GET", b"k"]],
        "AclLog" => vec![vec![b"ACL", b"LOG"], vec![b"ACL", b"LOG", b"2"]],
        "AclLogReset" => vec![vec![b"ACL", b"LOG", b"RESET"]],
        // stubs and genuinely unknown names: see STUBS / the unknown-name frames of `any_command`
        "Unknown" => vec![vec![b"FOO", b"bar"], vec![b"HELLO"]],
        // the `&Command::Get(key.clone())` of the WATCH snapshot / check is a constructor, not an arm
        "Get" => vec![vec![b"GET", b"k"]],
        _ => return None,
    })
}

/// every name `is_stub_command` / `handle_stub_command` mention, with a frame that reaches it
const STUBS: &[(&str, &[&[u8]])] = &[
    ("PUBLISH", &[b"PUBLISH", b"ch", b"m"]), ("SPUBLISH", &[b"SPUBLISH", b"ch", b"m"]), ("SUBSCRIBE", &[b"SUBSCRIBE", b"ch"]), ("SSUBSCRIBE", &[b"SSUBSCRIBE", b"ch"]),
    ("PSUBSCRIBE", &[b"PSUBSCRIBE", b"p*"]), ("UNSUBSCRIBE", &[b"UNSUBSCRIBE"]), ("SUNSUBSCRIBE", &[b"SUNSUBSCRIBE"]), ("PUNSUBSCRIBE", &[b"PUNSUBSCRIBE"]),
    ("HELLO", &[b"HELLO", b"3"]), ("RESET", &[b"RESET"]),
    ("CLIENT ", &[b"CLIENT", b"SETNAME", b"x"]), ("LIST", &[b"CLIENT", b"LIST"]), ("KILL", &[b"CLIENT", b"KILL", b"1.2.3.4:5"]), ("NO-EVICT", &[b"CLIENT", b"NO-EVICT", b"on"]),
    ("CONFIG ", &[b"CONFIG", b"REWRITE"]), ("RESETSTAT", &[b"CONFIG", b"RESETSTAT"]), ("SET", &[b"CONFIG", b"SET", b"maxmemory", b"1"]), ("GET", &[b"CONFIG", b"GET", b"maxmemory"]),
    ("ACL ", &[b"ACL", b"NOSUCHSUB"]), ("HELP", &[b"ACL", b"HELP"]), ("LOAD", &[b"ACL", b"LOAD"]), ("SAVE", &[b"ACL", b"SAVE"]),
];

/// how every function of connection_optimized.rs is accounted for
fn fn_coverage(name: &str) -> Option<&'static str> {
    Some(match name {
        "parse_usize_fast" => "driven: the recognisers' length fields (look-alike generator: '+', leading zeros, 20 digits, empty, junk); feature opt-atoi-parse is off",
        "default" | "from_perf_config" => "driven: every case builds its ConnectionConfig through PerformanceConfig::validate + from_perf_config; Default's values are the `default_like` configuration",
        "new" => "driven: hook H1 / H1b constructs the handler for every case (buffers acquired from the shared pool; client_cert_cn = None: TLS is a feature that is off)",
        "run" => "driven: every case; arms Ok(0) (EOF), Ok(n), Err (W ops: read error at a generated read), overflow guard, parse error, flush / write failure (W ops)",
        "try_execute_command" => "driven: every arm by the K cases (enumerated from the source: arm_drivers)",
        "execute_connection_level" => "driven: connection-level commands queued in MULTI and replayed by EXEC (K cases)",
        "user_has_unrestricted_keys" | "check_acl_permission" => "driven with the default user only (feature acl off: AclManager is the permissive stub)",
        "handle_auth" | "handle_acl_whoami" | "handle_acl_list" | "handle_acl_users" | "handle_acl_getuser" | "handle_acl_setuser" | "handle_acl_deluser" | "handle_acl_cat"
        | "handle_acl_genpass" | "handle_acl_dryrun" | "handle_acl_log" | "handle_acl_log_reset" => "driven: K cases (one reply each, equal to the reply when sent alone; ACL GENPASS by kind only)",
        "is_stub_command" | "handle_stub_command" => "driven: every literal of both functions by the K cases (STUBS, enumerated from the source)",
        "collect_get_keys" | "collect_set_pairs" | "try_fast_path" | "try_fast_get" | "try_fast_set" => "driven: well-formed GET / SET runs around both thresholds (dead for them), the look-alike class and its near misses (alive), cut at every byte",
        "encode_resp_into" | "encode_error_into" => "driven: every reply; byte-exact in the W ops; on arbitrary values through hook H1c (C15)",
        "verif_encode_reply" | "verif_encode_error" => "hook H1c itself",
        "resp_values_equal" => "WATCH comparison: C05's subject; reached by the K cases' WATCH … EXEC",
        _ => return None,
    })
}

fn scan_fail(cx: &mut Cx, what: &str) {
    cx.out.violation("C04:coverage:source-scan-failed", &format!("the scan of src/production/connection_optimized.rs found no {}: the enumeration of what must be driven is empty", what), json!({"file": format!("{}/src/production/connection_optimized.rs", repo_dir())}));
}

/// ENUMERATE FROM THE SOURCE the binary was built against: arms of try_execute_command, stub names,
/// functions, result enums, ConnectionConfig fields — everything must be known to the harness
fn source_enumeration(cx: &mut Cx) -> Vec<String> {
    let path = format!("{}/src/production/connection_optimized.rs", repo_dir());
    let src = match std::fs::read_to_string(&path) {
        Ok(s) => s,
        Err(_) => {
            scan_fail(cx, "file");
            return vec![];
        }
    };
    let mut table = serde_json::Map::new();
    // 1. arms of try_execute_command
    // (function bodies are cut out by NAME with brace matching: the order of the functions in the file,
    // their visibility and attributes do not matter)
    let body = crate::c15::fn_text(&src, "try_execute_command").unwrap_or("");
    let mut variants: Vec<String> = Vec::new();
    for line in body.lines() {
        let mut rest = line;
        while let Some(i) = rest.find("Command::") {
            let after = &rest[i + 9..];
            let name: String = after.chars().take_while(|c| c.is_alphanumeric()).collect();
            if name.chars().next().map(|c| c.is_uppercase()).unwrap_or(false) && !variants.contains(&name) {
                variants.push(name);
            }
            rest = after;
        }
    }
    if variants.len() < 10 {
        scan_fail(cx, "arms of try_execute_command");
    }
    for v in &variants {
        match arm_drivers(v) {
            Some(fr) => {
                table.insert(format!("arm Command::{}", v), json!(format!("driven by {} frame(s), outside and inside MULTI", fr.len())));
            }
            None => {
                table.insert(format!("arm Command::{}", v), json!("UNACCOUNTED"));
                cx.out.violation(&format!("C04:coverage:connection-arm-not-driven:{}", v), "try_execute_command matches on a Command variant for which the harness has no driving frame (harness/src/c04.rs arm_drivers)", json!({"variant": v}));
            }
        }
    }
    // 2. literals of is_stub_command / handle_stub_command
    let stub_body = format!("{}\n{}", crate::c15::fn_text(&src, "is_stub_command").unwrap_or(""), crate::c15::fn_text(&src, "handle_stub_command").unwrap_or(""));
    let mut lits: Vec<String> = Vec::new();
    for line in stub_body.lines() {
        let t = line.trim_start();
        if t.starts_with("//") || t.contains("RespValue::") || t.contains("format!(") {
            continue;
        }
        let mut rest = t;
        while let Some(i) = rest.find('"') {
            let after = &rest[i + 1..];
            if let Some(j) = after.find('"') {
                let lit = &after[..j];
                if !lit.is_empty() && lit.chars().all(|c| c.is_ascii_uppercase() || c == ' ' || c == '-') && !lits.contains(&lit.to_string()) {
                    lits.push(lit.to_string());
                }
                rest = &after[j + 1..];
            } else {
                break;
            }
        }
    }
    if lits.len() < 10 {
        scan_fail(cx, "stub command names");
    }
    for l in &lits {
        if STUBS.iter().any(|(n, _)| n == l) {
            table.insert(format!("stub {:?}", l), json!("driven (K cases)"));
        } else {
            table.insert(format!("stub {:?}", l), json!("UNACCOUNTED"));
            cx.out.violation(&format!("C04:coverage:stub-not-driven:{}", l.trim()), "is_stub_command / handle_stub_command mention a name for which the harness has no frame (harness/src/c04.rs STUBS)", json!({"literal": l}));
        }
    }
    // 3. functions.  Only `new` / `run` / `from_perf_config` / the hooks are public: every private function is
    //    reachable through `run` alone, i.e. through the bytes a case sends — a new or renamed PRIVATE helper
    //    is no new entry point (it is listed, not a violation); a new PUBLIC function is
    let mut fns: Vec<String> = Vec::new();
    let mut public: Vec<String> = Vec::new();
    for line in src.lines() {
        let t = line.trim_start();
        for pre in ["pub async fn ", "pub fn ", "pub(crate) fn ", "pub(crate) async fn ", "async fn ", "fn "] {
            if let Some(r) = t.strip_prefix(pre) {
                let name: String = r.chars().take_while(|c| c.is_alphanumeric() || *c == '_').collect();
                if !name.is_empty() && !fns.contains(&name) {
                    if pre.starts_with("pub") {
                        public.push(name.clone());
                    }
                    fns.push(name);
                }
                break;
            }
        }
    }
    if fns.len() < 20 {
        scan_fail(cx, "functions");
    }
    for f in &fns {
        match fn_coverage(f) {
            Some(c) => {
                table.insert(format!("fn {}", f), json!(c));
            }
            None if !public.contains(f) => {
                table.insert(format!("fn {}", f), json!("private function not in the harness's table: reachable only through run(), i.e. through the bytes of the cases (correspondence)"));
            }
            None if crate::c15::call_sites(&repo_dir(), f) == 0 => {
                table.insert(format!("fn {}", f), json!("public, but called nowhere in src/ (unreachable for now): not driven; a call site makes it a violation"));
            }
            None => {
                table.insert(format!("fn {}", f), json!("UNACCOUNTED"));
                cx.out.violation(&format!("C04:coverage:fn-not-accounted:{}", f), "a PUBLIC function of connection_optimized.rs is neither driven nor listed with the reason why not (harness/src/c04.rs fn_coverage)", json!({"fn": f}));
            }
        }
    }
    // 4. result enums and the arms of the read
    for (en, want) in [("enum CommandResult", &["Executed", "NeedMoreData", "ParseError"][..]), ("enum FastPathResult", &["Handled", "NeedMoreData", "NotFastPath"][..])] {
        let b = src.split(en).nth(1).and_then(|r| r.split('}').next()).unwrap_or("");
        let vs: Vec<String> = b.lines().map(|l| l.trim()).filter(|l| !l.starts_with("//") && !l.starts_with('{') && !l.is_empty()).map(|l| l.chars().take_while(|c| c.is_alphanumeric()).collect::<String>()).filter(|s| !s.is_empty()).collect();
        if vs.is_empty() {
            scan_fail(cx, en);
        }
        for v in vs {
            if want.contains(&v.as_str()) {
                table.insert(format!("{}::{}", en, v), json!("modelled (Recog / seqLoop outcomes) and driven"));
            } else {
                table.insert(format!("{}::{}", en, v), json!("UNACCOUNTED"));
                cx.out.violation(&format!("C04:coverage:result-variant-not-modelled:{}", v), "a result variant of the handler's command step is not in the model (Model/Conn.lean Recog / seqLoop)", json!({"enum": en, "variant": v}));
            }
        }
    }
    // 5. ConnectionConfig fields are generated input
    let cfgb = src.split("pub struct ConnectionConfig").nth(1).and_then(|r| r.split('}').next()).unwrap_or("");
    let fields: Vec<String> = cfgb.lines().filter_map(|l| l.trim().strip_prefix("pub ")).map(|l| l.chars().take_while(|c| c.is_alphanumeric() || *c == '_').collect()).collect();
    if fields.is_empty() {
        scan_fail(cx, "ConnectionConfig fields");
    }
    for f in fields {
        if ["max_buffer_size", "read_buffer_size", "min_pipeline_buffer", "batch_threshold"].contains(&f.as_str()) {
            table.insert(format!("ConnectionConfig::{}", f), json!("generated input incl. legal extremes (config())"));
        } else {
            table.insert(format!("ConnectionConfig::{}", f), json!("UNACCOUNTED"));
            cx.out.violation(&format!("C04:coverage:config-field-not-generated:{}", f), "ConnectionConfig has a field the harness does not generate and the model does not have", json!({"field": f}));
        }
    }
    cx.out.extra.insert("source_coverage(derived from connection_optimized.rs at run time)".into(), serde_json::Value::Object(table));
    variants
}

/// any well-formed command the server knows or does not know: the pool of the K cases
fn any_command(rng: &mut Rng, in_tx: &mut bool, variants: &[String]) -> Vec<Vec<u8>> {
    let own = |f: &[&[u8]]| f.iter().map(|a| a.to_vec()).collect::<Vec<Vec<u8>>>();
    match rng.below(12) {
        0..=2 if !variants.is_empty() => {
            // an arm of try_execute_command
            let v = rng.pick(variants).clone();
            let fr = arm_drivers(&v).unwrap_or_else(|| vec![vec![b"PING"]]);
            let f = own(&fr[rng.below(fr.len() as u64) as usize]);
            let up = String::from_utf8_lossy(&f[0]).to_uppercase();
            if up == "MULTI" {
                if *in_tx {
                    // nested MULTI: an error, the transaction goes on
                }
                *in_tx = true;
            } else if up == "EXEC" || up == "DISCARD" {
                *in_tx = false;
            }
            f
        }
        3..=4 => own(rng.pick(STUBS).1),
        5 => own(*rng.pick(&[&[&b"GET"[..]][..], &[b"SET", b"k"], &[b"GET", b"a", b"b"], &[b"INCR"], &[b"EXPIRE", b"k", b"x"], &[b"SET", b"k", b"v", b"EX", b"0"]])),
        6 => own(*rng.pick(&[&[&b"INCR"[..], b"n"][..], &[b"DEL", b"k", b"key:2"], &[b"RPUSH", b"l", b"a", b"b"], &[b"LRANGE", b"l", b"0", b"-1"], &[b"HSET", b"h", b"f", b"1"], &[b"HGETALL", b"h"],
            &[b"EXISTS", b"k"], &[b"MGET", b"k", b"nokey"], &[b"TYPE", b"l"], &[b"APPEND", b"k", b"x"], &[b"STRLEN", b"k"], &[b"DBSIZE"], &[b"EVAL", b"return {1,{2,false},'x'}", b"0"]])),
        7 if rng.chance(1, 2) => own(*rng.pick(&[&[&b"DEBUG"[..], b"OBJECT", b"k"][..], &[b"DEBUG", b"SLEEP", b"0"], &[b"DEBUG", b"SET-ACTIVE-EXPIRE", b"1"], &[b"CLIENT", b"GETNAME"], &[b"CLIENT", b"ID"],
            &[b"CLIENT", b"INFO"], &[b"CLIENT", b"NOSUCHSUB"], &[b"CLIENT", b"KILL", b"x"], &[b"CONFIG", b"GET", b"maxmemory"], &[b"TIME"]])),
        7 => own(*rng.pick(&[&[&b"QUIT"[..]][..], &[b"SELECT", b"0"], &[b"COMMAND"], &[b"INFO"], &[b"FOO\r\n+INJECTED"], &[b""], &[b" \t"], &[b"\xc2\xa0", b"x"], &[b"\xff\xfe", b"x"], &[b"get"]])),
        _ => {
            let mut t = *in_tx;
            let c = command(rng, &mut t);
            *in_tx = t;
            c
        }
    }
}

/// replies that legitimately differ from run to run: compared by kind only
fn nondeterministic(cmd: &[Vec<u8>]) -> bool {
    let up: Vec<String> = cmd.iter().take(2).map(|a| String::from_utf8_lossy(a).to_uppercase()).collect();
    (up.len() == 2 && up[0] == "ACL" && (up[1] == "GENPASS" || up[1] == "LOG")) || up[0] == "INFO" || up[0] == "TIME" || (up[0] == "DEBUG" && up.len() == 2 && up[1] == "OBJECT") || (up[0] == "CLIENT" && up.len() == 2 && (up[1] == "ID" || up[1] == "INFO"))
}

fn same_kind(a: &V, b: &V) -> bool {
    std::mem::discriminant(a) == std::mem::discriminant(b)
}

/// EXEC arrays that contain the reply of a nondeterministic command: same length, same kinds
fn same_shape(a: &V, b: &V) -> bool {
    match (a, b) {
        (V::A(x), V::A(y)) => x.len() == y.len() && x.iter().zip(y.iter()).all(|(p, q)| same_kind(p, q)),
        _ => a == b,
    }
}

/// K case: ANY well-formed commands (every arm of try_execute_command, every stub, arity errors,
/// data commands of every reply kind).  Correspondence: the number of replies.  Oracle: one reply
/// per command, each equal to the reply of the command when every command arrives alone.
fn check_any(cx: &mut Cx, cfg: &Cfg, cmds: &[Vec<Vec<u8>>], segs: &[Vec<u8>], src: &str) {
    let r = cx.runner.run(cfg, segs);
    let (vals, rest) = decode_replies(&r.written);
    let end = match &r.end { End::Eof => "eof", End::Crash(_) => "crash", End::Hang => "hang" };
    let s: Vec<String> = segs.iter().map(|s| hex(s)).collect();
    let op = format!("K {} {} {} {} {} {}", cfg.min_pipeline, cfg.batch_threshold, hl_token(), cfg.read_size, cfg.max_buffer, s.join(","));
    cx.out.op(op.clone(), format!("n={} end={}{}", vals.len(), end, if rest > 0 { format!(" undecoded={}", rest) } else { String::new() }));
    cx.out.case(&op, cmds.len() >= 2 && segs.len() >= 2);
    for c in cmds {
        let up = String::from_utf8_lossy(&c[0]).to_uppercase();
        let key = if ["ACL", "CLIENT", "CONFIG"].contains(&up.as_str()) && c.len() > 1 { format!("{} {}", up, String::from_utf8_lossy(&c[1]).to_uppercase()) } else { up };
        let key: String = key.chars().filter(|ch| ch.is_ascii_graphic() || *ch == ' ').take(24).collect();
        cx.out.count(&format!("any:cmd:{}", key));
    }
    let shown: Vec<Vec<String>> = cmds.iter().map(|c| c.iter().map(|a| String::from_utf8_lossy(a).to_string()).collect()).collect();
    let replay = |what: &str, twin: &str| json!({"op": op, "commands": shown, "observed": vals.iter().map(|v| v.show()).collect::<Vec<_>>(), "end": end, "expected": what, "alone": twin, "source": src});
    if end != "eof" {
        let m = if let End::Crash(m) = &r.end { m.clone() } else { "no progress for 10 s".to_string() };
        // CAUSE OF THE FIXED DEFECT 5f3bab5 (C04:crash:whitespace-command-name; only attributed while the source still has `parts[0]`): the first command OUTSIDE MULTI whose name has no
        // non-white-space character panics check_acl_permission (`parts[0]` of an empty Vec).  Attributed only
        // if such a command exists, the panic is an index panic, at most the commands before it were
        // answered, and (./check, must_agree) the model of the current code predicts this very outcome.
        let mut in_tx = false;
        let mut culprit: Option<usize> = None;
        for (i, c) in cmds.iter().enumerate() {
            let up = String::from_utf8_lossy(&c[0]).to_uppercase();
            if !in_tx && ws_only_name(&c[0]) {
                culprit = Some(i);
                break;
            }
            if up == "MULTI" && c.len() == 1 {
                in_tx = true;
            } else if (up == "EXEC" || up == "DISCARD") && c.len() == 1 {
                in_tx = false;
            }
        }
        match culprit {
            Some(i) if end == "crash" && m.contains("index out of bounds") && vals.len() <= i && !name_guarded() => {
                let sig = "C04:crash:whitespace-command-name";
                let idx = cx.out.n_ops();
                let e = cx.out.extra.entry("must_agree".to_string()).or_insert_with(|| json!([]));
                e.as_array_mut().unwrap().push(json!([idx, sig]));
                let mut rp = replay("an error reply (-ERR unknown command), then the replies to the following commands", "");
                rp["culprit_command_index"] = json!(i);
                rp["panic"] = json!(m);
                rp["model_must_agree"] = json!(true);
                cx.out.violation(sig, "a well-formed command whose name is empty or white space only, sent outside MULTI, panics the connection task in check_acl_permission (release profile: panic = abort, the server dies)", rp);
            }
            _ => cx.out.violation(&format!("C04:{}:well-formed-stream", end), &format!("the connection handler did not reach EOF on a well-formed pipeline: {}", m), replay("EOF", "")),
        }
        return;
    }
    let twin_cfg = Cfg { min_pipeline: 1 << 40, batch_threshold: 1 << 20, read_size: 8192, max_buffer: 1_000_000 };
    let t = cx.runner.run(&twin_cfg, &cmd_frames(cmds));
    let (tvals, _) = decode_replies(&t.written);
    let tline = tvals.iter().map(|v| v.show()).collect::<Vec<_>>().join(" ; ");
    if vals.len() != cmds.len() || rest != 0 {
        let class = if vals.len() < cmds.len() { "missing-reply" } else { "extra-reply" };
        cx.out.violation(&format!("C04:reply-count:{}", class), &format!("{} commands, {} replies ({} undecodable bytes)", cmds.len(), vals.len(), rest), replay("one reply per command", &tline));
        return;
    }
    let nd_any = cmds.iter().any(|c| nondeterministic(c));
    for i in 0..vals.len() {
        let is_exec = cmds[i].len() == 1 && cmds[i][0].eq_ignore_ascii_case(b"EXEC");
        let ok = if nondeterministic(&cmds[i]) {
            tvals.get(i).map(|t| same_kind(t, &vals[i])).unwrap_or(false)
        } else if nd_any && is_exec {
            tvals.get(i).map(|t| same_shape(t, &vals[i])).unwrap_or(false)
        } else {
            tvals.get(i) == Some(&vals[i])
        };
        if !ok {
            cx.out.violation("C04:reply-differs-from-alone", &format!("reply {} ({}) differs from the reply the command gets when every command is sent alone", i, shown[i].join(" ")), replay("replies equal to one-at-a-time replies", &tline));
            return;
        }
    }
}

fn any_case(cx: &mut Cx, rng: &mut Rng, variants: &[String]) {
    let mut cfg = config(rng);
    cfg.max_buffer = 1_000_000;
    let depth = *rng.pick(&[1u64, 2, 3, 5, 8, 13]);
    let mut in_tx = false;
    let mut cmds = Vec::new();
    for _ in 0..depth {
        cmds.push(any_command(rng, &mut in_tx, variants));
    }
    if in_tx {
        cmds.push(vec![b"EXEC".to_vec()]);
    }
    tame(&mut cfg, &cmds);
    let mut stream = Vec::new();
    let mut bounds = Vec::new();
    for f in cmd_frames(&cmds) {
        stream.extend(f);
        bounds.push(stream.len());
    }
    bounds.pop();
    let segs = segmentation(rng, &stream, &bounds);
    check_any(cx, &cfg, &cmds, &segs, "random");
}

/// every arm and every stub once outside MULTI, once queued inside MULTI … EXEC, in one segment and
/// one command per segment
fn any_corpus(cx: &mut Cx, variants: &[String]) {
    let d = Cfg::default_like();
    // command names without a non-white-space character (witness of the fixed defect 5f3bab5,
    // C04:crash:whitespace-command-name: must be answered like any unknown command now), their near misses, outside and inside MULTI
    for name in [&b""[..], b" ", b"\t", b"\r\n", b"  \x0b\x0c", b"\xc2\xa0", b"\xc2\x85", b"\xe3\x80\x80", b"\xe2\x80\x8a", b"\xe2\x80\x8b", b"\xe1\x9a\x80", b" a", b"\xff", b"\xe2\x80\xa8", b"\xe2\x81\x9f", b"\xe2\x80", b" \xc2"] {
        let cmds = vec![vec![b"PING".to_vec()], vec![name.to_vec()], vec![b"PING".to_vec()]];
        check_any(cx, &d, &cmds, &cmd_frames(&cmds), "corpus:ws-name");
        check_any(cx, &d, &cmds, &[cmd_frames(&cmds).concat()], "corpus:ws-name");
        let cmds = vec![vec![b"PING".to_vec()], vec![name.to_vec(), b"arg".to_vec()], vec![b"PING".to_vec()]];
        check_any(cx, &d, &cmds, &cmd_frames(&cmds), "corpus:ws-name-arg");
        let cmds = vec![vec![b"MULTI".to_vec()], vec![name.to_vec()], vec![b"EXEC".to_vec()], vec![b"PING".to_vec()]];
        check_any(cx, &d, &cmds, &cmd_frames(&cmds), "corpus:ws-name-in-multi");
    }
    let own = |f: &[&[u8]]| f.iter().map(|a| a.to_vec()).collect::<Vec<Vec<u8>>>();
    let mut singles: Vec<Vec<Vec<u8>>> = Vec::new();
    for v in variants {
        for f in arm_drivers(v).unwrap_or_default() {
            let up = String::from_utf8_lossy(f[0]).to_uppercase();
            if up != "MULTI" && up != "EXEC" && up != "DISCARD" {
                singles.push(own(&f));
            }
        }
    }
    for (_, f) in STUBS {
        singles.push(own(f));
    }
    // known commands with a sub-command form in check_acl_permission, unknown sub-commands of the stubs
    for f in [&[&b"DEBUG"[..], b"OBJECT", b"k"][..], &[b"DEBUG", b"SLEEP", b"0"], &[b"DEBUG", b"SET-ACTIVE-EXPIRE", b"1"], &[b"CLIENT", b"GETNAME"], &[b"CLIENT", b"ID"], &[b"CLIENT", b"INFO"],
        &[b"CLIENT", b"NOSUCHSUB"], &[b"CONFIG", b"GET", b"maxmemory"], &[b"CONFIG", b"SET", b"a", b"b"], &[b"CONFIG", b"RESETSTAT"]] {
        singles.push(own(f));
    }
    for chunk in singles.chunks(6) {
        let outside: Vec<Vec<Vec<u8>>> = chunk.to_vec();
        let mut inside: Vec<Vec<Vec<u8>>> = vec![vec![b"MULTI".to_vec()]];
        inside.extend(chunk.iter().cloned());
        inside.push(vec![b"MULTI".to_vec()]);
        inside.push(vec![b"EXEC".to_vec()]);
        inside.push(vec![b"EXEC".to_vec()]);
        inside.push(vec![b"DISCARD".to_vec()]);
        inside.push(vec![b"MULTI".to_vec()]);
        inside.push(vec![b"PING".to_vec()]);
        inside.push(vec![b"DISCARD".to_vec()]);
        for cmds in [outside, inside] {
            let frames = cmd_frames(&cmds);
            check_any(cx, &d, &cmds, &[frames.concat()], "corpus:arms");
            check_any(cx, &d, &cmds, &frames, "corpus:arms");
        }
    }
}

// ---------------------------------------------------------------- the write side (Model/ConnWrite.lean)

fn script_text(script: &[WEv]) -> String {
    if script.is_empty() {
        return "-".into();
    }
    script.iter().map(|e| match e { WEv::Accept(k) => format!("a{}", k), WEv::Fail => "f".into() }).collect::<Vec<_>>().join(",")
}

fn wop_line(cfg: &Cfg, segs: &[Vec<u8>], script: &[WEv], stop: Option<usize>) -> String {
    let s: Vec<String> = segs.iter().filter(|s| !s.is_empty()).map(|s| hex(s)).collect();
    format!("W {} {} {} {} {} {} {} {}", cfg.min_pipeline, cfg.batch_threshold, hl_token(), cfg.read_size, cfg.max_buffer, s.join(","), script_text(script),
        stop.map(|n| n.to_string()).unwrap_or("-".into()))
}

/// commands whose replies the byte-level reference executor (`ConnW.refExec`) predicts exactly:
/// GET / SET / PING / ECHO with the right arity, MULTI … EXEC / DISCARD properly nested
fn plain_command(rng: &mut Rng, in_tx: &mut bool) -> Vec<Vec<u8>> {
    let lower = rng.chance(1, 5);
    let nm = |s: &str| if lower { s.to_lowercase().into_bytes() } else { s.as_bytes().to_vec() };
    match rng.below(18) {
        0..=5 => vec![nm("GET"), rng.pick(&KEYS).to_vec()],
        6..=11 => vec![nm("SET"), rng.pick(&KEYS).to_vec(), value(rng)],
        12..=13 => vec![nm("PING")],
        14..=15 => vec![nm("ECHO"), value(rng)],
        16 if !*in_tx => {
            *in_tx = true;
            vec![nm("MULTI")]
        }
        17 if *in_tx => {
            *in_tx = false;
            vec![if rng.chance(1, 4) { nm("DISCARD") } else { nm("EXEC") }]
        }
        _ => vec![nm("GET"), rng.pick(&KEYS).to_vec()],
    }
}

fn no_fail(script: &[WEv]) -> bool {
    script.iter().all(|e| matches!(e, WEv::Accept(k) if *k > 0))
}

/// a peer: (script, class)
fn gen_script(rng: &mut Rng) -> (Vec<WEv>, &'static str) {
    match rng.below(10) {
        0 => (vec![], "accepts-everything"),
        1 => ((0..400).map(|_| WEv::Accept(1)).collect(), "one-byte-writes"),
        2 | 3 => ((0..rng.range(1, 120)).map(|_| WEv::Accept(*rng.pick(&[1usize, 1, 2, 3, 4, 5, 7, 13, 40, 1 << 20]))).collect(), "partial-writes"),
        4 => {
            let mut v: Vec<WEv> = (0..rng.below(12)).map(|_| WEv::Accept(*rng.pick(&[1usize, 2, 5, 9, 1 << 20]))).collect();
            v.push(WEv::Fail);
            (v, "fails-after-partial-writes")
        }
        5 => {
            let mut v: Vec<WEv> = (0..rng.below(8)).map(|_| WEv::Accept(*rng.pick(&[1usize, 3, 6, 1 << 20]))).collect();
            v.push(WEv::Accept(0));
            (v, "write-zero")
        }
        6 => (vec![WEv::Accept(1 << 20), WEv::Fail], "first-flush-fails"),
        7 => (vec![WEv::Accept(1 << 20), WEv::Accept(1), WEv::Accept(1 << 20), WEv::Fail], "second-flush-fails"),
        8 => (vec![WEv::Fail], "first-write-fails"),
        _ => {
            // whole writes for a while, then the peer goes away
            let mut v: Vec<WEv> = (0..2 * rng.below(4)).map(|_| WEv::Accept(1 << 20)).collect();
            v.push(WEv::Accept(*rng.pick(&[1usize, 2, 4])));
            v.push(WEv::Fail);
            (v, "fails-mid-pipeline")
        }
    }
}

/// THE WRITE SIDE.  Correspondence: the bytes the scripted peer received and the number of reads the
/// handler made, vs `ConnW.runW` with the byte-level reference executor.  Oracle (independent of the
/// model): what the peer received is a PREFIX of what a peer receives that sends every command
/// alone and accepts every write whole; ALL of it when the peer never refuses and no read fails.
fn check_write(cx: &mut Cx, cfg: &Cfg, cmds: &[Vec<Vec<u8>>], junk: Option<&[u8]>, segs: &[Vec<u8>], script: &[WEv], sclass: &str, stop: Option<usize>, pend: usize, src: &str) {
    let r = cx.runner.run_scripted(cfg, segs, script, stop, pend);
    let op = wop_line(cfg, segs, script, stop);
    let line = format!("w={} reads={}", hex(&r.written), r.reads);
    cx.out.op(op.clone(), line.clone());
    cx.out.count(&format!("write:{}:peer={}", src, sclass));
    cx.out.count(&format!("write:read-error={}", if stop.is_some() { "yes" } else { "no" }));
    cx.out.count(&format!("write:pending-polls={}", if pend > 0 { "yes" } else { "no" }));
    if junk.is_some() {
        cx.out.count("write:malformed-tail");
    }
    cx.out.case(&op, cmds.len() >= 2);
    let replay = |what: &str, twin: &str| json!({"op": op, "commands": cmds.iter().map(|c| c.iter().map(|a| String::from_utf8_lossy(a).to_string()).collect::<Vec<_>>()).collect::<Vec<_>>(),
        "segments": segs.iter().map(|s| hex(s)).collect::<Vec<_>>(), "peer_script": script_text(script), "peer_class": sclass, "read_fails_after": stop, "pending_every": pend,
        "received": hex(&r.written), "reads": r.reads, "expected": what, "alone_accepting_everything": twin, "source": src});
    match &r.end {
        End::Crash(m) => {
            cx.out.violation("C04:write:crash", &format!("the connection handler panicked with a peer that {}: {}", sclass, m), replay("no panic", ""));
            return;
        }
        End::Hang => {
            cx.out.violation("C04:write:hang", "the connection handler did not finish within 10 s", replay("the loop is left", ""));
            return;
        }
        End::Eof => {}
    }
    if junk.is_some() {
        return;
    }
    let mut frame_ends = Vec::new();
    let mut acc = 0usize;
    for c in cmds {
        acc += frame(&c.iter().map(|a| &a[..]).collect::<Vec<_>>()).len();
        frame_ends.push(acc);
    }
    if expected_overflow(&frame_ends, &reads_of(segs, cfg.read_size), cfg.max_buffer).is_some() {
        cx.out.count("write:overflow-on-the-way");
        return;
    }
    let twin_cfg = Cfg { min_pipeline: 1 << 40, batch_threshold: 1 << 20, read_size: 8192, max_buffer: 1_000_000 };
    let t = cx.runner.run(&twin_cfg, &cmd_frames(cmds));
    if !t.written.starts_with(&r.written) {
        cx.out.violation("C04:write:not-a-prefix-of-the-reply-stream", "the bytes the peer received are not a prefix of the replies the commands get when sent alone: a reply is missing in the middle, duplicated, reordered or damaged",
            replay("a prefix of the reply stream", &hex(&t.written)));
    } else if no_fail(script) && stop.is_none() && r.written != t.written {
        cx.out.violation("C04:write:reply-bytes-missing", "the peer accepted every byte offered (in partial writes) and no read failed, yet it did not receive the whole reply stream",
            replay("the whole reply stream", &hex(&t.written)));
    }
}

fn write_case(cx: &mut Cx, rng: &mut Rng) {
    let mut cfg = config(rng);
    if rng.chance(2, 3) {
        cfg.max_buffer = 1_000_000.max(cfg.read_size);
    }
    let depth = *rng.pick(&[1u64, 2, 3, 5, 8, 12]);
    let mut in_tx = false;
    let mut cmds = Vec::new();
    for _ in 0..depth {
        cmds.push(plain_command(rng, &mut in_tx));
    }
    if in_tx {
        cmds.push(vec![b"EXEC".to_vec()]);
    }
    tame(&mut cfg, &cmds);
    let mut stream = Vec::new();
    let mut bounds = Vec::new();
    for f in cmd_frames(&cmds) {
        stream.extend(f);
        bounds.push(stream.len());
    }
    bounds.pop();
    // sometimes a frame the RESP grammar rejects at the very end, in its own segment: `-ERR protocol error`
    let junk: Option<Vec<u8>> = if rng.chance(1, 8) { Some(rng.pick(&[&b"?what\r\n"[..], b"*x\r\n", b"$-2\r\n", b"*1\r\n:x\r\n"]).to_vec()) } else { None };
    let mut segs = segmentation(rng, &stream, &bounds);
    if let Some(j) = &junk {
        segs.push(j.clone());
    }
    let (script, sclass) = gen_script(rng);
    let nreads = reads_of(&segs, cfg.read_size).len();
    let stop = if rng.chance(1, 5) { Some(rng.below(nreads as u64 + 1) as usize) } else { None };
    let pend = if rng.chance(1, 4) { *rng.pick(&[1usize, 2, 3, 7]) } else { 0 };
    check_write(cx, &cfg, &cmds, junk.as_deref(), &segs, &script, sclass, stop, pend, "random");
}

/// fixed cases of the write side: every kind of peer on one pipeline, a read error at every read,
/// a failing peer at every byte position of the reply stream
fn write_corpus(cx: &mut Cx) {
    let d = Cfg::default_like();
    let cmds: Vec<Vec<Vec<u8>>> = vec![
        vec![b"SET".to_vec(), b"k".to_vec(), b"v".to_vec()], vec![b"GET".to_vec(), b"k".to_vec()], vec![b"PING".to_vec()],
        vec![b"MULTI".to_vec()], vec![b"ECHO".to_vec(), b"a\r\nb".to_vec()], vec![b"EXEC".to_vec()], vec![b"GET".to_vec(), b"missing".to_vec()],
    ];
    let frames = cmd_frames(&cmds);
    let stream: Vec<u8> = frames.concat();
    // the reply stream is 52 bytes: the peer takes k bytes and goes away, for every k
    for k in 0..=56usize {
        let script = if k == 0 { vec![WEv::Fail] } else { vec![WEv::Accept(k), WEv::Fail] };
        check_write(cx, &d, &cmds, None, &[stream.clone()], &script, "fails-at-every-byte", None, 0, "corpus");
    }
    for k in [1usize, 2, 3, 5, 11] {
        let script: Vec<WEv> = (0..80).map(|_| WEv::Accept(k)).collect();
        check_write(cx, &d, &cmds, None, &frames, &script, "partial-writes", None, 0, "corpus");
        check_write(cx, &d, &cmds, None, &[stream.clone()], &script, "partial-writes", None, k, "corpus");
    }
    for n in 0..=frames.len() {
        check_write(cx, &d, &cmds, None, &frames, &[], "accepts-everything", Some(n), 0, "corpus");
        check_write(cx, &d, &cmds, None, &frames, &[WEv::Accept(3), WEv::Accept(1 << 20), WEv::Accept(1)], "partial-writes", Some(n), 1, "corpus");
    }
    // flush failures at the first, second, third flush; Ok(0) in the middle of a reply
    for i in 0..3usize {
        let mut script: Vec<WEv> = (0..2 * i).map(|_| WEv::Accept(1 << 20)).collect();
        script.push(WEv::Accept(1 << 20));
        script.push(WEv::Fail);
        check_write(cx, &d, &cmds, None, &frames, &script, "flush-fails", None, 0, "corpus");
        let mut script: Vec<WEv> = (0..2 * i).map(|_| WEv::Accept(1 << 20)).collect();
        script.push(WEv::Accept(2));
        script.push(WEv::Accept(0));
        check_write(cx, &d, &cmds, None, &frames, &script, "write-zero", None, 0, "corpus");
    }
    // the overflow guard's `let _ = write_all(..)`: error reply written in pieces / not at all
    let small = Cfg { min_pipeline: 60, batch_threshold: 2, read_size: 16, max_buffer: 48 };
    let big: Vec<Vec<Vec<u8>>> = vec![vec![b"PING".to_vec()], vec![b"SET".to_vec(), b"k".to_vec(), vec![b'x'; 200]], vec![b"PING".to_vec()]];
    let bs: Vec<u8> = cmd_frames(&big).concat();
    for script in [vec![], vec![WEv::Accept(1 << 20), WEv::Accept(1), WEv::Accept(4), WEv::Accept(5)], vec![WEv::Accept(1 << 20), WEv::Accept(1), WEv::Fail], vec![WEv::Accept(1 << 20), WEv::Accept(1), WEv::Accept(3), WEv::Accept(0)]] {
        check_write(cx, &small, &big, None, &[bs.clone()], &script, "overflow-reply", None, 0, "corpus");
    }
}

/// one client connection of a pooled case: segments, failing write call
#[derive(Clone)]
struct Conn {
    segs: Vec<Vec<u8>>,
    fail: Option<usize>,
}

fn pooled_op(cfg: &Cfg, pool_size: usize, conns: &[Conn]) -> String {
    let cs: Vec<String> = conns
        .iter()
        .map(|c| {
            let segs: Vec<String> = c.segs.iter().filter(|s| !s.is_empty()).map(|s| hex(s)).collect();
            format!("{}/{}", if segs.is_empty() { "-".to_string() } else { segs.join(",") }, c.fail.map(|f| f.to_string()).unwrap_or("-".into()))
        })
        .collect();
    format!("P {} {} {} {} {} {} {}", cfg.min_pipeline, cfg.batch_threshold, hl_token(), cfg.read_size, cfg.max_buffer, pool_size, cs.join(";"))
}

/// a sequence of connections served one after the other by ONE server-wide buffer pool (each on a
/// fresh keyspace).  Correspondence: every connection's replies vs the model's pooled server.
/// Oracle: every connection receives exactly the bytes it receives when it is the only
/// connection the server ever had.
fn check_pooled(cx: &mut Cx, cfg: &Cfg, pool_size: usize, conns: &[Conn], src: &str) {
    let pool = Arc::new(ConnectionPool::new(64, pool_size));
    let mut lines = Vec::new();
    let mut bad: Option<(usize, String, String)> = None;
    for (i, c) in conns.iter().enumerate() {
        let r = cx.runner.run_pooled(cfg, &c.segs, c.fail, pool.clone());
        let (line, _) = line_of(&r);
        let solo = cx.runner.run_pooled(cfg, &c.segs, c.fail, Arc::new(ConnectionPool::new(64, pool_size)));
        if (r.written != solo.written || r.end != solo.end) && bad.is_none() {
            let (sl, _) = line_of(&solo);
            bad = Some((i, line.clone(), sl));
        }
        lines.push(line);
    }
    let op = pooled_op(cfg, pool_size, conns);
    cx.out.op(op.clone(), lines.join(" | "));
    cx.out.count(&format!("pooled:{}:pool={}:conns={}", src, pool_size, conns.len()));
    cx.out.case(&op, conns.len() >= 2);
    if let Some((i, got, solo)) = bad {
        cx.out.violation("C04:cross-connection:stale-buffer", &format!("connection {} of a server with a shared buffer pool is answered differently from the same connection on a server that never had another client: bytes left in a pooled buffer by an earlier connection leak into it", i),
            json!({"op": op, "connection": i, "observed": got, "expected_as_when_alone": solo, "all_connections": lines, "source": src}));
    }
}

fn pipeline_conn(cmds: &[Vec<&[u8]>], one_segment: bool) -> Conn {
    let frames: Vec<Vec<u8>> = cmds.iter().map(|c| frame(c)).collect();
    let segs = if one_segment { vec![frames.concat()] } else { frames };
    Conn { segs, fail: None }
}

/// the OTHER buffer pool of the tree (`redis::BufferPool`, resp_optimized.rs: the synchronous twin of
/// BufferPoolAsync, public API, not wired into the server): a released buffer comes back empty
fn sync_pool_probe(cx: &mut Cx) {
    use bytes::BufMut;
    for size in [1usize, 2, 3] {
        let pool = redis_sim::redis::BufferPool::new(size, 64);
        let mut held = Vec::new();
        for i in 0..size + 1 {
            let mut b = pool.acquire();
            if !b.is_empty() {
                cx.out.violation("C04:cross-connection:stale-buffer:sync-pool", "redis::BufferPool::acquire handed out a buffer that is not empty", json!({"pool_size": size, "acquire": i, "len": b.len()}));
            }
            b.put_slice(b"*2\r\n$3\r\nGET\r\n$5\r\nab");
            held.push(b);
        }
        for b in held {
            pool.release(b);
        }
        for i in 0..size + 2 {
            let b = pool.acquire();
            if !b.is_empty() {
                cx.out.violation("C04:cross-connection:stale-buffer:sync-pool", "redis::BufferPool hands out a released buffer with the previous owner's bytes still in it", json!({"pool_size": size, "acquire_after_release": i, "len": b.len()}));
            }
        }
        cx.out.count("pooled:sync-pool-probe");
    }
    let _ = redis_sim::redis::BufferPool::default().acquire();
}

fn pooled_corpus(cx: &mut Cx) {
    sync_pool_probe(cx);
    let d = Cfg::default_like();
    let victim = pipeline_conn(&[vec![b"SET", b"k", b"v"], vec![b"GET", b"k"], vec![b"PING"]], true);
    // an earlier client disconnects in the middle of a frame, at every cut position
    let f = frame(&[b"GET", b"abcde"]);
    for cut in 1..f.len() {
        for pool_size in [1usize, 2, 3, 16] {
            if pool_size != 1 && cut % 3 != 0 {
                continue;
            }
            let early = Conn { segs: vec![f[..cut].to_vec()], fail: None };
            check_pooled(cx, &d, pool_size, &[early, victim.clone(), victim.clone()], "corpus:mid-frame");
        }
    }
    // an earlier client stops reading: its replies stay in the write buffer
    let talk = pipeline_conn(&[vec![b"PING"], vec![b"ECHO", b"left-over"], vec![b"PING"]], false);
    for pool_size in [1usize, 2, 3, 4, 16] {
        for fail in [0usize, 1, 2] {
            let early = Conn { segs: talk.segs.clone(), fail: Some(fail) };
            check_pooled(cx, &d, pool_size, &[early, victim.clone(), victim.clone()], "corpus:write-error");
        }
    }
    // an earlier client overflows max_buffer_size: the error reply stays in the write buffer
    let small = Cfg { min_pipeline: 60, batch_threshold: 2, read_size: 16, max_buffer: 48 };
    let big = Conn { segs: vec![vec![b'x'; 20], vec![b'y'; 40]], fail: None };
    let pings = pipeline_conn(&[vec![b"PING"], vec![b"PING"]], false);
    for pool_size in [1usize, 2, 3, 16] {
        check_pooled(cx, &small, pool_size, &[big.clone(), pings.clone(), pings.clone()], "corpus:overflow");
    }
}

fn pooled_random(cx: &mut Cx, rng: &mut Rng) {
    let mut cfg = config(rng);
    cfg.max_buffer = 1_000_000;
    let pool_size = *rng.pick(&[1usize, 2, 2, 3, 4, 16]);
    let n = rng.range(2, 5) as usize;
    let mut conns = Vec::new();
    for _ in 0..n {
        let (pcmds, stream, bounds) = gen_pipeline(rng);
        tame(&mut cfg, &pcmds);
        let mut segs = segmentation(rng, &stream, &bounds);
        let mut fail = None;
        match rng.below(5) {
            0 => {
                // disconnect mid-stream: keep a random prefix of the bytes
                let total: usize = segs.iter().map(|s| s.len()).sum();
                let keep = rng.below(total as u64 + 1) as usize;
                let mut left = keep;
                let mut cutsegs = Vec::new();
                for sgm in segs {
                    if left == 0 {
                        break;
                    }
                    let k = sgm.len().min(left);
                    cutsegs.push(sgm[..k].to_vec());
                    left -= k;
                }
                segs = cutsegs;
            }
            1 => fail = Some(rng.below(3) as usize),
            _ => {}
        }
        conns.push(Conn { segs, fail });
    }
    check_pooled(cx, &cfg, pool_size, &conns, "random");
}

/// max_size == read_size (the extreme PerformanceConfig::validate accepts) and neighbours: a 182-byte
/// pipeline cut in two at several positions never overflows a buffer limit of 8192 / 182 bytes; a
/// frame larger than max_size does, after the replies to the commands before it
fn overflow_corpus(cx: &mut Cx) {
    let cmds: Vec<Vec<Vec<u8>>> = vec![
        vec![b"SET".to_vec(), b"key:2".to_vec(), vec![b'v'; 25]], vec![b"GET".to_vec(), b"key:2".to_vec()], vec![b"PING".to_vec()],
        vec![b"ECHO".to_vec(), vec![b'e'; 33]], vec![b"GET".to_vec(), b"k".to_vec()], vec![b"PING".to_vec()],
    ];
    let stream: Vec<u8> = cmd_frames(&cmds).concat();
    debug_assert_eq!(stream.len(), 182);
    for (read, max) in [(8192usize, 8192usize), (8192, 8193), (182, 182), (64, 182), (16, 182), (64, 64), (64, 65), (16, 16)] {
        let cfg = Cfg { min_pipeline: 60, batch_threshold: 2, read_size: read, max_buffer: max };
        for c in [1usize, 2, 13, 20, 66, 91, 120, 150, 180, 181] {
            check_wellformed(cx, &cfg, &cmds, &cut(&stream, &[c]), "corpus:overflow-guard");
        }
        check_wellformed(cx, &cfg, &cmds, &[stream.clone()], "corpus:overflow-guard");
    }
    // a frame that really is larger than max_size
    let big: Vec<Vec<Vec<u8>>> = vec![vec![b"PING".to_vec()], vec![b"SET".to_vec(), b"k".to_vec(), vec![b'x'; 200]], vec![b"PING".to_vec()]];
    let bs: Vec<u8> = cmd_frames(&big).concat();
    for (read, max) in [(16usize, 48usize), (64, 64), (64, 128), (8192, 8192)] {
        let cfg = Cfg { min_pipeline: 60, batch_threshold: 2, read_size: read, max_buffer: max };
        check_wellformed(cx, &cfg, &big, &[bs.clone()], "corpus:oversize-frame");
        check_wellformed(cx, &cfg, &big, &cut(&bs, &[14, 40]), "corpus:oversize-frame");
    }
}

/// VERY DEEP pipelines delivered in ONE read (read_size above the stream length), in reads of 8192,
/// and one command per segment: every internal bound on commands per read / per flush is crossed
fn deep_corpus(cx: &mut Cx) {
    for depth in [64usize, 127, 128, 129, 130, 200, 256, 257, 300, 512, 1000, 1025, 2049] {
        for mode in 0..3 {
            let cmds: Vec<Vec<Vec<u8>>> = (0..depth).map(|i| match mode {
                0 => vec![b"PING".to_vec()],
                1 => if i % 2 == 0 { vec![b"SET".to_vec(), KEYS[i % 3].to_vec(), format!("v{}", i).into_bytes()] } else { vec![b"GET".to_vec(), KEYS[(i / 2) % 3].to_vec()] },
                _ => vec![b"GET".to_vec(), KEYS[i % 3].to_vec()],
            }).collect();
            if mode > 0 && depth > 300 {
                continue;
            }
            let frames = cmd_frames(&cmds);
            let stream: Vec<u8> = frames.concat();
            let one_read = Cfg { min_pipeline: 60, batch_threshold: 2, read_size: 1 << 20, max_buffer: 1 << 24 };
            check_wellformed(cx, &one_read, &cmds, &[stream.clone()], "corpus:deep:one-read");
            if depth <= 300 || (mode == 0 && depth <= 1025) {
                check_wellformed(cx, &Cfg::default_like(), &cmds, &[stream.clone()], "corpus:deep:reads-of-8192");
            }
            if depth <= 257 && mode < 2 {
                let no_batch = Cfg { min_pipeline: 1 << 40, batch_threshold: 6, read_size: 1 << 20, max_buffer: 1 << 24 };
                check_wellformed(cx, &no_batch, &cmds, &[stream.clone()], "corpus:deep:gate-closed");
            }
        }
    }
}

// ---------------------------------------------------------------- the mirror (simulator/connection.rs)

/// `SimulatedConnection` — the hand-written mirror of the read loop that the repository's own
/// connection tests run.  Only valid commands can be fed to it (its input is `Command`s, which it
/// encodes itself).  Correspondence: its responses vs `ConnSim.simRun` + the reference executor.
/// Oracle: the same commands through the PRODUCTION handler (hook H1) get the same replies.
fn mirror_case(cx: &mut Cx, cmds: &[Vec<Vec<u8>>], seed: u64, partial: f64, per_read: usize, src: &str) {
    use redis_sim::redis::{Command, SDS};
    use redis_sim::simulator::connection::SimulatedConnection;
    let to_cmd = |c: &Vec<Vec<u8>>| -> Command {
        let s = |b: &Vec<u8>| String::from_utf8_lossy(b).to_string();
        match (String::from_utf8_lossy(&c[0]).to_uppercase().as_str(), c.len()) {
            ("GET", 2) => Command::Get(s(&c[1])),
            ("SET", 3) => Command::set(s(&c[1]), SDS::new(c[2].clone())),
            _ => Command::Ping(None),
        }
    };
    let mut sim = SimulatedConnection::new(seed);
    if partial > 0.0 {
        sim = sim.with_partial_reads(partial);
    }
    sim.send_pipeline(cmds.iter().map(to_cmd).collect());
    let res = catch_unwind(AssertUnwindSafe(move || {
        let r = if per_read > 0 { sim.process_with_partial_arrivals(per_read) } else { sim.process() };
        (r, sim.commands_executed(), sim.flush_count())
    }));
    let stream: Vec<u8> = cmd_frames(cmds).concat();
    let op = format!("S {}", hex(&stream));
    let (line, vals, executed) = match &res {
        Ok((rs, n, _)) => {
            let vals: Vec<V> = rs.iter().map(V::from_rv).collect();
            let texts: Vec<String> = vals.iter().map(reply_text).collect();
            (format!("n={} [{}] end=eof", vals.len(), texts.join(" ; ")), vals, *n)
        }
        Err(_) => ("n=0 [] end=crash".to_string(), vec![], 0),
    };
    cx.out.op(op.clone(), line.clone());
    cx.out.case(&format!("{}|{}|{}|{}", op, seed, partial, per_read), cmds.len() >= 2);
    cx.out.count(&format!("mirror:{}:partial={}:per-read={}", src, partial, per_read.min(3)));
    let shown: Vec<Vec<String>> = cmds.iter().map(|c| c.iter().map(|a| String::from_utf8_lossy(a).to_string()).collect()).collect();
    let twin_cfg = Cfg { min_pipeline: 1 << 40, batch_threshold: 1 << 20, read_size: 8192, max_buffer: 1_000_000 };
    let t = cx.runner.run(&twin_cfg, &cmd_frames(cmds));
    let (tvals, _) = decode_replies(&t.written);
    if res.is_err() || vals.len() != cmds.len() || executed != cmds.len() || vals != tvals {
        cx.out.violation("C04:mirror:differs-from-production", "SimulatedConnection (the mirror the repository's connection tests run) answers a well-formed pipeline of GET / SET / PING differently from the production handler, or not once per command",
            json!({"commands": shown, "mirror": line, "commands_executed": executed, "production": tvals.iter().map(|v| v.show()).collect::<Vec<_>>(), "seed": seed, "partial_read_probability": partial, "commands_per_arrival": per_read, "source": src}));
    }
}

fn mirror_cases(cx: &mut Cx, rng: &mut Rng, n: usize) {
    let keys: [&[u8]; 3] = [b"k", b"key:2", b"a-longer-key-name-0123456789"];
    for i in 0..n {
        let depth = *rng.pick(&[1u64, 2, 3, 5, 8, 16, 64]);
        let cmds: Vec<Vec<Vec<u8>>> = (0..depth).map(|_| match rng.below(5) {
            0 | 1 => vec![b"GET".to_vec(), rng.pick(&keys).to_vec()],
            2 | 3 => vec![b"SET".to_vec(), rng.pick(&keys).to_vec(), value(rng).into_iter().take(64).collect()],
            _ => vec![b"PING".to_vec()],
        }).collect();
        let partial = *rng.pick(&[0.0f64, 0.3, 0.9, 1.0]);
        let per_read = *rng.pick(&[0usize, 0, 1, 2, 3]);
        mirror_case(cx, &cmds, i as u64 + 1, partial, per_read, "random");
    }
}

// ---------------------------------------------------------------- the real server over loopback TCP

struct TcpCfg {
    toml: String,
    /// None = PerformanceConfig::validate must reject it (the server must refuse to start)
    expect: Option<Cfg>,
    label: &'static str,
}

fn toml_of(shards: usize, cap: usize, prewarm: usize, read: usize, max: usize, minp: usize, thr: usize, conns: usize, pool: usize) -> String {
    format!("num_shards = {}\n[response_pool]\ncapacity = {}\nprewarm = {}\n[buffers]\nread_size = {}\nmax_size = {}\n[batching]\nmin_pipeline_buffer = {}\nbatch_threshold = {}\n[connection_pool]\nmax_connections = {}\nbuffer_pool_size = {}\n",
        shards, cap, prewarm, read, max, minp, thr, conns, pool)
}

/// `OptimizedRedisServer::new(addr).run()` — the accept loop, the configuration path
/// (PERF_CONFIG_PATH → from_env → from_file → validate → ConnectionConfig::from_perf_config, the
/// server-wide ConnectionPool, ShardedActorState::with_perf_config) — over loopback TCP.  The kernel
/// decides how the bytes are cut into reads; for well-formed pipelines that cannot matter
/// (`segmentation_independent`), so the oracle needs no knowledge of it: every connection must be
/// answered as by the in-process handler on a roomy configuration, also a client that sends a deep
/// pipeline in one write and WAITS for all replies without closing.
fn tcp_end_to_end(cx: &mut Cx) {
    use tokio::io::{AsyncReadExt, AsyncWriteExt};
    // the two sources of defaults agree: ConnectionConfig::default() and the PerformanceConfig defaults
    {
        let a = ConnectionConfig::default();
        let pc = redis_sim::production::PerformanceConfig::default();
        let b = ConnectionConfig::from_perf_config(&pc.buffers, &pc.batching);
        let fa = (a.max_buffer_size, a.read_buffer_size, a.min_pipeline_buffer, a.batch_threshold);
        let fb = (b.max_buffer_size, b.read_buffer_size, b.min_pipeline_buffer, b.batch_threshold);
        cx.out.count("config:defaults-compared");
        if fa != fb || pc.validate().is_err() {
            cx.out.violation("C04:config:defaults-differ", "ConnectionConfig::default() and the connection configuration derived from PerformanceConfig::default() differ (or the default PerformanceConfig does not validate)", json!({"ConnectionConfig::default (max, read, min_pipeline, threshold)": format!("{:?}", fa), "from PerformanceConfig::default": format!("{:?}", fb)}));
        }
    }
    let dir = cx.out.dir.clone();
    let cases = vec![
        TcpCfg { toml: toml_of(2, 4, 1, 16, 64, 0, 1, 2, 1), expect: Some(Cfg { min_pipeline: 0, batch_threshold: 1, read_size: 16, max_buffer: 64 }), label: "small-buffers" },
        TcpCfg { toml: toml_of(1, 1, 0, 8192, 8192, 60, 2, 1, 1), expect: Some(Cfg { min_pipeline: 60, batch_threshold: 2, read_size: 8192, max_buffer: 8192 }), label: "max-equals-read" },
        TcpCfg { toml: "this is = not [ toml".into(), expect: Some(Cfg { min_pipeline: 60, batch_threshold: 2, read_size: 8192, max_buffer: 512 * 1024 * 1024 }), label: "unparsable-file-means-defaults" },
        TcpCfg { toml: "".into(), expect: Some(Cfg { min_pipeline: 60, batch_threshold: 2, read_size: 8192, max_buffer: 512 * 1024 * 1024 }), label: "empty-file-means-defaults" },
        TcpCfg { toml: "<no file>".into(), expect: Some(Cfg { min_pipeline: 60, batch_threshold: 2, read_size: 8192, max_buffer: 512 * 1024 * 1024 }), label: "missing-file-means-defaults" },
        TcpCfg { toml: "<directory>".into(), expect: Some(Cfg { min_pipeline: 60, batch_threshold: 2, read_size: 8192, max_buffer: 512 * 1024 * 1024 }), label: "unreadable-path-means-defaults" },
        TcpCfg { toml: toml_of(3, 4, 1, 16, 64, 0, 1, 2, 1), expect: None, label: "invalid:shards-not-power-of-two" },
        TcpCfg { toml: toml_of(0, 4, 1, 16, 64, 0, 1, 2, 1), expect: None, label: "invalid:shards-zero" },
        TcpCfg { toml: toml_of(512, 4, 1, 16, 64, 0, 1, 2, 1), expect: None, label: "invalid:shards-above-256" },
        TcpCfg { toml: toml_of(2, 0, 0, 16, 64, 0, 1, 2, 1), expect: None, label: "invalid:response-pool-capacity-zero" },
        TcpCfg { toml: toml_of(2, 4, 5, 16, 64, 0, 1, 2, 1), expect: None, label: "invalid:prewarm-above-capacity" },
        TcpCfg { toml: toml_of(2, 4, 1, 0, 64, 0, 1, 2, 1), expect: None, label: "invalid:read-size-zero" },
        TcpCfg { toml: toml_of(2, 4, 1, 16, 15, 0, 1, 2, 1), expect: None, label: "invalid:max-below-read" },
        TcpCfg { toml: toml_of(2, 4, 1, 16, 64, 0, 1, 0, 1), expect: None, label: "invalid:max-connections-zero" },
        TcpCfg { toml: toml_of(2, 4, 1, 16, 64, 0, 1, 2, 0), expect: None, label: "invalid:buffer-pool-size-zero" },
    ];
    let victim: Vec<Vec<Vec<u8>>> = vec![vec![b"SET".to_vec(), b"k".to_vec(), b"v".to_vec()], vec![b"GET".to_vec(), b"k".to_vec()], vec![b"PING".to_vec()], vec![b"ECHO".to_vec(), b"a\r\nb".to_vec()]];
    let deep: Vec<Vec<Vec<u8>>> = (0..300).map(|i| if i % 3 == 0 { vec![b"PING".to_vec()] } else if i % 3 == 1 { vec![b"SET".to_vec(), b"k".to_vec(), format!("{}", i).into_bytes()] } else { vec![b"GET".to_vec(), b"k".to_vec()] }).collect();
    let twin_cfg = Cfg { min_pipeline: 1 << 40, batch_threshold: 1 << 20, read_size: 8192, max_buffer: 1_000_000 };
    for (ci, case) in cases.iter().enumerate() {
        let _ = ci;
        let path = dir.join(format!("perf_config_{}.toml", case.label.replace(':', "_")));
        // (the out directory survives between runs: start from nothing at this path)
        let _ = std::fs::remove_dir_all(&path);
        let _ = std::fs::remove_file(&path);
        if case.toml == "<directory>" {
            std::fs::create_dir_all(&path).expect("mkdir");
        } else if case.toml != "<no file>" {
            std::fs::write(&path, &case.toml).expect("write toml");
        }
        std::env::set_var("PERF_CONFIG_PATH", &path);
        cx.out.count(&format!("tcp:config:{}", case.label));
        let rt = tokio::runtime::Builder::new_multi_thread().worker_threads(2).enable_all().build().expect("runtime");
        let mut started: Option<u16> = None;
        let mut refused: Option<String> = None;
        for _attempt in 0..20 {
            // a port that is FREE right now (asked from the kernel), so that no other process — e.g. the same
            // harness run by another builder — can be mistaken for our server
            let port = match std::net::TcpListener::bind("127.0.0.1:0").and_then(|l| l.local_addr()) {
                Ok(a) => a.port(),
                Err(_) => continue,
            };
            let addr = format!("127.0.0.1:{}", port);
            let a2 = addr.clone();
            let h = rt.spawn(async move { redis_sim::production::OptimizedRedisServer::new(a2).run().await.map_err(|e| e.to_string()) });
            // either the server comes up (connect succeeds and run() is still running) or run() returns an error
            let up = rt.block_on(async {
                for _ in 0..1000 {
                    tokio::time::sleep(std::time::Duration::from_millis(10)).await;
                    if h.is_finished() {
                        return false;
                    }
                    if tokio::net::TcpStream::connect(&addr).await.is_ok() {
                        tokio::time::sleep(std::time::Duration::from_millis(50)).await;
                        return !h.is_finished();
                    }
                }
                false
            });
            if up {
                started = Some(port);
                break;
            }
            let msg = rt.block_on(async { match tokio::time::timeout(std::time::Duration::from_secs(2), h).await { Ok(Ok(Err(e))) => e, Ok(Ok(Ok(()))) => "run returned Ok".into(), Ok(Err(e)) => format!("task: {}", e), Err(_) => "no answer".into() } });
            if msg.to_lowercase().contains("address") || msg.contains("in use") {
                continue; // the port was taken in between: next one
            }
            refused = Some(msg);
            break;
        }
        let replay = |what: &str, obs: &str| json!({"perf_config_toml": case.toml, "case": case.label, "observed": obs, "expected": what});
        match (&case.expect, started, &refused) {
            (None, Some(_), _) => {
                cx.out.violation(&format!("C04:config:invalid-accepted:{}", case.label), "the server starts with a configuration PerformanceConfig::validate must reject", replay("run() returns an error", "the server accepts connections"));
                rt.shutdown_background();
                continue;
            }
            (None, None, Some(_)) => {
                cx.out.count("tcp:invalid-config-refused");
                rt.shutdown_background();
                continue;
            }
            (Some(_), None, r) => {
                cx.out.violation(&format!("C04:tcp:server-did-not-start:{}", case.label), "the server did not come up with a legal configuration", replay("the server accepts connections", &format!("{:?}", r)));
                rt.shutdown_background();
                continue;
            }
            (None, None, None) => {
                cx.out.violation(&format!("C04:tcp:server-did-not-start:{}", case.label), "no port could be bound and no error was returned", replay("an error from validate", "nothing"));
                rt.shutdown_background();
                continue;
            }
            (Some(_), Some(_), _) => {}
        }
        let cfg = case.expect.clone().unwrap();
        let addr = format!("127.0.0.1:{}", started.unwrap());
        // connections one after the other over the server-wide pool: a client that leaves mid-frame,
        // a pipeline in pieces, the same in one write, a deep pipeline in ONE write with the client WAITING
        let mid = frame(&[b"GET", b"abcde"]);
        let plans: Vec<(&str, Vec<Vec<Vec<u8>>>, Vec<Vec<u8>>, bool)> = vec![
            ("leaves-mid-frame", vec![], vec![mid[..mid.len() - 4].to_vec()], false),
            ("pipeline-in-pieces", victim.clone(), cmd_frames(&victim), true),
            ("pipeline-one-write", victim.clone(), vec![cmd_frames(&victim).concat()], true),
            ("deep-one-write-client-waits", deep.clone(), vec![cmd_frames(&deep).concat()], true),
            ("pipeline-byte-by-byte", victim.clone(), cmd_frames(&victim).concat().iter().map(|b| vec![*b]).collect(), true),
        ];
        for (pname, cmds, writes, check) in plans {
            let total: usize = writes.iter().map(|w| w.len()).sum();
            if cfg.max_buffer < 1000 && pname.starts_with("deep") && cfg.read_size > cfg.max_buffer {
                continue;
            }
            let expect_n = cmds.len();
            let a = addr.clone();
            let w2 = writes.clone();
            let got: Result<Vec<u8>, String> = rt.block_on(async move {
                let mut st = tokio::net::TcpStream::connect(&a).await.map_err(|e| e.to_string())?;
                let _ = st.set_nodelay(true);
                let mut acc: Vec<u8> = Vec::new();
                for w in &w2 {
                    st.write_all(w).await.map_err(|e| e.to_string())?;
                    tokio::task::yield_now().await;
                }
                // the client WAITS (does not close) until it has all replies, at most 20 s
                let mut buf = vec![0u8; 65536];
                let deadline = tokio::time::Instant::now() + std::time::Duration::from_secs(20);
                while decode_replies(&acc).0.len() < expect_n {
                    match tokio::time::timeout_at(deadline, st.read(&mut buf)).await {
                        Ok(Ok(0)) => break,
                        Ok(Ok(n)) => acc.extend_from_slice(&buf[..n]),
                        Ok(Err(e)) => return Err(e.to_string()),
                        Err(_) => break,
                    }
                }
                drop(st);
                Ok(acc)
            });
            cx.out.count(&format!("tcp:connection:{}", pname));
            if !check {
                // give the server a moment to release the buffers of the connection that left
                rt.block_on(async { tokio::time::sleep(std::time::Duration::from_millis(20)).await });
                continue;
            }
            let acc = match got {
                Ok(a) => a,
                Err(e) => {
                    cx.out.violation(&format!("C04:tcp:io-error:{}", pname), "the TCP connection to the real server failed", json!({"case": case.label, "connection": pname, "error": e}));
                    continue;
                }
            };
            let (vals, rest) = decode_replies(&acc);
            let op = format!("K {} {} {} {} {} {}", cfg.min_pipeline, cfg.batch_threshold, hl_token(), cfg.read_size, cfg.max_buffer.min(1 << 40), hex(&writes.concat()));
            cx.out.op(op.clone(), format!("n={} end=eof{}", vals.len(), if rest > 0 { format!(" undecoded={}", rest) } else { String::new() }));
            cx.out.case(&op, true);
            let t = cx.runner.run(&twin_cfg, &cmd_frames(&cmds));
            let (tvals, _) = decode_replies(&t.written);
            let rp = json!({"perf_config_toml": case.toml, "case": case.label, "connection": pname, "bytes_sent": total, "commands": expect_n, "replies": vals.len(), "first_replies": vals.iter().take(6).map(|v| v.show()).collect::<Vec<_>>(), "expected_first": tvals.iter().take(6).map(|v| v.show()).collect::<Vec<_>>()});
            if vals.len() < expect_n {
                cx.out.violation("C04:tcp:reply-withheld", "a client that sent a well-formed pipeline over TCP and waits for its replies (without closing) did not receive one reply per command within 20 s", rp);
            } else if vals != tvals || rest != 0 {
                cx.out.violation("C04:tcp:reply-differs-from-in-process", "over TCP (accept loop, configuration from PERF_CONFIG_PATH, server-wide buffer pool) a pipeline is answered differently from the in-process handler", rp);
            }
        }
        rt.shutdown_background();
    }
    std::env::remove_var("PERF_CONFIG_PATH");
}

/// correspondence only: the real handler vs the model on the same configuration and segments
fn corr_only(cx: &mut Cx, cfg: &Cfg, segs: &[Vec<u8>], label: &str) {
    let r = cx.runner.run(cfg, segs);
    let (line, _) = line_of(&r);
    cx.out.op(op_line(cfg, segs), line);
    cx.out.count(label);
    cx.out.case(&op_line(cfg, segs), true);
}

/// comparisons of the modelled code at equality, computed from the case (class 3), and the
/// recognisers' overflow branches (class 5)
fn boundary_corpus(cx: &mut Cx) {
    let ping = frame(&[b"PING"]);
    // (1) `count >= batch_threshold` with k look-alikes, threshold k-1 / k / k+1, and the gate
    //     `buffer.len() >= min_pipeline_buffer` at len-1 / len / len+1
    for set in [false, true] {
        for k in 1..=4usize {
            let mut stream = Vec::new();
            for i in 0..k {
                if set {
                    stream.extend_from_slice(format!("*3\r\n$3\r\nSET\r\nX$1\r\n{}\r\n$2\r\nv{}\r\n", i, i).as_bytes());
                } else {
                    stream.extend_from_slice(format!("*2\r\n$3\r\nGET\r\nX$1\r\n{}\r\n", i).as_bytes());
                }
            }
            stream.extend_from_slice(&ping);
            stream.extend_from_slice(&ping);
            let n = stream.len();
            for thr in [k.saturating_sub(1), k, k + 1] {
                for mp in [0usize, n - 1, n, n + 1] {
                    let cfg = Cfg { min_pipeline: mp, batch_threshold: thr, read_size: 8192, max_buffer: 1_000_000 };
                    corr_only(cx, &cfg, &[stream.clone()], "boundary:lookalikes-vs-threshold-and-gate");
                }
            }
            // GET look-alikes followed by SET look-alikes: the second gate `buffer.len() >= min_pipeline` after the GETs
            if !set {
                let mut both = stream[..n - 2 * ping.len()].to_vec();
                let after_gets = both.len();
                both.extend_from_slice(b"*3\r\n$3\r\nSET\r\nX$1\r\nk\r\n$1\r\nv\r\n");
                both.extend_from_slice(&ping);
                let rem = both.len() - after_gets;
                for mp in [rem - 1, rem, rem + 1] {
                    let cfg = Cfg { min_pipeline: mp, batch_threshold: 1, read_size: 8192, max_buffer: 1_000_000 };
                    corr_only(cx, &cfg, &[both.clone()], "boundary:second-gate-after-gets");
                }
            }
        }
    }
    // (2) the gate on well-formed pipelines: min_pipeline_buffer = stream length - 1 / = / + 1
    let cmds: Vec<Vec<Vec<u8>>> = vec![vec![b"GET".to_vec(), b"k".to_vec()], vec![b"SET".to_vec(), b"k".to_vec(), b"v".to_vec()], vec![b"GET".to_vec(), b"k".to_vec()]];
    let stream: Vec<u8> = cmd_frames(&cmds).concat();
    for mp in [stream.len() - 1, stream.len(), stream.len() + 1] {
        for thr in [0usize, 1, 2, 3] {
            let cfg = Cfg { min_pipeline: mp, batch_threshold: thr, read_size: 8192, max_buffer: 1_000_000 };
            check_wellformed(cx, &cfg, &cmds, &[stream.clone()], "boundary:gate-at-stream-length");
        }
    }
    // (3) `buf.len() < 12` / `< HEADER_LEN + 1` / `< total_needed` / `<= val_len_start`: every
    //     look-alike of the corpus cut at EVERY byte
    for bad in [&b"*2\r\n$3\r\nGET\r\nX$1\r\nk\r\n"[..], b"*3\r\n$3\r\nSET\r\nX$1\r\nk\r\n$1\r\nv\r\n", b"*2\r\n$3\r\nget\r\n\r$02\r\nkk\r\n", b"*3\r\n$3\r\nset\r\nX$0\r\n\r\n$0\r\n\r\n"] {
        for c in 1..bad.len() {
            for mp in [0usize, 60] {
                let cfg = Cfg { min_pipeline: mp, batch_threshold: 1, read_size: 8192, max_buffer: 1_000_000 };
                corr_only(cx, &cfg, &cut(bad, &[c]), "boundary:lookalike-cut-at-every-byte");
            }
        }
    }
    // (4) the recognisers' checked_add branches: a declared length at which key_start + key_len, key_end + 2,
    //     val_start + val_len (+ 2) leave usize — on the fast path and in the collectors (gate open at 0)
    let max = usize::MAX;
    let mut frames: Vec<(Vec<u8>, &'static str)> = Vec::new();
    for len in [max, max - 1, max - 36, max - 37, max - 38, max - 39, max - 40, 1usize << 63, (1usize << 63) - 1] {
        frames.push((format!("*2\r\n$3\r\nGET\r\nX${}\r\nab", len).into_bytes(), "huge-key-length"));
        frames.push((format!("*3\r\n$3\r\nSET\r\nX${}\r\nab", len).into_bytes(), "huge-key-length"));
        frames.push((format!("*3\r\n$3\r\nSET\r\nX$1\r\nk\r\n${}\r\nab", len).into_bytes(), "huge-value-length"));
        frames.push((format!("*3\r\n$3\r\nSET\r\nX$1\r\nk\r\n${}\r\nab", len.wrapping_sub(28)).into_bytes(), "huge-value-length"));
    }
    for (bad, hint) in &frames {
        for mp in [0usize, 60] {
            let cfg = Cfg { min_pipeline: mp, batch_threshold: 1, read_size: 8192, max_buffer: 1_000_000 };
            check_malformed(cx, &cfg, &[], bad, hint, &[], &[bad.clone()], "boundary:length-overflow");
            let mut s = ping.clone();
            s.extend_from_slice(bad);
            check_malformed(cx, &cfg, &[vec![b"PING".to_vec()]], bad, hint, &[], &[ping.clone(), bad.clone()], "boundary:length-overflow");
        }
    }
    // (5) after a protocol error the handler clears its buffer and goes on reading: commands in LATER
    //     reads are answered, commands behind the malformed frame in the SAME read are swallowed
    for bad in [&b"?what\r\n"[..], b"*x\r\n", b"$-2\r\n", b"*1\r\n:x\r\n", b"*2\r\n$3\r\nGET\r\n$x\r\nk\r\n"] {
        let set = frame(&[b"SET", b"k", b"v"]);
        let get = frame(&[b"GET", b"k"]);
        let d = Cfg::default_like();
        corr_only(cx, &d, &[ping.clone(), bad.to_vec(), set.clone(), get.clone()], "history:after-protocol-error:later-reads");
        corr_only(cx, &d, &[[&ping[..], bad, &set[..]].concat(), get.clone()], "history:after-protocol-error:same-read-swallowed");
        corr_only(cx, &d, &[[&ping[..], bad].concat(), [bad, &set[..]].concat(), [&get[..], bad, &get[..]].concat(), get.clone()], "history:after-protocol-error:repeated");
        let small = Cfg { min_pipeline: 0, batch_threshold: 1, read_size: 7, max_buffer: 1_000_000 };
        corr_only(cx, &small, &[ping.clone(), bad.to_vec(), set.clone(), get.clone()], "history:after-protocol-error:reads-of-7");
    }
}

/// frames that are well-formed at the offsets where a recogniser with the RIGHT header length (13)
/// looks, or one byte away from it: the places where a recogniser and the generic decoder can disagree
/// (sign / leading zeros of a length, a CR that is not followed by LF, the unchecked trailer of a bulk
/// string, lengths at the i64 / usize limits, keys that are not UTF-8).  The code as it is sends all of
/// them down the generic path (HEADER_LEN = 14: the recognisers never see a `$` there); a repaired
/// recogniser must agree with the decoder on every one of them (Lean: repaired_recognisers_sound,
/// repaired_transparent).  Judged by the model (correspondence) and, for the key cases, by the
/// well-formed oracle.
fn recogniser_corpus(cx: &mut Cx) {
    let ping = frame(&[b"PING"]);
    let cfgs = [
        Cfg::default_like(),
        Cfg { min_pipeline: 0, batch_threshold: 1, read_size: 8192, max_buffer: 1_000_000 },
        Cfg { min_pipeline: 0, batch_threshold: 3, read_size: 8192, max_buffer: 1_000_000 },
        Cfg { min_pipeline: 1 << 40, batch_threshold: 2, read_size: 8192, max_buffer: 1_000_000 },
    ];
    let mut frames: Vec<Vec<u8>> = vec![
        b"*2\r\n$3\r\nGET\r\n$1\rXk\r\n".to_vec(),                 // CR not followed by LF in the key length line
        b"*2\r\n$3\r\nget\r\n$1\r\rk\r\n".to_vec(),
        b"*2\r\n$3\r\nGET\r\n$1\r".to_vec(),                      // … and the CR is the last byte
        b"*2\r\n$3\r\nGET\r\n$1\r\nkXY".to_vec(),                  // the trailer of a bulk string is never looked at
        b"*2\r\n$3\r\nGET\r\n$1\r\nk\r".to_vec(),
        b"*2\r\n$3\r\nGET\r\n$+1\r\nk\r\n".to_vec(),               // sign, leading zeros
        b"*2\r\n$3\r\nGET\r\n$01\r\nk\r\n".to_vec(),
        b"*2\r\n$3\r\nGET\r\n$-0\r\n\r\n".to_vec(),
        b"*2\r\n$3\r\nGET\r\n$0\r\n\r\n".to_vec(),
        b"*2\r\n$3\r\nGET\r\n$ 1\r\nk\r\n".to_vec(),
        b"*2\r\n$3\r\nGET\r\n$\r\nk\r\n".to_vec(),
        b"*2\r\n$3\r\nGET\r\n$-1\r\n".to_vec(),                   // null bulk as a key
        b"*2\r\n$3\r\nGET\r\n:1\r\n".to_vec(),
        b"*2\r\n$3\r\nGET\r\n".to_vec(),                          // the bare header
        b"*2\r\n$3\r\nGET\r\n$".to_vec(),
        b"*3\r\n$3\r\nSET\r\n$1\rXk\r\n$1\r\nv\r\n".to_vec(),
        b"*3\r\n$3\r\nSET\r\n$1\r\nk\r\n$1\rXv\r\n".to_vec(),
        b"*3\r\n$3\r\nset\r\n$1\r\nk\r\n$1\r".to_vec(),
        b"*3\r\n$3\r\nSET\r\n$1\r\nkXY$1\r\nv\r\n".to_vec(),          // unchecked trailer of the key
        b"*3\r\n$3\r\nSET\r\n$1\r\nk\r\n$1\r\nvXY".to_vec(),
        b"*3\r\n$3\r\nSET\r\n$1\r\nk\r\nX1\r\nv\r\n".to_vec(),          // no `$` where the value begins
        b"*3\r\n$3\r\nSET\r\n$+1\r\nk\r\n$+01\r\nv\r\n".to_vec(),
        b"*3\r\n$3\r\nSET\r\n$1\r\nk\r\n$-1\r\n".to_vec(),
        b"*3\r\n$3\r\nSET\r\n$1\r\nk\r\n".to_vec(),
        b"*3\r\n$3\r\nSET\r\n$1\r\nk\r\n$".to_vec(),
    ];
    for len in [usize::MAX, usize::MAX - 18, (1usize << 63) + 1, 1usize << 63, (1usize << 63) - 1, 1usize << 62, 536_870_912, 536_870_913] {
        frames.push(format!("*2\r\n$3\r\nGET\r\n${}\r\nab", len).into_bytes());
        frames.push(format!("*3\r\n$3\r\nSET\r\n${}\r\nab", len).into_bytes());
        frames.push(format!("*3\r\n$3\r\nSET\r\n$1\r\nk\r\n${}\r\nab", len).into_bytes());
    }
    for bad in &frames {
        for cfg in &cfgs {
            // (a frame the decoder rejects must be answered with an error: the malformed oracle, which also
            // writes the op for the correspondence)
            check_malformed(cx, cfg, &[], bad, "near-wellformed", &[], &[bad.clone()], "recogniser:alone");
            check_malformed(cx, cfg, &[vec![b"PING".to_vec()]], bad, "near-wellformed", &[], &[ping.clone(), bad.clone()], "recogniser:after-ping");
            let mut s = bad.clone();
            for _ in 0..3 {
                s.extend_from_slice(&ping);
            }
            corr_only(cx, cfg, &[s.clone()], "recogniser:near-wellformed:then-pings-same-read");
            corr_only(cx, cfg, &[ping.clone(), bad.clone(), ping.clone()], "recogniser:near-wellformed:between-pings");
            // two copies and a well-formed GET in front: the collectors see a run
            let mut run = frame(&[b"GET", b"k"]);
            run.extend_from_slice(&frame(&[b"get", b"key:2"]));
            run.extend_from_slice(bad);
            run.extend_from_slice(&frame(&[b"GET", b"k"]));
            corr_only(cx, cfg, &[run], "recogniser:near-wellformed:inside-a-run");
        }
    }
    // every cut of a few of them (a recogniser must not decide incompleteness differently from the decoder)
    for bad in [&b"*2\r\n$3\r\nGET\r\n$1\rXk\r\n"[..], b"*2\r\n$3\r\nGET\r\n$+01\r\nk\r\n", b"*3\r\n$3\r\nSET\r\n$1\r\nk\r\n$1\rXv\r\n", b"*3\r\n$3\r\nset\r\n$1\r\nkXY$2\r\nvv\r\n", b"*2\r\n$3\r\nGET\r\n$9223372036854775808\r\nab"] {
        for c in 1..bad.len() {
            for cfg in &cfgs[..2] {
                let mut segs = vec![ping.clone()];
                segs.extend(cut(bad, &[c]));
                segs.push(ping.clone());
                corr_only(cx, cfg, &segs, "recogniser:near-wellformed:cut-at-every-byte");
            }
        }
    }
    // keys that are not UTF-8 (the shards take a key as &str; the generic path converts lossily): the
    // same key through GET / get (recognised) and Get (never recognised) must name the same entry
    let keys: [&[u8]; 12] = [b"\xff", b"k\xff", b"\xc3\x28", b"\xe2\x82", b"\xed\xa0\x80", b"\xf4\x90\x80\x80", b"\xc0\x80", b"\xf0\x82\x82\xac",
        "\u{e9}".as_bytes(), "\u{20ac}".as_bytes(), "\u{1f600}".as_bytes(), b"a\x80"];
    for key in keys {
        let cmds: Vec<Vec<Vec<u8>>> = vec![
            vec![b"SET".to_vec(), key.to_vec(), b"v1".to_vec()],
            vec![b"GET".to_vec(), key.to_vec()],
            vec![b"get".to_vec(), key.to_vec()],
            vec![b"Get".to_vec(), key.to_vec()],
            vec![b"Set".to_vec(), key.to_vec(), b"v2".to_vec()],
            vec![b"GET".to_vec(), key.to_vec()],
            vec![b"set".to_vec(), key.to_vec(), b"v3".to_vec()],
            vec![b"gEt".to_vec(), key.to_vec()],
        ];
        let frames = cmd_frames(&cmds);
        let stream: Vec<u8> = frames.concat();
        for cfg in &cfgs {
            check_wellformed(cx, cfg, &cmds, &[stream.clone()], "recogniser:non-utf8-key:one-read");
            check_wellformed(cx, cfg, &cmds, &frames, "recogniser:non-utf8-key:per-command");
        }
    }
    // long mixed runs around the thresholds: GET x5, SET x4, PING, GET x2 in ONE read
    let mut cmds: Vec<Vec<Vec<u8>>> = Vec::new();
    for i in 0..5 {
        cmds.push(vec![if i % 2 == 0 { b"GET".to_vec() } else { b"get".to_vec() }, KEYS[i % 3].to_vec()]);
    }
    for i in 0..4 {
        cmds.push(vec![if i % 2 == 0 { b"SET".to_vec() } else { b"set".to_vec() }, KEYS[i % 3].to_vec(), format!("w{}", i).into_bytes()]);
    }
    cmds.push(vec![b"PING".to_vec()]);
    cmds.push(vec![b"GET".to_vec(), KEYS[0].to_vec()]);
    cmds.push(vec![b"GET".to_vec(), KEYS[1].to_vec()]);
    let frames = cmd_frames(&cmds);
    let stream: Vec<u8> = frames.concat();
    let after_gets: usize = frames[5..].iter().map(|f| f.len()).sum();
    for thr in [0usize, 1, 2, 4, 5, 6] {
        for mp in [0usize, 60, after_gets - 1, after_gets, after_gets + 1, stream.len() - 1, stream.len(), stream.len() + 1] {
            let cfg = Cfg { min_pipeline: mp, batch_threshold: thr, read_size: 8192, max_buffer: 1_000_000 };
            check_wellformed(cx, &cfg, &cmds, &[stream.clone()], "recogniser:mixed-run:thresholds-and-gates");
        }
    }
}

fn fixed_corpus(cx: &mut Cx) {
    let d = Cfg::default_like();
    let ping = frame(&[b"PING"]);
    let pings: Vec<Vec<Vec<u8>>> = vec![vec![b"PING".to_vec()]; 3];
    // W1: GET look-alike accepted by the fast path
    let bad = b"*2\r\n$3\r\nGET\r\nX$1\r\nk\r\n".to_vec();
    check_malformed(cx, &d, &[], &bad, "lookalike", &[], &[bad.clone()], "corpus");
    // W2: the same frame in a buffer above min_pipeline_buffer is consumed by collect_get_keys
    //     and dropped (count 1 < batch_threshold 2): silence
    let mut s = bad.clone();
    for _ in 0..3 {
        s.extend_from_slice(&ping);
    }
    check_malformed(cx, &d, &[], &bad, "lookalike", &pings, &[s.clone()], "corpus");
    // the SET recogniser has the same off-by-one
    let bad = b"*3\r\n$3\r\nSET\r\nX$1\r\nk\r\n$1\r\nv\r\n".to_vec();
    check_malformed(cx, &d, &[], &bad, "lookalike", &[], &[bad.clone()], "corpus");
    let mut s = bad.clone();
    for _ in 0..3 {
        s.extend_from_slice(&ping);
    }
    check_malformed(cx, &d, &[], &bad, "lookalike", &pings, &[s.clone()], "corpus");
    // proper prefixes of look-alikes: the fast path waits although the grammar already rejects
    let bad = b"*2\r\n$3\r\nGET\r\nX$4\r\nab".to_vec();
    check_malformed(cx, &d, &[vec![b"PING".to_vec()]], &bad, "lookalike", &[], &[ping.clone(), bad.clone()], "corpus");
    let bad = b"*3\r\n$3\r\nSET\r\nX$1\r\nk\r\n$9\r\nv".to_vec();
    check_malformed(cx, &d, &[vec![b"PING".to_vec()]], &bad, "lookalike", &[], &[ping.clone(), bad.clone()], "corpus");
    // stray separators between commands are malformed frames: an error reply, never silence — alone after a
    // command, between two commands of one read, and cut between CR and LF
    for junk in [&b"\r\n"[..], b"\r\n\r\n", b"\n", b"\r\n\r"] {
        let mut s = ping.clone();
        s.extend_from_slice(junk);
        check_malformed(cx, &d, &[vec![b"PING".to_vec()]], junk, "stray-separator", &[], &[s.clone()], "corpus");
        check_malformed(cx, &d, &[vec![b"PING".to_vec()]], junk, "stray-separator", &[], &[ping.clone(), junk.to_vec()], "corpus");
        if junk.len() >= 2 {
            let mut a = ping.clone();
            a.extend_from_slice(&junk[..1]);
            check_malformed(cx, &d, &[vec![b"PING".to_vec()]], junk, "stray-separator", &[], &[a, junk[1..].to_vec()], "corpus");
        }
        let mut t = s.clone();
        t.extend_from_slice(&ping);
        corr_only(cx, &d, &[t], "corpus:stray-separator-then-command-same-read");
        corr_only(cx, &d, &[s.clone(), ping.clone()], "corpus:stray-separator-then-command-next-read");
    }
    // W3: wrapping length arithmetic in the recognisers
    let bad = b"*2\r\n$3\r\nGET\r\nX$18446744073709551615\r\nab".to_vec();
    check_malformed(cx, &d, &[], &bad, "huge-key-length", &[], &[bad.clone()], "corpus");
    // W4: the codec's negative bulk length reaches the connection
    let bad = b"$-2\r\n".to_vec();
    check_malformed(cx, &d, &[vec![b"PING".to_vec()]], &bad, "bulk-negative-len", &[], &[ping.clone(), bad.clone()], "corpus");
    // W5: an error reply that embeds client bytes with CR LF is two replies on the wire (oracle only:
    //     the model's reference executor does not produce error texts)
    let inj = frame(&[b"FOO\r\n+INJECTED"]);
    let r = cx.runner.run(&d, &[inj.clone()]);
    let (line, vals) = line_of(&r);
    cx.out.count("corpus:crlf-in-error-reply");
    if vals.len() != 1 {
        cx.out.violation("C04:reply-count:crlf-in-error-reply", "one well-formed command, two replies on the wire: the error text embeds the client's CR LF unescaped", json!({"stream": hex(&inj), "written": hex(&r.written), "observed": line, "expected": "one reply"}));
    }
}

/// the coverage audit of C04 against the eleven classes of missed inputs (also DESIGN §4 C04 "coverage audit")
fn audit() -> serde_json::Value {
    json!([
      {"class": 1, "topic": "entry paths / variants never driven",
       "covered": "ENUMERATED FROM THE SOURCE the binary was built against (source_enumeration): every Command::X arm of try_execute_command, every literal of is_stub_command / handle_stub_command, every fn of connection_optimized.rs, the variants of CommandResult / FastPathResult, the fields of ConnectionConfig — unknown ones fail the check (C04:coverage:connection-arm-not-driven / stub-not-driven / fn-not-accounted / result-variant-not-modelled / config-field-not-generated / source-scan-failed); K cases drive every arm and stub outside and inside MULTI, arity errors, data commands of every reply kind; run()'s arms Ok(0) / Ok(n) / Err / overflow / parse error / write failure / flush failure (W ops); OptimizedRedisServer::run over loopback TCP with PERF_CONFIG_PATH files (valid, missing, empty, unparsable, every validate error arm refused); redis::BufferPool",
       "open": "TLS / ACL features are off in the pinned build: client_cert_cn arms of new() and the NOAUTH / NOPERM paths are unreachable"},
      {"class": 2, "topic": "input alphabet",
       "covered": "keys / values binary, empty, with CR LF, RESP look-alike content, 8191..12000 bytes (around / above read_buffer_size); command names empty / blank / CR LF / non-UTF-8 / lower case",
       "open": "values above 12 KB (run time of the List-based model)"},
      {"class": 3, "topic": "comparisons at equality",
       "covered": "overflow guard stated on the input (max == read, read+1, leftover + n = max ± 1); both batching gates at stream length -1 / = / +1; look-alike count vs batch_threshold at k-1 / k / k+1; every look-alike cut at every byte (< 12, < HEADER_LEN+1, < total_needed, <= val_len_start)",
       "open": ""},
      {"class": 4, "topic": "configuration",
       "covered": "the four ConnectionConfig fields through PerformanceConfig::validate: read_size 1 / 7 / 16 / 64 / 8192 / 65536, max_size = read / read+1 / usize::MAX, min_pipeline_buffer 0 / 1 / usize::MAX, batch_threshold 0 / 1 / usize::MAX; pool sizes 1..16; config FILES through the real server",
       "open": "cargo features opt-atoi-parse / opt-itoa-encode are off (trusted base)"},
      {"class": 5, "topic": "capacity thresholds",
       "covered": "HEADER_LEN (source-derived); pool capacity test; the recognisers' checked_add branches (usize::MAX .. usize::MAX-40, 2^63, key and value, fast path and collectors); pipelines of 64..2049 commands in ONE read, in reads of 8192, gate closed; 300 commands in one TCP write",
       "open": ""},
      {"class": 6, "topic": "fault kinds",
       "covered": "read error at every read index; poll_write failing after any number of accepted bytes (every byte position of a reply stream), Ok(0), partial writes of every size, flush failure at the 1st / 2nd / 3rd flush, the overflow path's ignored write failing, Pending polls on read / write / flush, client leaving mid-frame, panics (caught, attributed by cause)",
       "open": "a peer that never accepts: write_all waits by design, there is no timeout to test"},
      {"class": 7, "topic": "history shapes",
       "covered": "successive connections on one pool; after a protocol error (later reads, same read swallowed, repeated, tiny reads); deep pipelines; MULTI blocks with every connection-level command queued and replayed by EXEC, nested MULTI, EXEC / DISCARD without MULTI",
       "open": ""},
      {"class": 8, "topic": "node-global state",
       "covered": "server-wide buffer pool (hook H1b and the real server), redis::BufferPool",
       "open": "ACL manager shared between connections (feature off); metrics (never read by logic)"},
      {"class": 9, "topic": "observations",
       "covered": "decoded replies (count, order, content), end state, undecoded tail; the exact BYTES the peer received and the number of reads the handler made (W ops); at EVERY read call of the handler: replies on the wire >= commands complete in the bytes delivered so far (C04:reply-withheld:until-more-input); over TCP a client that WAITS without closing (C04:tcp:reply-withheld)",
       "open": "error texts of executor replies are compared against the sent-alone twin only"},
      {"class": 10, "topic": "finding signatures",
       "covered": "look-alikes by class membership + model agreement; C04:crash:whitespace-command-name by cause (first command outside MULTI with a white-space-only name, index panic, at most the earlier commands answered, must_agree with the model of the current code); any other crash on a well-formed pipeline is C04:crash:well-formed-stream",
       "open": ""},
      {"class": 11, "topic": "harness fragility",
       "covered": "source read from the tree the binary was built against; a failed scan is a violation; skipped MULTI-prefix cases are counted; read sizes below 64 are not combined with multi-kilobyte frames (quadratic re-parse in code and model alike)",
       "open": "the TCP port is asked from the kernel (bind to port 0) right before the server starts and the server task is re-checked after the first connect"}
    ])
}

/// throw-away mutations of a private clone of /repo: after = this harness, before = harness of commit 0afddff
fn mutations_self_tested() -> serde_json::Value {
    json!([
      {"mutation": "run(): the sequential drain loop stops after 128 commands per read (the shape of a round-5 seeded change)", "class": "5 capacity thresholds / 9 observations", "before": "missed (exit 0)", "after": "C04:reply-withheld:until-more-input (129 complete commands, 128 replies on the wire), C04:reply-count:missing-reply, C04:tcp:reply-withheld"},
      {"mutation": "run(): a failed write_all `continue`s instead of `break`", "class": "6 fault kinds", "before": "model disagreement only (no-failing-input-found)", "after": "C04:write:not-a-prefix-of-the-reply-stream with the peer script and the bytes received"},
      {"mutation": "run(): `stream.write(&write_buffer)` (one call) instead of write_all", "class": "6 fault kinds (partial writes)", "before": "missed (exit 0)", "after": "C04:write:reply-bytes-missing, C04:write:not-a-prefix-of-the-reply-stream"},
      {"mutation": "try_execute_command: the UNWATCH arm returns without encoding a reply", "class": "1 entry paths", "before": "missed (exit 0)", "after": "C04:reply-count:missing-reply (K cases)"},
      {"mutation": "the batching gate `>=` → `>`", "class": "3 equality", "before": "caught (1 op, look-alike at the gate by chance)", "after": "8 ops of the boundary corpus (model disagreement, look-alike input: no property-level failing input)"},
      {"mutation": "`set_count >= batch_threshold` → `>`", "class": "3 equality", "before": "caught (5 ops)", "after": "caught (74 ops)"},
      {"mutation": "try_fast_set: value length added with wrapping_add", "class": "5 capacity thresholds", "before": "missed (exit 0)", "after": "C04:crash:huge-value-length (attempt to add with overflow) on `*3\\r\\n$3\\r\\nSET\\r\\nX$1\\r\\nk\\r\\n$18446744073709551615\\r\\nab`"},
      {"mutation": "PerformanceConfig::validate forgets `max_size < read_size`", "class": "4 configuration / 1 entry paths (server_optimized.rs)", "before": "missed (exit 0)", "after": "C04:config:invalid-accepted:invalid:max-below-read (the real server starts)"},
      {"mutation": "SESSION 4, on the REPAIRED code (clone of fixes-conn-s4): try_fast_get without the LF test behind the CR of the length line", "class": "2 input alphabet / 3 equality (one byte off)", "before": "n/a (the recogniser corpus did not exist; the random look-alike generator never puts `$` at offset 13)", "after": "82 ops disagree (recogniser corpus: `$1\\rXk`); with the malformed oracle of the corpus: C04:malformed-accepted:near-wellformed"},
      {"mutation": "repaired code: try_fast_set takes keys that are not UTF-8", "class": "2 input alphabet", "before": "n/a", "after": "72 ops disagree (non-UTF-8 keys through SET / get / Get: the recognised and the generic spelling name different entries); no property-level failing input: sent alone the commands take the same paths"},
      {"mutation": "repaired code: collect_get_keys without the LF test", "class": "3 equality", "before": "n/a", "after": "46 ops disagree (corpus frames inside a run of GETs, gate open)"},
      {"mutation": "repaired code: SETs collected below batch_threshold are dropped again", "class": "5 capacity thresholds", "before": "n/a", "after": "C04:reply-count:missing-reply (64 commands, 63 replies), C04:reply-withheld:until-more-input, C04:overflow:earlier-replies-lost"},
      {"mutation": "repaired code: GETs collected below batch_threshold are answered in reverse order", "class": "7 history shapes / 9 observations", "before": "n/a", "after": "C04:reply-differs-from-alone, C04:write:not-a-prefix-of-the-reply-stream, C04:malformed-alters-earlier-replies"},
      {"mutation": "repaired code: try_fast_get takes a frame one byte short of complete (`+ 1 <`)", "class": "3 equality", "before": "n/a", "after": "C04:crash:well-formed-stream (split_to out of bounds 21 <= 20) with the pipeline and the cut"},
      {"mutation": "repaired code: the fast path is entered during MULTI", "class": "8 connection state", "before": "n/a", "after": "507 ops disagree (SET inside MULTI answered +OK instead of QUEUED); no property-level failing input from the twin oracle (sent alone the command takes the same path): the reference executor of the model is the judge"},
      {"mutation": "repaired code (/repo 25f2d11), the idea of the round-7 seed: memmem pre-check in both collectors counting GET / SET headers anywhere in the buffer, consumed runs below the threshold dropped again", "class": "5 capacity thresholds / 7 history shapes", "before": "n/a", "after": "C04:reply-count:missing-reply (64 commands, 63 replies), C04:reply-withheld:until-more-input, C04:write:not-a-prefix-of-the-reply-stream"},
      {"mutation": "run(): a failed flush is ignored", "class": "6 fault kinds", "before": "missed (exit 0)", "after": "model disagreement on 152 W ops (number of reads made after the failed flush); no property-level failing input: the bytes are still a prefix of the reply stream"}
    ])
}

fn run_inner(a: &Args) {
    crate::c15::install_silent_panic_hook();
    let mut cx = Cx { out: Out::new(&a.out), runner: Runner::new() };
    let mut rng = Rng::new(a.seed);
    let t0 = std::time::Instant::now();
    let mut lap = |name: &str| eprintln!("[c04 timing] {} at {:.1}s", name, t0.elapsed().as_secs_f64());
    fixed_corpus(&mut cx);
    lap("fixed");
    deep_corpus(&mut cx);
    lap("deep");
    boundary_corpus(&mut cx);
    lap("boundary");
    recogniser_corpus(&mut cx);
    lap("recogniser");
    overflow_corpus(&mut cx);
    pooled_corpus(&mut cx);
    write_corpus(&mut cx);
    lap("overflow+pooled+write");
    let variants = source_enumeration(&mut cx);
    any_corpus(&mut cx, &variants);
    lap("any");
    tcp_end_to_end(&mut cx);
    lap("tcp");
    mirror_cases(&mut cx, &mut rng, if a.tier == "thorough" { 3000 } else { 300 });
    lap("mirror");
    // deterministic sweep: GET/SET runs of depth 1..7 around both thresholds, whole / per-command / 1-byte
    for depth in 1..=7usize {
        for mode in 0..2 {
            for (mp, bt) in [(0usize, 1usize), (0, 2), (60, 2), (70, 6), (60, 6)] {
                let cmds: Vec<Vec<Vec<u8>>> = (0..depth).map(|i| if mode == 0 { vec![b"GET".to_vec(), KEYS[i % 3].to_vec()] } else { vec![b"SET".to_vec(), KEYS[i % 3].to_vec(), format!("v{}", i).into_bytes()] }).collect();
                let mut stream = Vec::new();
                let mut bounds = Vec::new();
                for c in &cmds {
                    stream.extend(frame(&c.iter().map(|a| &a[..]).collect::<Vec<_>>()));
                    bounds.push(stream.len());
                }
                bounds.pop();
                let cfg = Cfg { min_pipeline: mp, batch_threshold: bt, read_size: 8192, max_buffer: 1_000_000 };
                check_wellformed(&mut cx, &cfg, &cmds, &[stream.clone()], "sweep");
                check_wellformed(&mut cx, &cfg, &cmds, &cut(&stream, &bounds), "sweep");
            }
        }
    }
    let mut done = 0;
    while done < a.n {
        done += 1;
        if done % 6 == 0 {
            pooled_random(&mut cx, &mut rng);
            continue;
        }
        if done % 6 == 3 {
            write_case(&mut cx, &mut rng);
            continue;
        }
        if done % 12 == 1 {
            any_case(&mut cx, &mut rng, &variants);
            continue;
        }
        let mut cfg = config(&mut rng);
        let (cmds, stream, bounds) = gen_pipeline(&mut rng);
        tame(&mut cfg, &cmds);
        if rng.chance(1, 5) {
            let mut cfg = cfg.clone();
            cfg.max_buffer = 1_000_000; // the overflow guard is exercised by the well-formed cases
            let (bad, class) = malformed(&mut rng);
            // MULTI prefixes are excluded (inside a transaction nothing is executed before EXEC)
            if cmds.iter().any(|c| c[0].eq_ignore_ascii_case(b"MULTI")) {
                continue;
            }
            let h = header_len();
            let is_member = lookalike_get(&bad, h).map(|x| x.1 == bad.len()).unwrap_or(false) || lookalike_set(&bad, h).map(|x| x.2 == bad.len()).unwrap_or(false);
            // members of the look-alike class are also followed by well-formed commands
            let mut suffix: Vec<Vec<Vec<u8>>> = Vec::new();
            if is_member && rng.chance(2, 3) {
                for _ in 0..rng.range(1, 3) {
                    suffix.push(match rng.below(3) {
                        0 => vec![b"PING".to_vec()],
                        1 => vec![b"GET".to_vec(), rng.pick(&KEYS).to_vec()],
                        _ => vec![b"SET".to_vec(), rng.pick(&KEYS).to_vec(), value(&mut rng)],
                    });
                }
            }
            let mut s = stream.clone();
            s.extend_from_slice(&bad);
            let mut b2 = bounds.clone();
            if !stream.is_empty() {
                b2.push(stream.len());
            }
            for c in cmd_frames(&suffix) {
                b2.push(s.len());
                s.extend_from_slice(&c);
            }
            // the malformed frame arrives in one piece with the rest, at frame boundaries, or (look-alikes)
            // cut anywhere
            let segs = match rng.below(if is_member { 3 } else { 2 }) {
                0 => vec![s.clone()],
                1 => cut(&s, &b2),
                _ => segmentation(&mut rng, &s, &b2),
            };
            check_malformed(&mut cx, &cfg, &cmds, &bad, class, &suffix, &segs, "random");
        } else {
            let segs = segmentation(&mut rng, &stream, &bounds);
            check_wellformed(&mut cx, &cfg, &cmds, &segs, "random");
        }
    }
    cx.out.extra.insert("audit".into(), audit());
    cx.out.extra.insert("mutations_self_tested".into(), mutations_self_tested());
    cx.out.finish("case = one connection: configuration (min_pipeline_buffer, batch_threshold, read_buffer_size) + network segments of a pipeline of GET/SET/PING/ECHO/MULTI/EXEC/unknown commands (or a well-formed prefix followed by one malformed frame); distinct by canonical op text; non-trivial iff at least 2 commands arrive in at least 2 segments (malformed cases: always)");
}

pub fn run(a: &Args) {
    let a2 = Args { seed: a.seed, n: a.n, out: a.out.clone(), tier: a.tier.clone(), replay: a.replay.clone() };
    std::thread::Builder::new().stack_size(64 << 20).spawn(move || run_inner(&a2)).expect("spawn").join().expect("C04 harness thread panicked");
}
