//! C04 — pipelining: exactly one reply per command, in order, however bytes arrive.
//!
//! The REAL `OptimizedConnectionHandler` (hook H1 `verif_hooks::run_connection`) runs on a
//! scripted in-memory stream: every `poll_read` hands out exactly the next generated network
//! segment (cut further only by the handler's own `read_buffer_size`), then EOF; everything
//! the handler writes is collected.  (A scripted stream instead of `tokio::io::duplex`: with
//! duplex two segments can coalesce into one read depending on scheduling, and the model needs
//! to know which bytes arrived together — batching and the clear-on-error path depend on it.)
//!
//! Correspondence: decoded replies (count, order, content; error texts reduced to E / PE / OV) vs the
//! Lean model `Conn.run` + reference executor on the same configuration and segments.
//! Oracle (independent of the model): reply count != command count, reply i != the reply the
//! command gets when every command is sent in its own segment on a fresh server, hang (timeout),
//! panic; for a well-formed prefix followed by ONE malformed frame: the prefix replies are
//! unchanged and the malformed frame gets an error reply (never silence, a data reply, a crash).
use crate::c15::V;
use crate::enc::hex;
use crate::out::Out;
use crate::rng::Rng;
use crate::Args;
use redis_sim::production::verif_hooks::{run_connection, run_connection_pooled};
use redis_sim::production::{ConnectionConfig, ConnectionPool, ShardedActorState};
use redis_sim::redis::RespParser;
use serde_json::json;
use std::collections::VecDeque;
use std::panic::{catch_unwind, AssertUnwindSafe};
use std::pin::Pin;
use std::sync::{Arc, Mutex};
use std::task::{Context, Poll};
use tokio::io::{AsyncRead, AsyncWrite, ReadBuf};

pub struct Scripted {
    segs: VecDeque<Vec<u8>>,
    written: Arc<Mutex<Vec<u8>>>,
    /// index (0-based) of the write call that fails: the client is gone / has stopped reading
    fail_write_at: Option<usize>,
    writes: usize,
}

impl AsyncRead for Scripted {
    fn poll_read(mut self: Pin<&mut Self>, _cx: &mut Context<'_>, buf: &mut ReadBuf<'_>) -> Poll<std::io::Result<()>> {
        // skip empty segments (a zero-length read would mean EOF)
        while matches!(self.segs.front(), Some(s) if s.is_empty()) {
            self.segs.pop_front();
        }
        if let Some(mut s) = self.segs.pop_front() {
            let n = s.len().min(buf.remaining());
            buf.put_slice(&s[..n]);
            if n < s.len() {
                let rest = s.split_off(n);
                self.segs.push_front(rest);
            }
        }
        Poll::Ready(Ok(()))
    }
}

impl AsyncWrite for Scripted {
    fn poll_write(mut self: Pin<&mut Self>, _cx: &mut Context<'_>, buf: &[u8]) -> Poll<std::io::Result<usize>> {
        let i = self.writes;
        self.writes += 1;
        if self.fail_write_at == Some(i) {
            return Poll::Ready(Err(std::io::Error::new(std::io::ErrorKind::BrokenPipe, "client gone")));
        }
        self.written.lock().unwrap().extend_from_slice(buf);
        Poll::Ready(Ok(buf.len()))
    }
    fn poll_flush(self: Pin<&mut Self>, _cx: &mut Context<'_>) -> Poll<std::io::Result<()>> {
        Poll::Ready(Ok(()))
    }
    fn poll_shutdown(self: Pin<&mut Self>, _cx: &mut Context<'_>) -> Poll<std::io::Result<()>> {
        Poll::Ready(Ok(()))
    }
}

#[derive(Clone, Debug)]
pub struct Cfg {
    pub min_pipeline: usize,
    pub batch_threshold: usize,
    pub read_size: usize,
    pub max_buffer: usize,
}

impl Cfg {
    pub fn default_like() -> Cfg {
        Cfg { min_pipeline: 60, batch_threshold: 2, read_size: 8192, max_buffer: 1_000_000 }
    }
    fn real(&self) -> ConnectionConfig {
        ConnectionConfig { max_buffer_size: self.max_buffer, read_buffer_size: self.read_size, min_pipeline_buffer: self.min_pipeline, batch_threshold: self.batch_threshold }
    }
}

#[derive(Clone, Debug, PartialEq)]
pub enum End {
    Eof,
    Crash(String),
    Hang,
}

pub struct ConnRun {
    pub written: Vec<u8>,
    pub end: End,
}

pub struct Runner {
    rt: tokio::runtime::Runtime,
}

impl Runner {
    pub fn new() -> Runner {
        Runner { rt: tokio::runtime::Builder::new_multi_thread().worker_threads(2).enable_all().build().expect("runtime") }
    }
    /// one connection on a fresh 2-shard server: the segments, then EOF
    pub fn run(&self, cfg: &Cfg, segs: &[Vec<u8>]) -> ConnRun {
        let written = Arc::new(Mutex::new(Vec::new()));
        let stream = Scripted { segs: segs.iter().cloned().collect(), written: written.clone(), fail_write_at: None, writes: 0 };
        let ccfg = cfg.real();
        let r = catch_unwind(AssertUnwindSafe(|| {
            self.rt.block_on(async move {
                let state = ShardedActorState::with_shards(2);
                tokio::time::timeout(std::time::Duration::from_secs(10), run_connection(stream, state, ccfg)).await
            })
        }));
        let end = match r {
            Err(_) => End::Crash(crate::c15::last_panic()),
            Ok(Err(_)) => End::Hang,
            Ok(Ok(())) => End::Eof,
        };
        let w = written.lock().unwrap().clone();
        ConnRun { written: w, end }
    }
}

impl Runner {
    /// one connection on a fresh 2-shard server whose buffers come from `pool` (shared with the
    /// connections served before it); `fail_write_at` = the write call that fails
    pub fn run_pooled(&self, cfg: &Cfg, segs: &[Vec<u8>], fail_write_at: Option<usize>, pool: Arc<ConnectionPool>) -> ConnRun {
        let written = Arc::new(Mutex::new(Vec::new()));
        let stream = Scripted { segs: segs.iter().cloned().collect(), written: written.clone(), fail_write_at, writes: 0 };
        let ccfg = cfg.real();
        let r = catch_unwind(AssertUnwindSafe(|| {
            self.rt.block_on(async move {
                let state = ShardedActorState::with_shards(2);
                tokio::time::timeout(std::time::Duration::from_secs(10), run_connection_pooled(stream, state, ccfg, pool)).await
            })
        }));
        let end = match r {
            Err(_) => End::Crash(crate::c15::last_panic()),
            Ok(Err(_)) => End::Hang,
            Ok(Ok(())) => End::Eof,
        };
        let w = written.lock().unwrap().clone();
        ConnRun { written: w, end }
    }
}

/// decode the reply stream with the simulation decoder; `None` = undecodable tail
pub fn decode_replies(bytes: &[u8]) -> (Vec<V>, usize) {
    let mut out = Vec::new();
    let mut off = 0;
    while off < bytes.len() {
        match catch_unwind(AssertUnwindSafe(|| RespParser::parse(&bytes[off..]))) {
            Ok(Ok((v, n))) if n > 0 => {
                out.push(V::from_rv(&v));
                off += n;
            }
            _ => break,
        }
    }
    (out, bytes.len() - off)
}

fn reply_text(v: &V) -> String {
    match v {
        V::E(m) if m == b"ERR protocol error" => "PE".into(),
        V::E(m) if m == b"ERR buffer overflow" => "OV".into(),
        V::E(_) => "E".into(),
        v => format!("V {}", v.show()),
    }
}

fn line_of(r: &ConnRun) -> (String, Vec<V>) {
    let (vals, rest) = decode_replies(&r.written);
    let texts: Vec<String> = vals.iter().map(reply_text).collect();
    let end = match &r.end {
        End::Eof => "eof".to_string(),
        End::Crash(_) => "crash".to_string(),
        End::Hang => "hang".to_string(),
    };
    let tail = if rest > 0 { format!(" undecoded={}", rest) } else { String::new() };
    (format!("n={} [{}] end={}{}", vals.len(), texts.join(" ; "), end, tail), vals)
}

pub fn frame(args: &[&[u8]]) -> Vec<u8> {
    let mut v = format!("*{}\r\n", args.len()).into_bytes();
    for a in args {
        v.extend(format!("${}\r\n", a.len()).into_bytes());
        v.extend_from_slice(a);
        v.extend_from_slice(b"\r\n");
    }
    v
}

fn op_line(cfg: &Cfg, segs: &[Vec<u8>]) -> String {
    let s: Vec<String> = segs.iter().map(|s| hex(s)).collect();
    format!("C {} {} 14 {} {} {}", cfg.min_pipeline, cfg.batch_threshold, cfg.read_size, cfg.max_buffer, s.join(","))
}

// ---------------------------------------------------------------- generators

const KEYS: [&[u8]; 4] = [b"k", b"key:2", b"a-longer-key-name-0123456789", b"\r\n"];

fn value(rng: &mut Rng) -> Vec<u8> {
    match rng.below(7) {
        0 => vec![],
        1 => b"v".to_vec(),
        2 => b"with\r\ncrlf".to_vec(),
        3 => vec![0, 255, 36, 42],
        4 => vec![b'x'; rng.range(40, 90) as usize],
        5 => b"$3\r\nGET\r\n".to_vec(),
        _ => (0..rng.range(1, 12)).map(|_| rng.below(256) as u8).collect(),
    }
}

/// one well-formed command of the modelled subset
fn command(rng: &mut Rng, in_tx: &mut bool) -> Vec<Vec<u8>> {
    let lower = rng.chance(1, 5);
    let nm = |s: &str| if lower { s.to_lowercase().into_bytes() } else { s.as_bytes().to_vec() };
    match rng.below(20) {
        0..=6 => vec![nm("GET"), rng.pick(&KEYS).to_vec()],
        7..=12 => vec![nm("SET"), rng.pick(&KEYS).to_vec(), value(rng)],
        13..=14 => vec![nm("PING")],
        15..=16 => vec![nm("ECHO"), value(rng)],
        17 if !*in_tx => {
            *in_tx = true;
            vec![nm("MULTI")]
        }
        18 if *in_tx => {
            *in_tx = false;
            vec![if rng.chance(1, 4) { nm("DISCARD") } else { nm("EXEC") }]
        }
        _ if !*in_tx => vec![b"FOO".to_vec(), b"bar".to_vec()],
        _ => vec![nm("GET"), rng.pick(&KEYS).to_vec()],
    }
}

fn cut(stream: &[u8], cuts: &[usize]) -> Vec<Vec<u8>> {
    let mut v = Vec::new();
    let mut base = 0;
    for c in cuts {
        v.push(stream[base..*c].to_vec());
        base = *c;
    }
    v.push(stream[base..].to_vec());
    v
}

fn segmentation(rng: &mut Rng, stream: &[u8], boundaries: &[usize]) -> Vec<Vec<u8>> {
    let n = stream.len();
    if n < 2 {
        return vec![stream.to_vec()];
    }
    match rng.below(8) {
        0 => vec![stream.to_vec()],
        1 => (0..n).map(|i| vec![stream[i]]).collect(),
        2 => cut(stream, boundaries), // one command per segment
        3 => {
            // cuts just around frame boundaries / inside headers
            let mut cs: Vec<usize> = Vec::new();
            for b in boundaries {
                let d = rng.range(0, 6) as usize;
                let c = if rng.chance(1, 2) { b.saturating_sub(d) } else { b + d };
                if c > 0 && c < n {
                    cs.push(c);
                }
            }
            cs.sort();
            cs.dedup();
            cut(stream, &cs)
        }
        _ => {
            let k = rng.range(1, 5) as usize;
            let mut cs: Vec<usize> = (0..k).map(|_| rng.range(1, n as u64 - 1) as usize).collect();
            cs.sort();
            cs.dedup();
            cut(stream, &cs)
        }
    }
}

fn config(rng: &mut Rng) -> Cfg {
    Cfg {
        min_pipeline: *rng.pick(&[0usize, 60, 60, 70, 1 << 40]),
        batch_threshold: *rng.pick(&[1usize, 2, 2, 6]),
        read_size: *rng.pick(&[8192usize, 8192, 64, 7]),
        max_buffer: 1_000_000,
    }
}

/// malformed frames that a RESP server must reject; (bytes, class)
fn malformed(rng: &mut Rng) -> (Vec<u8>, &'static str) {
    match rng.below(8) {
        0 => (b"?what\r\n".to_vec(), "unknown-type-byte"),
        1 => (b"*2\r\n$3\r\nGET\r\nX$1\r\nk\r\n".to_vec(), "get-lookalike"),
        2 => (b"*3\r\n$3\r\nSET\r\nX$1\r\nk\r\n$1\r\nv\r\n".to_vec(), "set-lookalike"),
        3 => (b"*1\r\n:x\r\n".to_vec(), "bad-integer"),
        4 => (b"*2\r\n$3\r\nGET\r\n$x\r\nk\r\n".to_vec(), "bad-bulk-length"),
        5 => (b"*2\r\n$3\r\nget\r\n-$2\r\nkk\r\n".to_vec(), "get-lookalike"),
        6 => (b"*x\r\n".to_vec(), "bad-array-length"),
        _ => (b"*2\r\n$3\r\nGET\r\n$$1\r\nk\r\n".to_vec(), "get-lookalike"),
    }
}

struct Cx {
    out: Out,
    runner: Runner,
}

/// well-formed pipeline: correspondence op + oracle against the one-command-per-segment twin
fn check_wellformed(cx: &mut Cx, cfg: &Cfg, cmds: &[Vec<Vec<u8>>], segs: &[Vec<u8>], src: &str) {
    let r = cx.runner.run(cfg, segs);
    let (line, vals) = line_of(&r);
    cx.out.op(op_line(cfg, segs), line.clone());
    let stream_len: usize = segs.iter().map(|s| s.len()).sum();
    cx.out.count(&format!("wf:{}:cmds={}:segs={}", src, cmds.len().min(13), segs.len().min(6)));
    cx.out.count(&format!("cfg:min={}:thr={}:read={}", cfg.min_pipeline.min(9999), cfg.batch_threshold, cfg.read_size));
    cx.out.count(if stream_len >= cfg.min_pipeline { "gate:open" } else { "gate:closed" });
    cx.out.case(&op_line(cfg, segs), cmds.len() >= 2 && segs.len() >= 2);
    let replay = |what: &str, twin: &str| json!({"op": op_line(cfg, segs), "commands": cmds.iter().map(|c| c.iter().map(|a| String::from_utf8_lossy(a).to_string()).collect::<Vec<_>>()).collect::<Vec<_>>(), "observed": line, "expected": what, "twin": twin, "source": src});
    cx.out.sample(replay("sample", ""));
    match &r.end {
        End::Crash(m) => {
            cx.out.violation("C04:crash:well-formed-stream", &format!("the connection handler panicked on a well-formed pipeline: {}", m), replay("no panic", ""));
            return;
        }
        End::Hang => {
            cx.out.violation("C04:hang:well-formed-stream", "the connection handler did not finish within 10 s", replay("EOF reached", ""));
            return;
        }
        End::Eof => {}
    }
    // twin: every command in its own segment, batching off
    let twin_cfg = Cfg { min_pipeline: 1 << 40, batch_threshold: 1 << 20, read_size: 8192, max_buffer: 1_000_000 };
    let twin_segs: Vec<Vec<u8>> = cmds.iter().map(|c| frame(&c.iter().map(|a| &a[..]).collect::<Vec<_>>())).collect();
    let t = cx.runner.run(&twin_cfg, &twin_segs);
    let (tline, tvals) = line_of(&t);
    if vals.len() != cmds.len() {
        let class = if vals.len() < cmds.len() { "missing-reply" } else { "extra-reply" };
        cx.out.violation(&format!("C04:reply-count:{}", class), &format!("{} commands, {} replies", cmds.len(), vals.len()), replay("one reply per command", &tline));
    } else if vals != tvals {
        let i = (0..vals.len()).find(|i| vals.get(*i) != tvals.get(*i)).unwrap_or(0);
        cx.out.violation("C04:reply-differs-from-alone", &format!("reply {} differs from the reply the command gets when sent alone", i), replay("replies equal to one-at-a-time replies", &tline));
    }
}

fn gen_pipeline(rng: &mut Rng) -> (Vec<Vec<Vec<u8>>>, Vec<u8>, Vec<usize>) {
    let depth = *rng.pick(&[1u64, 2, 2, 3, 5, 6, 7, 12]);
    let mut in_tx = false;
    let mut cmds = Vec::new();
    // runs of GETs / SETs (what the collectors look for), mixed with other commands
    let mode = rng.below(4);
    for _ in 0..depth {
        let c = match mode {
            0 => vec![b"GET".to_vec(), rng.pick(&KEYS).to_vec()],
            1 => vec![b"SET".to_vec(), rng.pick(&KEYS).to_vec(), value(rng)],
            _ => command(rng, &mut in_tx),
        };
        cmds.push(c);
    }
    if in_tx {
        cmds.push(vec![b"EXEC".to_vec()]);
    }
    let mut stream = Vec::new();
    let mut bounds = Vec::new();
    for c in &cmds {
        stream.extend(frame(&c.iter().map(|a| &a[..]).collect::<Vec<_>>()));
        bounds.push(stream.len());
    }
    bounds.pop();
    (cmds, stream, bounds)
}

/// well-formed prefix, then one malformed frame
fn check_malformed(cx: &mut Cx, cfg: &Cfg, cmds: &[Vec<Vec<u8>>], bad: &[u8], class: &str, segs: &[Vec<u8>], src: &str) {
    let r = cx.runner.run(cfg, segs);
    let (line, vals) = line_of(&r);
    cx.out.op(op_line(cfg, segs), line.clone());
    cx.out.count(&format!("malformed:{}:{}", src, class));
    cx.out.case(&op_line(cfg, segs), true);
    let replay = |what: &str| json!({"op": op_line(cfg, segs), "well_formed_prefix_commands": cmds.len(), "malformed_frame": String::from_utf8_lossy(bad), "class": class, "observed": line, "expected": what, "source": src});
    match &r.end {
        End::Crash(m) => {
            let sig = if class == "huge-key-length" { "C04:crash:recogniser-length-overflow".to_string() } else { format!("C04:crash:{}", class) };
            cx.out.violation(&sig, &format!("the connection handler panicked on a malformed frame ({}): {}", class, m), replay("an error reply"));
            return;
        }
        End::Hang => {
            cx.out.violation(&format!("C04:hang:{}", class), "the connection handler did not finish within 10 s", replay("an error reply"));
            return;
        }
        End::Eof => {}
    }
    // replies to the earlier commands are unchanged
    let twin_cfg = Cfg { min_pipeline: 1 << 40, batch_threshold: 1 << 20, read_size: 8192, max_buffer: 1_000_000 };
    let twin_segs: Vec<Vec<u8>> = cmds.iter().map(|c| frame(&c.iter().map(|a| &a[..]).collect::<Vec<_>>())).collect();
    let t = cx.runner.run(&twin_cfg, &twin_segs);
    let (_, tvals) = line_of(&t);
    if vals.len() < cmds.len() || vals[..cmds.len()] != tvals[..] {
        cx.out.violation(&format!("C04:malformed-alters-earlier-replies:{}", class), "a malformed frame changed (or removed) replies to earlier commands", replay("earlier replies unchanged"));
        return;
    }
    if vals.len() == cmds.len() {
        cx.out.violation(&format!("C04:malformed-silence:{}", class), "a complete malformed frame got no reply at all", replay("an error reply"));
    } else if !matches!(vals[cmds.len()], V::E(_)) {
        cx.out.violation(&format!("C04:malformed-accepted:{}", class), "a malformed frame was executed as a command (data reply instead of an error)", replay("an error reply"));
    }
}

/// one client connection of a pooled case: segments, failing write call
#[derive(Clone)]
struct Conn {
    segs: Vec<Vec<u8>>,
    fail: Option<usize>,
}

fn pooled_op(cfg: &Cfg, pool_size: usize, conns: &[Conn]) -> String {
    let cs: Vec<String> = conns
        .iter()
        .map(|c| {
            let segs: Vec<String> = c.segs.iter().filter(|s| !s.is_empty()).map(|s| hex(s)).collect();
            format!("{}/{}", if segs.is_empty() { "-".to_string() } else { segs.join(",") }, c.fail.map(|f| f.to_string()).unwrap_or("-".into()))
        })
        .collect();
    format!("P {} {} 14 {} {} {} {}", cfg.min_pipeline, cfg.batch_threshold, cfg.read_size, cfg.max_buffer, pool_size, cs.join(";"))
}

/// a sequence of connections served one after the other by ONE server-wide buffer pool (each on a
/// fresh keyspace).  Correspondence: every connection's replies vs the model's pooled server.
/// Oracle: every connection receives exactly the bytes it receives when it is the only
/// connection the server ever had.
fn check_pooled(cx: &mut Cx, cfg: &Cfg, pool_size: usize, conns: &[Conn], src: &str) {
    let pool = Arc::new(ConnectionPool::new(64, pool_size));
    let mut lines = Vec::new();
    let mut bad: Option<(usize, String, String)> = None;
    for (i, c) in conns.iter().enumerate() {
        let r = cx.runner.run_pooled(cfg, &c.segs, c.fail, pool.clone());
        let (line, _) = line_of(&r);
        let solo = cx.runner.run_pooled(cfg, &c.segs, c.fail, Arc::new(ConnectionPool::new(64, pool_size)));
        if (r.written != solo.written || r.end != solo.end) && bad.is_none() {
            let (sl, _) = line_of(&solo);
            bad = Some((i, line.clone(), sl));
        }
        lines.push(line);
    }
    let op = pooled_op(cfg, pool_size, conns);
    cx.out.op(op.clone(), lines.join(" | "));
    cx.out.count(&format!("pooled:{}:pool={}:conns={}", src, pool_size, conns.len()));
    cx.out.case(&op, conns.len() >= 2);
    if let Some((i, got, solo)) = bad {
        cx.out.violation("C04:cross-connection:stale-buffer", &format!("connection {} of a server with a shared buffer pool is answered differently from the same connection on a server that never had another client: bytes left in a pooled buffer by an earlier connection leak into it", i),
            json!({"op": op, "connection": i, "observed": got, "expected_as_when_alone": solo, "all_connections": lines, "source": src}));
    }
}

fn pipeline_conn(cmds: &[Vec<&[u8]>], one_segment: bool) -> Conn {
    let frames: Vec<Vec<u8>> = cmds.iter().map(|c| frame(c)).collect();
    let segs = if one_segment { vec![frames.concat()] } else { frames };
    Conn { segs, fail: None }
}

fn pooled_corpus(cx: &mut Cx) {
    let d = Cfg::default_like();
    let victim = pipeline_conn(&[vec![b"SET", b"k", b"v"], vec![b"GET", b"k"], vec![b"PING"]], true);
    // an earlier client disconnects in the middle of a frame, at every cut position
    let f = frame(&[b"GET", b"abcde"]);
    for cut in 1..f.len() {
        for pool_size in [1usize, 2, 3, 16] {
            if pool_size != 1 && cut % 3 != 0 {
                continue;
            }
            let early = Conn { segs: vec![f[..cut].to_vec()], fail: None };
            check_pooled(cx, &d, pool_size, &[early, victim.clone(), victim.clone()], "corpus:mid-frame");
        }
    }
    // an earlier client stops reading: its replies stay in the write buffer
    let talk = pipeline_conn(&[vec![b"PING"], vec![b"ECHO", b"left-over"], vec![b"PING"]], false);
    for pool_size in [1usize, 2, 3, 4, 16] {
        for fail in [0usize, 1, 2] {
            let early = Conn { segs: talk.segs.clone(), fail: Some(fail) };
            check_pooled(cx, &d, pool_size, &[early, victim.clone(), victim.clone()], "corpus:write-error");
        }
    }
    // an earlier client overflows max_buffer_size: the error reply stays in the write buffer
    let small = Cfg { min_pipeline: 60, batch_threshold: 2, read_size: 8192, max_buffer: 48 };
    let big = Conn { segs: vec![vec![b'x'; 20], vec![b'y'; 40]], fail: None };
    let pings = pipeline_conn(&[vec![b"PING"], vec![b"PING"]], false);
    for pool_size in [1usize, 2, 3, 16] {
        check_pooled(cx, &small, pool_size, &[big.clone(), pings.clone(), pings.clone()], "corpus:overflow");
    }
}

fn pooled_random(cx: &mut Cx, rng: &mut Rng) {
    let cfg = config(rng);
    let pool_size = *rng.pick(&[1usize, 2, 2, 3, 4, 16]);
    let n = rng.range(2, 5) as usize;
    let mut conns = Vec::new();
    for _ in 0..n {
        let (_, stream, bounds) = gen_pipeline(rng);
        let mut segs = segmentation(rng, &stream, &bounds);
        let mut fail = None;
        match rng.below(5) {
            0 => {
                // disconnect mid-stream: keep a random prefix of the bytes
                let total: usize = segs.iter().map(|s| s.len()).sum();
                let keep = rng.below(total as u64 + 1) as usize;
                let mut left = keep;
                let mut cutsegs = Vec::new();
                for sgm in segs {
                    if left == 0 {
                        break;
                    }
                    let k = sgm.len().min(left);
                    cutsegs.push(sgm[..k].to_vec());
                    left -= k;
                }
                segs = cutsegs;
            }
            1 => fail = Some(rng.below(3) as usize),
            _ => {}
        }
        conns.push(Conn { segs, fail });
    }
    check_pooled(cx, &cfg, pool_size, &conns, "random");
}

fn fixed_corpus(cx: &mut Cx) {
    let d = Cfg::default_like();
    let ping = frame(&[b"PING"]);
    // W1: GET look-alike accepted by the fast path
    let bad = b"*2\r\n$3\r\nGET\r\nX$1\r\nk\r\n".to_vec();
    check_malformed(cx, &d, &[], &bad, "get-lookalike", &[bad.clone()], "corpus");
    // W2: the same frame in a buffer above min_pipeline_buffer is consumed by collect_get_keys
    //     and dropped (count 1 < batch_threshold 2): silence
    let mut s = bad.clone();
    for _ in 0..3 {
        s.extend_from_slice(&ping);
    }
    let r = cx.runner.run(&d, &[s.clone()]);
    let (line, vals) = line_of(&r);
    cx.out.op(op_line(&d, &[s.clone()]), line.clone());
    cx.out.case(&op_line(&d, &[s.clone()]), true);
    if vals.len() == 3 {
        cx.out.violation("C04:malformed-silence:get-lookalike", "collect_get_keys consumed a GET look-alike and dropped it (count below batch_threshold): no reply for the frame", json!({"op": op_line(&d, &[s.clone()]), "observed": line, "expected": "4 replies, the first an error"}));
    }
    // the SET recogniser has the same off-by-one
    let bad = b"*3\r\n$3\r\nSET\r\nX$1\r\nk\r\n$1\r\nv\r\n".to_vec();
    check_malformed(cx, &d, &[], &bad, "set-lookalike", &[bad.clone()], "corpus");
    let mut s = bad.clone();
    for _ in 0..3 {
        s.extend_from_slice(&ping);
    }
    let r = cx.runner.run(&d, &[s.clone()]);
    let (line, vals) = line_of(&r);
    cx.out.op(op_line(&d, &[s.clone()]), line.clone());
    cx.out.case(&op_line(&d, &[s.clone()]), true);
    if vals.len() == 3 {
        cx.out.violation("C04:malformed-silence:set-lookalike", "collect_set_pairs consumed a SET look-alike and dropped it (count below batch_threshold): no reply for the frame", json!({"op": op_line(&d, &[s.clone()]), "observed": line, "expected": "4 replies, the first an error"}));
    }
    // W3: wrapping length arithmetic in the recognisers
    let bad = b"*2\r\n$3\r\nGET\r\nX$18446744073709551615\r\nab".to_vec();
    check_malformed(cx, &d, &[], &bad, "huge-key-length", &[bad.clone()], "corpus");
    // W4: the codec's negative bulk length reaches the connection
    let bad = b"$-2\r\n".to_vec();
    check_malformed(cx, &d, &[vec![b"PING".to_vec()]], &bad, "bulk-negative-len", &[ping.clone(), bad.clone()], "corpus");
    // W5: an error reply that embeds client bytes with CR LF is two replies on the wire (oracle only:
    //     the model's reference executor does not produce error texts)
    let inj = frame(&[b"FOO\r\n+INJECTED"]);
    let r = cx.runner.run(&d, &[inj.clone()]);
    let (line, vals) = line_of(&r);
    cx.out.count("corpus:crlf-in-error-reply");
    if vals.len() != 1 {
        cx.out.violation("C04:reply-count:crlf-in-error-reply", "one well-formed command, two replies on the wire: the error text embeds the client's CR LF unescaped", json!({"stream": hex(&inj), "written": hex(&r.written), "observed": line, "expected": "one reply"}));
    }
}

fn run_inner(a: &Args) {
    crate::c15::install_silent_panic_hook();
    let mut cx = Cx { out: Out::new(&a.out), runner: Runner::new() };
    let mut rng = Rng::new(a.seed);
    fixed_corpus(&mut cx);
    pooled_corpus(&mut cx);
    // deterministic sweep: GET/SET runs of depth 1..7 around both thresholds, whole / per-command / 1-byte
    for depth in 1..=7usize {
        for mode in 0..2 {
            for (mp, bt) in [(0usize, 1usize), (0, 2), (60, 2), (70, 6), (60, 6)] {
                let cmds: Vec<Vec<Vec<u8>>> = (0..depth).map(|i| if mode == 0 { vec![b"GET".to_vec(), KEYS[i % 3].to_vec()] } else { vec![b"SET".to_vec(), KEYS[i % 3].to_vec(), format!("v{}", i).into_bytes()] }).collect();
                let mut stream = Vec::new();
                let mut bounds = Vec::new();
                for c in &cmds {
                    stream.extend(frame(&c.iter().map(|a| &a[..]).collect::<Vec<_>>()));
                    bounds.push(stream.len());
                }
                bounds.pop();
                let cfg = Cfg { min_pipeline: mp, batch_threshold: bt, read_size: 8192, max_buffer: 1_000_000 };
                check_wellformed(&mut cx, &cfg, &cmds, &[stream.clone()], "sweep");
                check_wellformed(&mut cx, &cfg, &cmds, &cut(&stream, &bounds), "sweep");
            }
        }
    }
    let mut done = 0;
    while done < a.n {
        done += 1;
        if done % 6 == 0 {
            pooled_random(&mut cx, &mut rng);
            continue;
        }
        let cfg = config(&mut rng);
        let (cmds, stream, bounds) = gen_pipeline(&mut rng);
        if rng.chance(1, 5) {
            let (bad, class) = malformed(&mut rng);
            let mut s = stream.clone();
            s.extend_from_slice(&bad);
            let mut b2 = bounds.clone();
            if !stream.is_empty() {
                b2.push(stream.len());
            }
            // the malformed frame arrives in one piece with or after the prefix; MULTI prefixes are
            // excluded (inside a transaction nothing is executed before EXEC)
            if cmds.iter().any(|c| c[0].eq_ignore_ascii_case(b"MULTI")) {
                continue;
            }
            let segs = if rng.chance(1, 2) { vec![s.clone()] } else { cut(&s, &b2) };
            check_malformed(&mut cx, &cfg, &cmds, &bad, class, &segs, "random");
        } else {
            let segs = segmentation(&mut rng, &stream, &bounds);
            check_wellformed(&mut cx, &cfg, &cmds, &segs, "random");
        }
    }
    cx.out.finish("case = one connection: configuration (min_pipeline_buffer, batch_threshold, read_buffer_size) + network segments of a pipeline of GET/SET/PING/ECHO/MULTI/EXEC/unknown commands (or a well-formed prefix followed by one malformed frame); distinct by canonical op text; non-trivial iff at least 2 commands arrive in at least 2 segments (malformed cases: always)");
}

pub fn run(a: &Args) {
    let a2 = Args { seed: a.seed, n: a.n, out: a.out.clone(), tier: a.tier.clone(), replay: a.replay.clone() };
    std::thread::Builder::new().stack_size(64 << 20).spawn(move || run_inner(&a2)).expect("spawn").join().expect("C04 harness thread panicked");
}
