//! datax — the REAL data structures behind the commands (`RedisSortedSet` + its private `SkipList`,
//! `RedisList`, `SDS`; `RedisSet` / `RedisHash` reference-only) driven directly with operation
//! sequences.  Every operation is one `DS …` op line answered by the transcription models of
//! lean/RedisVerif/Model/{SkipList,DataStructs}.lean (driver: Driver/C01Data.lean); the whole
//! skip-list structure (levels, spans, header spans, `level`, `rng_state`) is read after every
//! mutating op from the `Debug` rendering of the set and compared with the model's.
//! Independently of the model, three oracles run on the real structures:
//!   1. the skip-list structure invariant on the parsed `Debug` text (`C01:data:skiplist-invariant:*`),
//!   2. reference semantics on a naive sorted `Vec` (`C01:data:zset-vs-reference:*`),
//!   3. `VecDeque` / `Vec<u8>` / `BTreeSet` / `BTreeMap` references for list, SDS, set, hash.
//! The `pub fn`s of src/redis/data/*.rs are derived from the source by build.rs
//! (`DATA_PUB_FNS`); `COVERAGE` says how each is driven; a missing entry is a
//! `C01:coverage:data-fn-not-driven:*` case and a driven fn with 0 calls stops the harness.
use crate::enc::hex;
use crate::out::Out;
use crate::rng::Rng;
use redis_sim::redis::{RedisHash, RedisList, RedisSet, RedisSortedSet, SDS};
use serde_json::{json, Value};
use std::collections::{BTreeMap, BTreeSet, VecDeque};
use std::panic::{catch_unwind, AssertUnwindSafe};

include!(concat!(env!("OUT_DIR"), "/data_api_gen.rs"));

const F_SL: &str = "skiplist.rs";
const F_ZS: &str = "sorted_set.rs";
const F_LS: &str = "list.rs";
const F_SD: &str = "sds.rs";
const F_ST: &str = "set.rs";
const F_HS: &str = "hash.rs";

/// (file, fn, how it is driven — or, starting with "NOT driven", why it is not)
const COVERAGE: &[(&str, &str, &str)] = &[
    (F_SL, "new", "via RedisSortedSet::new (DS ZNEW); SkipList itself is not reachable from outside the crate (redis/mod.rs does not re-export it)"),
    (F_SL, "insert", "via RedisSortedSet::add of a new member or with a changed score (DS ZADD)"),
    (F_SL, "remove", "NOT driven: pub fn of a type that is not exported from the crate, no caller in the crate (RedisSortedSet uses remove_with_score): unreachable"),
    (F_SL, "remove_with_score", "via RedisSortedSet::add with a changed score and RedisSortedSet::remove of a present member (DS ZADD / DS ZREM)"),
    (F_SL, "rank", "via RedisSortedSet::rank of a present member (DS ZRANK)"),
    (F_SL, "get_by_rank", "NOT driven: pub fn of a type that is not exported from the crate, no caller in the crate: unreachable"),
    (F_SL, "range", "via RedisSortedSet::range / rev_range with a non-empty normalised window (DS ZRANGE / DS ZREVRANGE)"),
    (F_SL, "rev_range", "via RedisSortedSet::rev_range with a non-empty normalised window (DS ZREVRANGE)"),
    (F_SL, "len", "via RedisSortedSet::skiplist_len / range / rev_range (DS ZSTRUCT, DS ZLEN, DS ZRANGE)"),
    (F_SL, "is_empty", "NOT driven: pub fn of a type that is not exported from the crate, no caller in the crate: unreachable"),
    (F_SL, "iter", "via RedisSortedSet::iter / is_sorted / count_in_range / range_by_score (DS ZITER, DS ZLEN, DS ZCOUNT, DS ZRBS)"),
    (F_ZS, "new", "DS ZNEW"),
    (F_ZS, "add", "DS ZADD"),
    (F_ZS, "remove", "DS ZREM"),
    (F_ZS, "score", "DS ZSCORE"),
    (F_ZS, "rank", "DS ZRANK"),
    (F_ZS, "range", "DS ZRANGE"),
    (F_ZS, "rev_range", "DS ZREVRANGE"),
    (F_ZS, "len", "DS ZSTRUCT / DS ZLEN"),
    (F_ZS, "skiplist_len", "DS ZSTRUCT / DS ZLEN"),
    (F_ZS, "is_empty", "oracle only, next to every DS ZLEN (is_empty() == (len() == 0))"),
    (F_ZS, "is_sorted", "DS ZLEN"),
    (F_ZS, "parse_score_bound", "pub(crate): via count_in_range / range_by_score, (DS ZCOUNT / DS ZRBS; every bound form incl. unparsable ones)"),
    (F_ZS, "count_in_range", "DS ZCOUNT"),
    (F_ZS, "range_by_score", "DS ZRBS (with_scores = true; with_scores = false as oracle only)"),
    (F_ZS, "iter", "DS ZITER"),
    (F_LS, "new", "DS LNEW"),
    (F_LS, "lpush", "DS LPUSH L"),
    (F_LS, "rpush", "DS LPUSH R"),
    (F_LS, "lpop", "DS LPOP L"),
    (F_LS, "rpop", "DS LPOP R"),
    (F_LS, "len", "DS LLEN"),
    (F_LS, "is_empty", "oracle only, next to every DS LLEN"),
    (F_LS, "range", "DS LRANGE / DS LALL"),
    (F_LS, "get", "DS LGET"),
    (F_LS, "set", "DS LSET (never on an empty list: debug_assert precondition, the executor never does)"),
    (F_LS, "trim", "DS LTRIM"),
    (F_SD, "new", "DS SNEW / argument of DS SAPPEND"),
    (F_SD, "from_str", "oracle only: on every DS SNEW with valid UTF-8 bytes, from_str(s) must have the representation of new(bytes)"),
    (F_SD, "len", "DS SREPR"),
    (F_SD, "is_empty", "oracle only, next to every DS SREPR"),
    (F_SD, "as_bytes", "DS SREPR"),
    (F_SD, "as_bytes_mut", "oracle only, next to DS SREPR: same length as as_bytes; a byte written through it is seen by as_bytes (then restored)"),
    (F_SD, "resize", "DS SRESIZE"),
    (F_SD, "to_string", "oracle only, next to every DS SREPR (from_utf8_lossy of the bytes)"),
    (F_SD, "append", "DS SAPPEND / DS SAPPENDH"),
    (F_ST, "new", "direct, reference only (BTreeSet); also through the executor: SADD (C01 generators)"),
    (F_ST, "add", "direct, reference only; executor: SADD"),
    (F_ST, "remove", "direct, reference only; executor: SREM"),
    (F_ST, "contains", "direct, reference only; executor: SISMEMBER"),
    (F_ST, "members", "direct, reference only (as a set); executor: SMEMBERS, SORT"),
    (F_ST, "len", "direct, reference only; executor: SCARD, SREM"),
    (F_ST, "is_empty", "direct, reference only; executor: SREM / SPOP (empty key removal)"),
    (F_ST, "pop", "direct, reference only (relation: some present member, removed); executor: SPOP"),
    (F_ST, "pop_count", "direct, reference only (relation: min(count, len) distinct present members, removed); executor: SPOP count"),
    (F_HS, "new", "direct, reference only (BTreeMap); executor: HSET, HINCRBY"),
    (F_HS, "set", "direct, reference only; executor: HSET, HINCRBY"),
    (F_HS, "get", "direct, reference only; executor: HGET, HINCRBY"),
    (F_HS, "delete", "direct, reference only; executor: HDEL"),
    (F_HS, "exists", "direct, reference only; executor: HEXISTS, HSET"),
    (F_HS, "len", "direct, reference only; executor: HLEN, HDEL, HKEYS"),
    (F_HS, "is_empty", "direct, reference only; executor: HDEL (empty key removal)"),
    (F_HS, "keys", "direct, reference only (as a set); executor: HKEYS"),
    (F_HS, "values", "direct, reference only (as a multiset); executor: HVALS"),
    (F_HS, "get_all", "direct, reference only (as a map); executor: HGETALL"),
    (F_HS, "iter", "direct, reference only (as a map); executor: HSCAN (generated by C17 only, not by C01)"),
];

/// how a `pub fn` of src/redis/data/<file> is driven, or why it is not; `None` = not accounted for
fn data_coverage(file: &str, name: &str) -> Option<&'static str> {
    COVERAGE.iter().find(|(f, n, _)| *f == file && *n == name).map(|(_, _, h)| *h)
}

fn is_driven(how: &str) -> bool {
    !how.starts_with("NOT driven")
}

/// run a call into the real code; `None` = it panicked
fn guard<T>(f: impl FnOnce() -> T) -> Option<T> {
    catch_unwind(AssertUnwindSafe(f)).ok()
}

/// score token of the line protocol (`inf` | `-inf` | decimal integer); anything else is rendered
/// as `?<debug>` so that it can never agree with the model silently
fn sc_tok(x: f64) -> String {
    if x == f64::INFINITY {
        "inf".into()
    } else if x == f64::NEG_INFINITY {
        "-inf".into()
    } else if x.fract() == 0.0 && x.abs() < 9007199254740992.0 && !(x == 0.0 && x.is_sign_negative()) {
        format!("{}", x as i64)
    } else {
        format!("?{:?}", x)
    }
}

fn same_f(a: f64, b: f64) -> bool {
    a.to_bits() == b.to_bits()
}

// ------------------------------------------------------------------------------------------------
// the Debug rendering of RedisSortedSet, parsed
// ------------------------------------------------------------------------------------------------

#[derive(Debug, Clone)]
pub struct PNode {
    pub member: String,
    pub score: f64,
    /// (forward, span) per level
    pub levels: Vec<(Option<usize>, usize)>,
    pub backward: Option<usize>,
}

#[derive(Debug, Clone)]
pub struct PZ {
    pub members: Vec<(String, f64)>,
    pub nodes: Vec<Option<PNode>>,
    pub free_slots: Vec<usize>,
    pub tail: Option<usize>,
    pub level: usize,
    pub length: usize,
    pub rng_state: u64,
}

struct P<'a> {
    b: &'a [u8],
    i: usize,
}

type PR<T> = Result<T, String>;

impl<'a> P<'a> {
    fn ws(&mut self) {
        while self.i < self.b.len() && (self.b[self.i] == b' ' || self.b[self.i] == b'\n') {
            self.i += 1;
        }
    }
    fn err<T>(&self, what: &str) -> PR<T> {
        let lo = self.i.saturating_sub(40);
        let hi = (self.i + 40).min(self.b.len());
        Err(format!("{} at byte {}: …{}⟨here⟩{}…", what, self.i, String::from_utf8_lossy(&self.b[lo..self.i]), String::from_utf8_lossy(&self.b[self.i..hi])))
    }
    fn eat(&mut self, s: &str) -> bool {
        self.ws();
        if self.b[self.i..].starts_with(s.as_bytes()) {
            self.i += s.len();
            true
        } else {
            false
        }
    }
    fn lit(&mut self, s: &str) -> PR<()> {
        if self.eat(s) {
            Ok(())
        } else {
            self.err(&format!("expected `{}`", s))
        }
    }
    fn lits(&mut self, ss: &[&str]) -> PR<()> {
        for s in ss {
            self.lit(s)?;
        }
        Ok(())
    }
    fn word(&mut self) -> &'a str {
        self.ws();
        let st = self.i;
        while self.i < self.b.len() && (self.b[self.i].is_ascii_alphanumeric() || matches!(self.b[self.i], b'+' | b'-' | b'.')) {
            self.i += 1;
        }
        std::str::from_utf8(&self.b[st..self.i]).unwrap_or("")
    }
    fn num<T: std::str::FromStr>(&mut self) -> PR<T> {
        let st = self.i;
        let w = self.word();
        match w.parse::<T>() {
            Ok(v) => Ok(v),
            Err(_) => {
                self.i = st;
                self.err("expected a number")
            }
        }
    }
    fn opt_usize(&mut self) -> PR<Option<usize>> {
        if self.eat("None") {
            return Ok(None);
        }
        self.lit("Some(")?;
        let v = self.num::<usize>()?;
        self.lit(")")?;
        Ok(Some(v))
    }
    /// a Rust `{:?}` string literal
    fn string(&mut self) -> PR<String> {
        self.lit("\"")?;
        let mut o: Vec<u8> = Vec::new();
        loop {
            if self.i >= self.b.len() {
                return self.err("unterminated string");
            }
            let c = self.b[self.i];
            self.i += 1;
            match c {
                b'"' => break,
                b'\\' => {
                    if self.i >= self.b.len() {
                        return self.err("dangling escape");
                    }
                    let e = self.b[self.i];
                    self.i += 1;
                    match e {
                        b'"' => o.push(b'"'),
                        b'\\' => o.push(b'\\'),
                        b'\'' => o.push(b'\''),
                        b'n' => o.push(b'\n'),
                        b'r' => o.push(b'\r'),
                        b't' => o.push(b'\t'),
                        b'0' => o.push(0),
                        b'u' => {
                            self.lit("{")?;
                            let st = self.i;
                            while self.i < self.b.len() && self.b[self.i].is_ascii_hexdigit() {
                                self.i += 1;
                            }
                            let h = std::str::from_utf8(&self.b[st..self.i]).unwrap_or("");
                            let cp = match u32::from_str_radix(h, 16).ok().and_then(char::from_u32) {
                                Some(c) => c,
                                None => return self.err("bad \\u{..} escape"),
                            };
                            self.lit("}")?;
                            let mut buf = [0u8; 4];
                            o.extend_from_slice(cp.encode_utf8(&mut buf).as_bytes());
                        }
                        _ => return self.err("unknown escape"),
                    }
                }
                _ => o.push(c),
            }
        }
        match String::from_utf8(o) {
            Ok(s) => Ok(s),
            Err(_) => self.err("string literal is not UTF-8"),
        }
    }
    /// `open item, item, … close` (no trailing comma in `{:?}`)
    fn list<T>(&mut self, open: &str, close: &str, mut item: impl FnMut(&mut Self) -> PR<T>) -> PR<Vec<T>> {
        self.lit(open)?;
        let mut v = Vec::new();
        if self.eat(close) {
            return Ok(v);
        }
        loop {
            v.push(item(self)?);
            if self.eat(",") {
                continue;
            }
            self.lit(close)?;
            return Ok(v);
        }
    }
    fn node(&mut self) -> PR<Option<PNode>> {
        if self.eat("None") {
            return Ok(None);
        }
        self.lits(&["Some(", "SkipListNode", "{", "member:"])?;
        let member = self.string()?;
        self.lits(&[",", "score:"])?;
        let score = self.num::<f64>()?;
        self.lits(&[",", "levels:"])?;
        let levels = self.list("[", "]", |p| {
            p.lits(&["SkipListLevel", "{", "forward:"])?;
            let f = p.opt_usize()?;
            p.lits(&[",", "span:"])?;
            let s = p.num::<usize>()?;
            p.lit("}")?;
            Ok((f, s))
        })?;
        self.lits(&[",", "backward:"])?;
        let backward = self.opt_usize()?;
        self.lits(&["}", ")"])?;
        Ok(Some(PNode { member, score, levels, backward }))
    }
}

pub fn parse_zset_debug(text: &str) -> Result<PZ, String> {
    let mut p = P { b: text.as_bytes(), i: 0 };
    p.lits(&["RedisSortedSet", "{", "members:"])?;
    let members = p.list("{", "}", |p| {
        let k = p.string()?;
        p.lit(":")?;
        let v = p.num::<f64>()?;
        Ok((k, v))
    })?;
    p.lits(&[",", "skiplist:", "SkipList", "{", "nodes:"])?;
    let nodes = p.list("[", "]", |p| p.node())?;
    p.lits(&[",", "free_slots:"])?;
    let free_slots = p.list("[", "]", |p| p.num::<usize>())?;
    p.lits(&[",", "tail:"])?;
    let tail = p.opt_usize()?;
    p.lits(&[",", "level:"])?;
    let level = p.num::<usize>()?;
    p.lits(&[",", "length:"])?;
    let length = p.num::<usize>()?;
    p.lits(&[",", "rng_state:"])?;
    let rng_state = p.num::<u64>()?;
    p.lits(&["}", "}"])?;
    p.ws();
    if p.i != p.b.len() {
        return p.err("trailing text");
    }
    Ok(PZ { members, nodes, free_slots, tail, level, length, rng_state })
}

/// order of the skip list: (score, then member bytes)
fn key_lt(a: (f64, &[u8]), b: (f64, &[u8])) -> bool {
    match a.0.partial_cmp(&b.0) {
        Some(std::cmp::Ordering::Less) => true,
        Some(std::cmp::Ordering::Equal) => a.1 < b.1,
        _ => false,
    }
}

/// oracle 1: the structure invariant; returns the arena indices in level-0 order and the failures
pub fn check_invariants(p: &PZ) -> (Vec<usize>, Vec<(&'static str, String)>) {
    let mut bad: Vec<(&'static str, String)> = Vec::new();
    let mut order: Vec<usize> = Vec::new();
    let hdr = match p.nodes.first() {
        Some(Some(h)) => h,
        _ => {
            bad.push(("header-missing", "nodes[0] is not Some".into()));
            return (order, bad);
        }
    };
    if hdr.levels.len() != 32 {
        bad.push(("header-levels", format!("header has {} levels, not 32", hdr.levels.len())));
        return (order, bad);
    }
    // level-0 walk
    let mut cur = hdr.levels[0].0;
    while let Some(i) = cur {
        if order.len() > p.nodes.len() {
            bad.push(("level0-cycle", "following levels[0].forward does not terminate".into()));
            return (order, bad);
        }
        match p.nodes.get(i) {
            Some(Some(n)) if i != 0 && !n.levels.is_empty() => {
                order.push(i);
                cur = n.levels[0].0;
            }
            _ => {
                bad.push(("dangling-forward", format!("levels[0].forward = {} is the header, a free slot, out of range or a node without levels", i)));
                return (order, bad);
            }
        }
    }
    if order.len() != p.length {
        bad.push(("length", format!("level-0 walk visits {} nodes, length = {}", order.len(), p.length)));
    }
    let node = |pos: usize| -> &PNode { p.nodes[if pos == 0 { 0 } else { order[pos - 1] }].as_ref().unwrap() };
    let n = order.len();
    // strictly increasing keys, heights
    let mut maxh = 1usize;
    for pos in 1..=n {
        let h = node(pos).levels.len();
        if h == 0 || h > 32 {
            bad.push(("height", format!("node {:?} has {} levels", node(pos).member, h)));
        }
        maxh = maxh.max(h);
        if node(pos).score.is_nan() {
            bad.push(("nan-score", format!("node {:?}", node(pos).member)));
        }
        if pos >= 2 {
            let (a, b) = (node(pos - 1), node(pos));
            if !key_lt((a.score, a.member.as_bytes()), (b.score, b.member.as_bytes())) {
                bad.push(("order", format!("({:?},{:?}) is not below ({:?},{:?})", a.score, a.member, b.score, b.member)));
            }
        }
    }
    if p.level != maxh {
        bad.push(("level", format!("level = {}, max(1, tallest node) = {}", p.level, maxh)));
    }
    // forward / span of every (node, level)
    let height = |pos: usize| if pos == 0 { p.level.min(32) } else { node(pos).levels.len() };
    // next[i] while scanning from the right = nearest position to the right with more than i levels
    let mut next: Vec<Option<usize>> = vec![None; 33];
    for pos in (0..=n).rev() {
        for i in 0..height(pos).min(32) {
            let (f, s) = node(pos).levels[i];
            let (ef, es) = match next[i] {
                Some(q) => (Some(order[q - 1]), q - pos),
                None => (None, n - pos),
            };
            if f != ef {
                bad.push(("forward", format!("position {} level {}: forward = {:?}, expected {:?}", pos, i, f, ef)));
            }
            if s != es {
                bad.push(("span", format!("position {} level {}: span = {}, expected {}", pos, i, s, es)));
            }
        }
        if pos > 0 {
            for i in 0..node(pos).levels.len().min(32) {
                next[i] = Some(pos);
            }
        }
    }
    for i in p.level.min(32)..32 {
        if hdr.levels[i].0.is_some() {
            bad.push(("header-forward-above-level", format!("header level {} (>= level {}) has forward {:?}", i, p.level, hdr.levels[i].0)));
        }
    }
    // backward, tail
    for pos in 1..=n {
        let eb = if pos == 1 { None } else { Some(order[pos - 2]) };
        if node(pos).backward != eb {
            bad.push(("backward", format!("position {}: backward = {:?}, expected {:?}", pos, node(pos).backward, eb)));
        }
    }
    if hdr.backward.is_some() {
        bad.push(("backward", format!("header backward = {:?}", hdr.backward)));
    }
    if p.tail != order.last().copied() {
        bad.push(("tail", format!("tail = {:?}, last node = {:?}", p.tail, order.last())));
    }
    // arena: free slots = exactly the None slots, live slots = exactly the walk
    let none_slots: BTreeSet<usize> = p.nodes.iter().enumerate().filter(|(_, x)| x.is_none()).map(|(i, _)| i).collect();
    let free: BTreeSet<usize> = p.free_slots.iter().copied().collect();
    if free.len() != p.free_slots.len() {
        bad.push(("free-slots-duplicate", format!("{:?}", p.free_slots)));
    }
    if free != none_slots {
        bad.push(("free-slots", format!("free_slots = {:?}, None slots = {:?}", p.free_slots, none_slots)));
    }
    let live: BTreeSet<usize> = p.nodes.iter().enumerate().filter(|(i, x)| *i != 0 && x.is_some()).map(|(i, _)| i).collect();
    let walked: BTreeSet<usize> = order.iter().copied().collect();
    if live != walked || walked.len() != order.len() {
        bad.push(("unreachable-node", format!("live slots {:?}, reached {:?}", live, order)));
    }
    // members map
    let mut mm: Vec<(&str, u64)> = p.members.iter().map(|(k, v)| (k.as_str(), v.to_bits())).collect();
    let mut lm: Vec<(&str, u64)> = (1..=n).map(|pos| (node(pos).member.as_str(), node(pos).score.to_bits())).collect();
    mm.sort();
    lm.sort();
    if mm != lm {
        bad.push(("members-map", format!("members map has {} entries, list {}; first difference: {:?}", mm.len(), lm.len(), mm.iter().zip(lm.iter()).find(|(a, b)| a != b))));
    }
    (order, bad)
}

// ------------------------------------------------------------------------------------------------
// shared state of the data pass
// ------------------------------------------------------------------------------------------------

pub struct Dx<'a> {
    out: &'a mut Out,
    calls: BTreeMap<(&'static str, &'static str), u64>,
    sequences: u64,
    ops: u64,
    max_level: usize,
    max_len: usize,
    heights: [u64; 33],
}

impl<'a> Dx<'a> {
    fn hit(&mut self, file: &'static str, name: &'static str) {
        *self.calls.entry((file, name)).or_insert(0) += 1;
    }
    fn hits(&mut self, file: &'static str, names: &[&'static str]) {
        for n in names {
            self.hit(file, n);
        }
    }
}

/// the index classes of a range end, relative to the current length `n`
const IDX_CLASSES: [&str; 11] = ["isize-min", "-n-1", "-n", "-n+1", "-1", "0", "1", "n-1", "n", "n+1", "isize-max"];

fn idx_of_class(c: usize, n: usize) -> isize {
    let n = n as isize;
    match c {
        0 => isize::MIN,
        1 => -n - 1,
        2 => -n,
        3 => -n + 1,
        4 => -1,
        5 => 0,
        6 => 1,
        7 => n - 1,
        8 => n,
        9 => n + 1,
        _ => isize::MAX,
    }
}

/// Redis index normalisation written independently (i128): inclusive window or None
fn norm_window(len: usize, a: isize, b: isize) -> Option<(usize, usize)> {
    let len = len as i128;
    let (mut s, mut e) = (a as i128, b as i128);
    if s < 0 {
        s += len;
    }
    if e < 0 {
        e += len;
    }
    if s < 0 {
        s = 0;
    }
    if s > e || s >= len {
        return None;
    }
    if e >= len {
        e = len - 1;
    }
    Some((s as usize, e as usize))
}

/// one bound of ZCOUNT / ZRBS: the op-line token, the string handed to the real code, its meaning
#[derive(Clone, Debug)]
struct Bd {
    tok: String,
    real: String,
    val: Option<(f64, bool)>,
}

fn in_bounds(lo: (f64, bool), hi: (f64, bool), s: f64) -> bool {
    (if lo.1 { s > lo.0 } else { s >= lo.0 }) && (if hi.1 { s < hi.0 } else { s <= hi.0 })
}

fn gen_bound(rng: &mut Rng, scores: &[f64]) -> Bd {
    let k = rng.below(20);
    if k == 0 {
        let real = *rng.pick(&["abc", "1x", "(x"]);
        return Bd { tok: "bad".into(), real: real.into(), val: None };
    }
    let excl = rng.chance(2, 5);
    let v: f64 = if k <= 3 {
        f64::NEG_INFINITY
    } else if k <= 6 {
        f64::INFINITY
    } else if !scores.is_empty() && k <= 16 {
        let s = *rng.pick(scores);
        if s.is_infinite() {
            s
        } else {
            // at / just below / just above an existing score
            let d = [0.0, -1.0, 1.0][rng.below(3) as usize];
            let x = s + d;
            if x.abs() < 9007199254740992.0 {
                x
            } else {
                s
            }
        }
    } else {
        rng.range(0, 12) as f64 - 5.0
    };
    let body = if v == f64::INFINITY {
        if excl || rng.chance(1, 2) {
            "inf".to_string()
        } else {
            "+inf".to_string()
        }
    } else if v == f64::NEG_INFINITY {
        "-inf".to_string()
    } else {
        format!("{}", v as i64)
    };
    let mut real = if excl { format!("({}", body) } else { body };
    if rng.chance(1, 25) {
        // parse_score_bound trims
        real = format!(" {} ", real);
    }
    Bd { tok: format!("{}{}", if excl { "e" } else { "i" }, sc_tok(v)), real, val: Some((v, excl)) }
}

// ------------------------------------------------------------------------------------------------
// sorted set: one sequence on one real RedisSortedSet + the naive reference
// ------------------------------------------------------------------------------------------------

struct ZRun<'d, 'a> {
    d: &'d mut Dx<'a>,
    z: RedisSortedSet,
    /// reference: sorted by (score, member bytes)
    refv: Vec<(f64, Vec<u8>)>,
    /// the ops of the sequence except the pure dumps (for the replay of a case)
    muts: Vec<String>,
    canon: String,
    max_members: usize,
    nonempty_read: bool,
    dead: bool,
    /// emit the structure dump after every `struct_every`-th mutating op (1 = every)
    struct_every: usize,
    since_struct: usize,
    dump_chance: u64,
    last: Option<PZ>,
}

fn pairs_line(v: &[(Vec<u8>, f64)]) -> String {
    let mut s = format!("*{}", v.len());
    for (m, sc) in v {
        s.push(' ');
        s.push_str(&hex(m));
        s.push(' ');
        s.push_str(&sc_tok(*sc));
    }
    s
}

impl<'d, 'a> ZRun<'d, 'a> {
    fn new(d: &'d mut Dx<'a>) -> Self {
        d.hit(F_ZS, "new");
        d.hit(F_SL, "new");
        let z = RedisSortedSet::new();
        let mut r = ZRun { d, z, refv: Vec::new(), muts: Vec::new(), canon: String::new(), max_members: 0, nonempty_read: false, dead: false, struct_every: 1, since_struct: 0, dump_chance: 3, last: None };
        r.emit("DS ZNEW".into(), "ok".into(), true);
        r
    }
    fn emit(&mut self, op: String, ans: String, keep: bool) {
        if keep {
            self.canon.push_str(&op);
            self.canon.push('\n');
            self.muts.push(op.clone());
        }
        self.d.ops += 1;
        self.d.out.op(op, ans);
    }
    fn replay(&self, op: &str) -> Value {
        json!({"structure": "RedisSortedSet", "ops": self.muts, "failing_op": op})
    }
    fn viol(&mut self, sig: &str, what: String, op: &str) {
        let rp = self.replay(op);
        self.d.out.violation(&format!("C01:data:{}", sig), &what, rp);
    }
    fn panic(&mut self, opname: &str, op: &str) {
        self.dead = true;
        self.viol(&format!("panic:{}", opname), format!("RedisSortedSet::{} panicked", opname), op);
    }
    fn ref_find(&self, m: &[u8]) -> Option<usize> {
        self.refv.iter().position(|(_, x)| x.as_slice() == m)
    }
    fn ref_insert(&mut self, m: &[u8], sc: f64) {
        let pos = self.refv.iter().position(|(s, x)| key_lt((sc, m), (*s, x.as_slice()))).unwrap_or(self.refv.len());
        self.refv.insert(pos, (sc, m.to_vec()));
        self.max_members = self.max_members.max(self.refv.len());
        self.d.max_len = self.d.max_len.max(self.refv.len());
    }
    fn ref_pairs(&self) -> Vec<(Vec<u8>, f64)> {
        self.refv.iter().map(|(s, m)| (m.clone(), *s)).collect()
    }
    fn scores(&self) -> Vec<f64> {
        self.refv.iter().map(|(s, _)| *s).collect()
    }

    fn zadd(&mut self, m: &[u8], sc: f64) {
        if self.dead {
            return;
        }
        let op = format!("DS ZADD {} {}", hex(m), sc_tok(sc));
        let old = self.ref_find(m).map(|i| self.refv[i].0);
        let what = match old {
            None => "add-new",
            Some(o) if same_f(o, sc) => "readd-same-score",
            Some(o) if o.is_infinite() => "update-from-inf",
            Some(_) if sc.is_infinite() => "update-to-inf",
            Some(o) if sc < o => "update-lower",
            Some(_) => "update-higher",
        };
        self.d.out.count(&format!("data:z:{}", what));
        self.d.hit(F_ZS, "add");
        match old {
            None => self.d.hit(F_SL, "insert"),
            Some(o) if !same_f(o, sc) => self.d.hits(F_SL, &["remove_with_score", "insert"]),
            _ => {}
        }
        let z = &mut self.z;
        let r = guard(|| z.add(SDS::new(m.to_vec()), sc));
        match r {
            None => {
                self.emit(op.clone(), "crash".into(), true);
                self.panic("add", &op);
            }
            Some(b) => {
                self.emit(op.clone(), if b { "1".into() } else { "0".into() }, true);
                if b != old.is_none() {
                    self.viol("zset-vs-reference:add", format!("add returned {} for a member that was {}", b, if old.is_none() { "absent" } else { "present" }), &op);
                }
                if let Some(i) = self.ref_find(m) {
                    self.refv.remove(i);
                }
                self.ref_insert(m, sc);
                let inserted = old.map(|o| !same_f(o, sc)).unwrap_or(true);
                self.after_mut(&op, if inserted { Some(m) } else { None });
            }
        }
    }

    fn zrem(&mut self, m: &[u8]) {
        if self.dead {
            return;
        }
        let op = format!("DS ZREM {}", hex(m));
        let present = self.ref_find(m);
        self.d.out.count(if present.is_some() { "data:z:remove-present" } else { "data:z:remove-absent" });
        self.d.hit(F_ZS, "remove");
        if present.is_some() {
            self.d.hit(F_SL, "remove_with_score");
        }
        let z = &mut self.z;
        let key = SDS::new(m.to_vec());
        match guard(|| z.remove(&key)) {
            None => {
                self.emit(op.clone(), "crash".into(), true);
                self.panic("remove", &op);
            }
            Some(b) => {
                self.emit(op.clone(), if b { "1".into() } else { "0".into() }, true);
                if b != present.is_some() {
                    self.viol("zset-vs-reference:remove", format!("remove returned {} for a member that was {}", b, if present.is_some() { "present" } else { "absent" }), &op);
                }
                if let Some(i) = present {
                    self.refv.remove(i);
                }
                self.after_mut(&op, None);
            }
        }
    }

    /// after every mutating op: structure dump (+ invariant), cheap reference checks, sometimes ZITER + ZLEN
    fn after_mut(&mut self, op: &str, inserted: Option<&[u8]>) {
        self.since_struct += 1;
        if self.since_struct >= self.struct_every {
            self.since_struct = 0;
            self.zstruct(op, inserted);
        }
        // reference (no op line): iteration order and length
        self.d.hits(F_ZS, &["iter", "len"]);
        self.d.hit(F_SL, "iter");
        let z = &self.z;
        let got = guard(|| (z.iter().map(|(m, s)| (m.as_bytes().to_vec(), s)).collect::<Vec<_>>(), z.len()));
        match got {
            None => self.panic("iter", op),
            Some((it, len)) => {
                let want = self.ref_pairs();
                if it.len() != want.len() || it.iter().zip(want.iter()).any(|(a, b)| a.0 != b.0 || !same_f(a.1, b.1)) {
                    self.viol("zset-vs-reference:iter", format!("iter() after {} is not the sorted reference: got {} want {}", op, pairs_line(&it), pairs_line(&want)), op);
                }
                if len != want.len() {
                    self.viol("zset-vs-reference:len", format!("len() = {}, reference {}", len, want.len()), op);
                }
            }
        }
        if !self.dead && self.d.out_chance(self.dump_chance) {
            self.ziter();
            self.zlen();
        }
    }

    fn zstruct(&mut self, op: &str, inserted: Option<&[u8]>) {
        if self.dead {
            return;
        }
        self.d.hits(F_ZS, &["len", "skiplist_len"]);
        self.d.hit(F_SL, "len");
        let z = &self.z;
        let got = guard(|| (format!("{:?}", z), z.len(), z.skiplist_len()));
        let (text, len, slen) = match got {
            None => {
                self.emit("DS ZSTRUCT".into(), "crash".into(), false);
                self.panic("debug", op);
                return;
            }
            Some(x) => x,
        };
        let p = match parse_zset_debug(&text) {
            Ok(p) => p,
            Err(e) => {
                let mut t = text.clone();
                t.truncate(2000);
                self.viol("debug-parse-failed", format!("the Debug rendering of RedisSortedSet is not of the shape this harness reads ({}): {}", e, t), op);
                eprintln!("datax: cannot parse the Debug rendering of RedisSortedSet: {}", e);
                // the case is on record in memory only: write what we have, then stop
                std::process::exit(3);
            }
        };
        let (order, bad) = check_invariants(&p);
        let mut seen: BTreeSet<&'static str> = BTreeSet::new();
        for (which, detail) in bad {
            if seen.insert(which) {
                // `backward`, `tail`, `free_slots` are written but never read by any public function
                // (the arena indices are not observable either): an inconsistency there cannot reach
                // a command's reply — recorded in the evidence, not a violation of the property
                if matches!(which, "backward" | "tail" | "free-slots" | "free-slots-duplicate") {
                    self.d.out.count(&format!("data:z:dead-state-inconsistent:{}", which));
                    continue;
                }
                self.viol(&format!("skiplist-invariant:{}", which), format!("after {}: {}", op, detail), op);
            }
        }
        if p.length != slen || p.members.len() != len {
            self.viol("skiplist-invariant:len-accessors", format!("len() = {} / members map {}; skiplist_len() = {} / length {}", len, p.members.len(), slen, p.length), op);
        }
        let hdr_spans: Vec<String> = match &p.nodes.first() {
            Some(Some(h)) => h.levels.iter().take(p.level).map(|l| l.1.to_string()).collect(),
            _ => Vec::new(),
        };
        let mut line = format!("len={} slen={} level={} rng={:016x} hdr={} T {}", len, slen, p.level, p.rng_state, if hdr_spans.is_empty() { "-".to_string() } else { hdr_spans.join(",") }, order.len());
        for &i in &order {
            let n = p.nodes[i].as_ref().unwrap();
            let spans: Vec<String> = n.levels.iter().map(|l| l.1.to_string()).collect();
            line.push_str(&format!(" {} {} {}", hex(n.member.as_bytes()), sc_tok(n.score), if spans.is_empty() { "-".to_string() } else { spans.join(",") }));
            if let Some(m) = inserted {
                if n.member.as_bytes() == m {
                    self.d.heights[n.levels.len().min(32)] += 1;
                }
            }
        }
        self.d.max_level = self.d.max_level.max(p.level);
        self.emit("DS ZSTRUCT".into(), line, false);
        self.last = Some(p);
    }

    fn ziter(&mut self) {
        if self.dead {
            return;
        }
        self.d.hit(F_ZS, "iter");
        self.d.hit(F_SL, "iter");
        let z = &self.z;
        match guard(|| z.iter().map(|(m, s)| (m.as_bytes().to_vec(), s)).collect::<Vec<_>>()) {
            None => {
                self.emit("DS ZITER".into(), "crash".into(), false);
                self.panic("iter", "DS ZITER");
            }
            Some(it) => {
                if !it.is_empty() {
                    self.nonempty_read = true;
                }
                self.emit("DS ZITER".into(), pairs_line(&it), false);
            }
        }
    }

    fn zlen(&mut self) {
        if self.dead {
            return;
        }
        self.d.hits(F_ZS, &["len", "skiplist_len", "is_sorted", "is_empty"]);
        self.d.hits(F_SL, &["len", "iter"]);
        let z = &self.z;
        match guard(|| (z.len(), z.skiplist_len(), z.is_sorted(), z.is_empty())) {
            None => {
                self.emit("DS ZLEN".into(), "crash".into(), false);
                self.panic("len", "DS ZLEN");
            }
            Some((l, sl, sorted, empty)) => {
                self.emit("DS ZLEN".into(), format!("len={} slen={} sorted={}", l, sl, if sorted { 1 } else { 0 }), false);
                if l != self.refv.len() || sl != self.refv.len() || !sorted || empty != self.refv.is_empty() {
                    self.viol("zset-vs-reference:len", format!("len() = {}, skiplist_len() = {}, is_sorted() = {}, is_empty() = {}; reference has {} members", l, sl, sorted, empty, self.refv.len()), "DS ZLEN");
                }
            }
        }
    }

    fn zscore(&mut self, m: &[u8]) {
        if self.dead {
            return;
        }
        let op = format!("DS ZSCORE {}", hex(m));
        self.d.hit(F_ZS, "score");
        let z = &self.z;
        let key = SDS::new(m.to_vec());
        match guard(|| z.score(&key)) {
            None => {
                self.emit(op.clone(), "crash".into(), true);
                self.panic("score", &op);
            }
            Some(r) => {
                let want = self.ref_find(m).map(|i| self.refv[i].0);
                self.d.out.count(if want.is_some() { "data:z:score-present" } else { "data:z:score-absent" });
                if r.is_some() {
                    self.nonempty_read = true;
                }
                self.emit(op.clone(), r.map(sc_tok).unwrap_or("_".into()), true);
                if r.map(f64::to_bits) != want.map(f64::to_bits) {
                    self.viol("zset-vs-reference:score", format!("score = {:?}, reference {:?}", r, want), &op);
                }
            }
        }
    }

    fn zrank(&mut self, m: &[u8]) {
        if self.dead {
            return;
        }
        let op = format!("DS ZRANK {}", hex(m));
        let want = self.ref_find(m);
        self.d.hit(F_ZS, "rank");
        if want.is_some() {
            self.d.hit(F_SL, "rank");
        }
        let z = &self.z;
        let key = SDS::new(m.to_vec());
        match guard(|| z.rank(&key)) {
            None => {
                self.emit(op.clone(), "crash".into(), true);
                self.panic("rank", &op);
            }
            Some(r) => {
                self.d.out.count(if want.is_some() { "data:z:rank-present" } else { "data:z:rank-absent" });
                if r.is_some() {
                    self.nonempty_read = true;
                }
                self.emit(op.clone(), r.map(|x| format!(":{}", x)).unwrap_or("_".into()), true);
                if r != want {
                    self.viol("zset-vs-reference:rank", format!("rank = {:?}, index in the sorted reference {:?}", r, want), &op);
                }
            }
        }
    }

    fn zrange(&mut self, a: isize, b: isize, rev: bool) {
        if self.dead {
            return;
        }
        let name = if rev { "rev_range" } else { "range" };
        let op = format!("DS {} {} {}", if rev { "ZREVRANGE" } else { "ZRANGE" }, a, b);
        let win = norm_window(self.refv.len(), a, b);
        self.d.hit(F_ZS, name);
        self.d.hit(F_SL, "len");
        if win.is_some() {
            self.d.hit(F_SL, "range");
            if rev {
                self.d.hit(F_SL, "rev_range");
            }
        }
        let z = &self.z;
        let got = guard(|| if rev { z.rev_range(a, b) } else { z.range(a, b) });
        match got {
            None => {
                self.emit(op.clone(), "crash".into(), true);
                self.panic(name, &op);
            }
            Some(v) => {
                let v: Vec<(Vec<u8>, f64)> = v.into_iter().map(|(m, s)| (m.as_bytes().to_vec(), s)).collect();
                let mut all = self.ref_pairs();
                if rev {
                    all.reverse();
                }
                let want: Vec<(Vec<u8>, f64)> = match win {
                    None => Vec::new(),
                    Some((s, e)) => all[s..=e].to_vec(),
                };
                self.d.out.count(if want.is_empty() { "data:z:range-empty" } else { "data:z:range-nonempty" });
                if !v.is_empty() {
                    self.nonempty_read = true;
                }
                self.emit(op.clone(), pairs_line(&v), true);
                if v.len() != want.len() || v.iter().zip(want.iter()).any(|(x, y)| x.0 != y.0 || !same_f(x.1, y.1)) {
                    self.viol(&format!("zset-vs-reference:{}", name), format!("{}({}, {}) on {} members = {}, reference {}", name, a, b, self.refv.len(), pairs_line(&v), pairs_line(&want)), &op);
                }
            }
        }
    }

    fn zcount(&mut self, lo: &Bd, hi: &Bd) {
        if self.dead {
            return;
        }
        let op = format!("DS ZCOUNT {} {}", lo.tok, hi.tok);
        self.d.hits(F_ZS, &["count_in_range", "parse_score_bound"]);
        if lo.val.is_some() && hi.val.is_some() {
            self.d.hit(F_SL, "iter");
        }
        let z = &self.z;
        match guard(|| z.count_in_range(&lo.real, &hi.real)) {
            None => {
                self.emit(op.clone(), "crash".into(), true);
                self.panic("count_in_range", &op);
            }
            Some(r) => {
                let want: Result<usize, ()> = match (lo.val, hi.val) {
                    (Some(l), Some(h)) => Ok(self.refv.iter().filter(|(s, _)| in_bounds(l, h, *s)).count()),
                    _ => Err(()),
                };
                self.d.out.count(match &want {
                    Err(_) => "data:z:count-bad-bound",
                    Ok(0) => "data:z:count-zero",
                    Ok(_) => "data:z:count-positive",
                });
                if matches!(r, Ok(n) if n > 0) {
                    self.nonempty_read = true;
                }
                let ans = match &r {
                    Ok(n) => format!(":{}", n),
                    Err(e) if e == "ERR min or max is not a float" => "-notfloat".to_string(),
                    Err(e) => format!("-?{}", e.replace(' ', "_")),
                };
                self.emit(op.clone(), ans, true);
                if r.clone().map_err(|_| ()) != want {
                    self.viol("zset-vs-reference:count_in_range", format!("count_in_range({:?}, {:?}) = {:?}, reference {:?}", lo.real, hi.real, r, want), &op);
                }
            }
        }
    }

    fn zrbs(&mut self, lo: &Bd, hi: &Bd, limit: Option<(isize, usize)>) {
        if self.dead {
            return;
        }
        let op = format!("DS ZRBS {} {} {}", lo.tok, hi.tok, match limit {
            None => "-".to_string(),
            Some((o, c)) => format!("{} {}", o, c),
        });
        self.d.hits(F_ZS, &["range_by_score", "range_by_score", "parse_score_bound", "parse_score_bound"]);
        if lo.val.is_some() && hi.val.is_some() {
            self.d.hit(F_SL, "iter");
        }
        let z = &self.z;
        let got = guard(|| (z.range_by_score(&lo.real, &hi.real, true, limit), z.range_by_score(&lo.real, &hi.real, false, limit)));
        match got {
            None => {
                self.emit(op.clone(), "crash".into(), true);
                self.panic("range_by_score", &op);
            }
            Some((r, r_noscores)) => {
                let want: Result<Vec<(Vec<u8>, f64)>, ()> = match (lo.val, hi.val) {
                    (Some(l), Some(h)) => {
                        let all: Vec<(Vec<u8>, f64)> = self.refv.iter().filter(|(s, _)| in_bounds(l, h, *s)).map(|(s, m)| (m.clone(), *s)).collect();
                        Ok(match limit {
                            None => all,
                            Some((o, _)) if o < 0 => Vec::new(),
                            Some((o, c)) => all.into_iter().skip(o as usize).take(c).collect(),
                        })
                    }
                    _ => Err(()),
                };
                self.d.out.count(match (&want, limit) {
                    (Err(_), _) => "data:z:rbs-bad-bound",
                    (Ok(_), Some((o, _))) if o < 0 => "data:z:rbs-negative-offset",
                    (Ok(v), Some(_)) if v.is_empty() => "data:z:rbs-limit-empty",
                    (Ok(_), Some(_)) => "data:z:rbs-limit-nonempty",
                    (Ok(v), None) if v.is_empty() => "data:z:rbs-empty",
                    (Ok(_), None) => "data:z:rbs-nonempty",
                });
                let mut shape_ok = true;
                let got: Result<Vec<(Vec<u8>, f64)>, String> = match &r {
                    Ok(v) => Ok(v
                        .iter()
                        .map(|(m, s)| {
                            (m.as_bytes().to_vec(), s.unwrap_or_else(|| {
                                shape_ok = false;
                                f64::NAN
                            }))
                        })
                        .collect()),
                    Err(e) => Err(e.clone()),
                };
                let ans = match &got {
                    Ok(v) => pairs_line(v),
                    Err(e) if e == "ERR min or max is not a float" => "-notfloat".to_string(),
                    Err(e) => format!("-?{}", e.replace(' ', "_")),
                };
                if matches!(&got, Ok(v) if !v.is_empty()) {
                    self.nonempty_read = true;
                }
                self.emit(op.clone(), ans, true);
                let agrees = match (&got, &want) {
                    (Ok(g), Ok(w)) => g.len() == w.len() && g.iter().zip(w.iter()).all(|(x, y)| x.0 == y.0 && same_f(x.1, y.1)),
                    (Err(_), Err(_)) => true,
                    _ => false,
                };
                let noscores_ok = match (&r, &r_noscores) {
                    (Ok(a), Ok(b)) => a.len() == b.len() && a.iter().zip(b.iter()).all(|(x, y)| x.0 == y.0 && y.1.is_none()),
                    (Err(a), Err(b)) => a == b,
                    _ => false,
                };
                if !agrees || !shape_ok || !noscores_ok {
                    self.viol("zset-vs-reference:range_by_score", format!("range_by_score({:?}, {:?}, limit {:?}) = {:?} (without scores: {:?}), reference {:?}", lo.real, hi.real, limit, r, r_noscores, want.map(|v| pairs_line(&v))), &op);
                }
            }
        }
    }

    fn finish(self, shape: &str) {
        let nontrivial = self.max_members >= 2 && self.nonempty_read;
        self.d.out.count(&format!("data:z:shape:{}", shape));
        self.d.out.count(&format!("data:z:final-len:{}", match self.refv.len() {
            0 => "0",
            1 => "1",
            2..=9 => "2-9",
            10..=99 => "10-99",
            _ => "100+",
        }));
        self.d.sequences += 1;
        self.d.out.case(&self.canon, nontrivial);
    }
}

impl<'a> Dx<'a> {
    /// 1-in-`den` decision that does not consume the generator stream (hash of the op count)
    fn out_chance(&mut self, den: u64) -> bool {
        if den <= 1 {
            return true;
        }
        let mut x = self.ops.wrapping_mul(0x9E37_79B9_7F4A_7C15) ^ (self.sequences << 32);
        x ^= x >> 29;
        x = x.wrapping_mul(0xBF58_476D_1CE4_E5B9);
        x ^= x >> 32;
        x % den == 0
    }
}

// ------------------------------------------------------------------------------------------------
// sorted set: generators
// ------------------------------------------------------------------------------------------------

fn small_alphabet() -> Vec<Vec<u8>> {
    let mut v: Vec<Vec<u8>> = (b'a'..=b'z').map(|c| vec![c]).collect();
    for s in ["aa", "ab", "m1", "m2", "m10", "z0", "é", "éa", ""] {
        v.push(s.as_bytes().to_vec());
    }
    v
}

const BIG: f64 = 9007199254740991.0;

fn gen_score(rng: &mut Rng) -> f64 {
    match rng.below(24) {
        0 => f64::INFINITY,
        1 => f64::NEG_INFINITY,
        2 => BIG,
        3 => -BIG,
        _ => rng.range(0, 8) as f64 - 3.0,
    }
}

fn gen_limit(rng: &mut Rng, k: usize) -> Option<(isize, usize)> {
    if rng.chance(2, 5) {
        return None;
    }
    let k = k as isize;
    let off = *rng.pick(&[-1, 0, 1, k - 1, k, k + 1]);
    let cnt = *rng.pick(&[0, 1, k.max(0), k + 1, 1000]);
    Some((off, cnt.max(0) as usize))
}

/// one read op at random
fn z_read(r: &mut ZRun, rng: &mut Rng, alphabet: &[Vec<u8>]) {
    let n = r.refv.len();
    match rng.below(7) {
        0 => {
            let m = if n > 0 && rng.chance(2, 3) { r.refv[rng.below(n as u64) as usize].1.clone() } else { rng.pick(alphabet).clone() };
            r.zscore(&m);
        }
        1 => {
            let m = if n > 0 && rng.chance(2, 3) { r.refv[rng.below(n as u64) as usize].1.clone() } else { rng.pick(alphabet).clone() };
            r.zrank(&m);
        }
        2 | 3 => {
            let (ca, cb) = (rng.below(11) as usize, rng.below(11) as usize);
            let rev = rng.chance(1, 2);
            z_range_classes(r, ca, cb, rev);
        }
        4 => {
            let sc = r.scores();
            let (lo, hi) = (gen_bound(rng, &sc), gen_bound(rng, &sc));
            r.zcount(&lo, &hi);
        }
        _ => {
            let sc = r.scores();
            let (lo, hi) = (gen_bound(rng, &sc), gen_bound(rng, &sc));
            let k = match (lo.val, hi.val) {
                (Some(l), Some(h)) => r.refv.iter().filter(|(s, _)| in_bounds(l, h, *s)).count(),
                _ => 0,
            };
            let lim = gen_limit(rng, k);
            r.zrbs(&lo, &hi, lim);
        }
    }
}

fn z_range_classes(r: &mut ZRun, ca: usize, cb: usize, rev: bool) {
    let n = r.refv.len();
    r.d.out.count(&format!("data:z:range-start:{}", IDX_CLASSES[ca]));
    r.d.out.count(&format!("data:z:range-stop:{}", IDX_CLASSES[cb]));
    r.zrange(idx_of_class(ca, n), idx_of_class(cb, n), rev);
}

/// one mutating op at random over `alphabet`
fn z_mutate(r: &mut ZRun, rng: &mut Rng, alphabet: &[Vec<u8>]) {
    let n = r.refv.len();
    let present = |r: &ZRun, rng: &mut Rng| r.refv[rng.below(r.refv.len() as u64) as usize].clone();
    match rng.below(20) {
        0..=6 => {
            // add (new when the pick is absent)
            let m = rng.pick(alphabet).clone();
            let s = gen_score(rng);
            r.zadd(&m, s);
        }
        7 | 8 if n > 0 => {
            let (s, m) = present(r, rng);
            r.zadd(&m, s); // same score: no-op path
        }
        9..=13 if n > 0 => {
            let (s, m) = present(r, rng);
            let ns = match rng.below(6) {
                0 => f64::INFINITY,
                1 => f64::NEG_INFINITY,
                2 if s.is_finite() && s.abs() < 1e6 => s - 1.0,
                3 if s.is_finite() && s.abs() < 1e6 => s + 1.0,
                _ => gen_score(rng),
            };
            r.zadd(&m, ns);
        }
        14..=16 if n > 0 => {
            let (_, m) = present(r, rng);
            r.zrem(&m);
        }
        17 => {
            let m = rng.pick(alphabet).clone();
            r.zrem(&m); // often absent
        }
        _ => {
            let m = rng.pick(alphabet).clone();
            let s = gen_score(rng);
            r.zadd(&m, s);
        }
    }
}

/// the reads at the end of a sequence
fn z_final_reads(r: &mut ZRun, rng: &mut Rng, alphabet: &[Vec<u8>], big: bool) {
    if r.dead {
        return;
    }
    if r.since_struct != 0 {
        r.since_struct = 0;
        r.zstruct("end of sequence", None);
    }
    r.ziter();
    r.zlen();
    let n = r.refv.len();
    // ZRANK of every current member (sampled when the set is large) and of absent ones
    let idxs: Vec<usize> = if n <= 64 { (0..n).collect() } else { (0..48).map(|_| rng.below(n as u64) as usize).chain([0, 1, n - 2, n - 1]).collect() };
    for i in idxs {
        let m = r.refv[i].1.clone();
        r.zrank(&m);
        if rng.chance(1, 4) {
            r.zscore(&m);
        }
    }
    for _ in 0..2 {
        let m = rng.pick(alphabet).clone();
        r.zrank(&m);
    }
    r.zrank(b"absent-member");
    r.zscore(b"absent-member");
    // index sweep
    if big {
        // windows with small answers, plus one full range each way
        r.zrange(0, -1, false);
        r.zrange(0, -1, true);
        for _ in 0..8 {
            let k = rng.below(n.max(1) as u64) as isize;
            let rev = rng.chance(1, 2);
            r.zrange(k, k + 4, rev);
            r.zrange(-k - 3, -k - 1, rev);
        }
        for (ca, cb) in [(0usize, 5usize), (7, 8), (8, 9), (4, 4), (4, 10), (1, 3), (7, 10), (9, 10), (2, 2), (6, 5)] {
            z_range_classes(r, ca, cb, rng.chance(1, 2));
        }
    } else {
        let sweeps = 14;
        for _ in 0..sweeps {
            let (ca, cb) = (rng.below(11) as usize, rng.below(11) as usize);
            z_range_classes(r, ca, cb, rng.chance(1, 2));
        }
    }
    // score windows
    let sc = r.scores();
    for _ in 0..if big { 3 } else { 6 } {
        let (lo, hi) = (gen_bound(rng, &sc), gen_bound(rng, &sc));
        r.zcount(&lo, &hi);
        let k = match (lo.val, hi.val) {
            (Some(l), Some(h)) => r.refv.iter().filter(|(s, _)| in_bounds(l, h, *s)).count(),
            _ => 0,
        };
        let lim = if big { Some((*rng.pick(&[-1isize, 0, 1, k as isize - 1, k as isize]), *rng.pick(&[0usize, 1, 3]))) } else { gen_limit(rng, k) };
        r.zrbs(&lo, &hi, lim);
    }
    // ±inf in both spellings, always
    let inf = |tok: &str, real: &str, v: f64, e: bool| Bd { tok: tok.into(), real: real.into(), val: Some((v, e)) };
    let (ni, pi, pi2) = (inf("i-inf", "-inf", f64::NEG_INFINITY, false), inf("iinf", "+inf", f64::INFINITY, false), inf("iinf", "inf", f64::INFINITY, false));
    let (nie, pie) = (inf("e-inf", "(-inf", f64::NEG_INFINITY, true), inf("einf", "(inf", f64::INFINITY, true));
    r.zcount(&ni, &pi);
    r.zcount(&nie, &pie);
    r.zcount(&pi2, &ni);
    if !big {
        r.zrbs(&ni, &pi2, None);
        r.zrbs(&nie, &pie, Some((0, 1000)));
    }
}

#[derive(Clone, Copy, Debug, PartialEq)]
enum Shape {
    Short,
    Medium,
    Long,
    EmptyRefill,
    UpDown,
    Ascending,
    Descending,
}

/// the sorted set lives inside a REAL `CommandExecutor`: ZADD with every flag combination the parser
/// lets through and ZREM go through `execute_zadd` / `execute_zrem` (the loops `SkipList.zaddLoop` /
/// `zremLoop` transcribe); after every command the set is read back out of the executor and the
/// usual structure / reference checks run on it
fn zx_sequence(d: &mut Dx, rng: &mut Rng) {
    use redis_sim::redis::{Command, CommandExecutor, RespValue, Value as RV};
    use redis_sim::simulator::VirtualTime;
    let mut ex = CommandExecutor::new();
    ex.set_time(VirtualTime::from_millis(1_000));
    let mut alphabet = small_alphabet();
    rng.shuffle(&mut alphabet);
    alphabet.truncate(rng.range(2, 8) as usize);
    let mut r = ZRun::new(d);
    let key = "z".to_string();
    const FLAGS: [(bool, bool, bool, bool); 9] = [
        (false, false, false, false),
        (false, false, false, false),
        (true, false, false, false),
        (false, true, false, false),
        (false, false, true, false),
        (false, false, false, true),
        (false, true, true, false),
        (false, true, false, true),
        (false, false, false, false),
    ];
    for _ in 0..rng.range(4, 50) {
        if r.dead {
            break;
        }
        let (op, reply) = if rng.chance(1, 5) {
            let ms: Vec<Vec<u8>> = (0..rng.range(1, 3)).map(|_| rng.pick(&alphabet).clone()).collect();
            let cmd = Command::ZRem(key.clone(), ms.iter().map(|m| SDS::new(m.clone())).collect());
            let reply = guard(|| ex.execute(&cmd));
            let mut op = format!("DS ZREMF {}", ms.len());
            for m in &ms {
                op.push(' ');
                op.push_str(&hex(m));
                if let Some(i) = r.ref_find(m) {
                    r.refv.remove(i);
                }
            }
            r.d.out.count("data:z:via-executor:ZREM");
            (op, reply)
        } else {
            let (nx, xx, gt, lt) = *rng.pick(&FLAGS);
            let ch = rng.chance(1, 3);
            let pairs: Vec<(f64, Vec<u8>)> = (0..rng.range(1, 3)).map(|_| (gen_score(rng), rng.pick(&alphabet).clone())).collect();
            let cmd = Command::ZAdd { key: key.clone(), pairs: pairs.iter().map(|(s, m)| (*s, SDS::new(m.clone()))).collect(), nx, xx, gt, lt, ch };
            let reply = guard(|| ex.execute(&cmd));
            let mut op = format!("DS ZADDF {}{}{}{}{} {}", nx as u8, xx as u8, gt as u8, lt as u8, ch as u8, pairs.len());
            for (sc, m) in &pairs {
                op.push_str(&format!(" {} {}", hex(m), sc_tok(*sc)));
                // the reference: ZADD's flag semantics on the naive sorted vector
                let cur = r.ref_find(m).map(|i| r.refv[i].0);
                let skip = match cur {
                    Some(c) => nx || (gt && !(*sc > c)) || (lt && !(*sc < c)),
                    None => xx,
                };
                if !skip {
                    if let Some(i) = r.ref_find(m) {
                        r.refv.remove(i);
                    }
                    r.ref_insert(m, *sc);
                }
            }
            r.d.out.count(&format!("data:z:via-executor:ZADD:{}{}{}{}{}", if nx { "NX" } else { "" }, if xx { "XX" } else { "" }, if gt { "GT" } else { "" }, if lt { "LT" } else { "" }, if ch { "CH" } else { "" }));
            (op, reply)
        };
        let ans = match reply {
            Some(RespValue::Integer(i)) => format!(":{}", i),
            Some(other) => format!("unexpected:{:?}", other),
            None => "crash".to_string(),
        };
        if ans == "crash" {
            r.emit(op.clone(), ans, true);
            r.panic("execute_zadd/zrem", &op);
            break;
        }
        r.emit(op.clone(), ans, true);
        // read the set back out of the executor; an emptied set is deleted, the next ZADD makes a fresh one
        match ex.get_data().get(&key) {
            Some(RV::SortedSet(z)) => {
                r.z = z.clone();
                r.after_mut(&op, None);
            }
            Some(_) => {
                r.viol("via-executor:type-changed", "the key no longer holds a sorted set".into(), &op);
                break;
            }
            None => {
                if !r.refv.is_empty() {
                    r.viol("zset-vs-reference:deleted", format!("the executor deleted the key, the reference still has {} members", r.refv.len()), &op);
                }
                r.z = RedisSortedSet::new();
                r.emit("DS ZNEW".into(), "ok".into(), true);
            }
        }
        if rng.chance(1, 4) {
            z_read(&mut r, rng, &alphabet);
        }
    }
    if !r.dead {
        r.ziter();
        r.zlen();
        for m in alphabet.clone() {
            r.zrank(&m);
        }
    }
    r.finish("via-executor");
}

fn z_sequence(d: &mut Dx, rng: &mut Rng, shape: Shape) {
    let all = small_alphabet();
    let mut r = ZRun::new(d);
    let mut alphabet: Vec<Vec<u8>> = {
        let mut a = all.clone();
        rng.shuffle(&mut a);
        let k = match shape {
            Shape::Short => rng.range(2, 6),
            Shape::UpDown => rng.range(1, 6),
            _ => rng.range(5, a.len() as u64),
        } as usize;
        a.truncate(k);
        a
    };
    match shape {
        Shape::Short | Shape::Medium => {
            let ops = if shape == Shape::Short { rng.range(1, 10) } else { rng.range(20, 80) };
            for _ in 0..ops {
                if rng.chance(1, 4) {
                    z_read(&mut r, rng, &alphabet);
                } else {
                    z_mutate(&mut r, rng, &alphabet);
                }
            }
        }
        Shape::Long => {
            // many distinct members: tall nodes appear; dumps get sparse as the set grows
            let adds = rng.range(300, 1200);
            let universe = (adds as f64 * (0.6 + rng.below(5) as f64 / 10.0)) as u64 + 1;
            alphabet = (0..universe).map(|i| format!("m{}", i).into_bytes()).collect();
            let wide = rng.chance(1, 2);
            r.dump_chance = 40;
            for i in 0..adds {
                let n = r.refv.len();
                r.struct_every = 1;
                let m = rng.pick(&alphabet).clone();
                let s = if wide { rng.range(0, 60) as f64 - 30.0 } else { gen_score(rng) };
                r.zadd(&m, s);
                if rng.chance(1, 10) && n > 0 {
                    let m = r.refv[rng.below(n as u64) as usize].1.clone();
                    r.zrem(&m);
                }
                if rng.chance(1, 25) {
                    let k = rng.below(r.refv.len().max(1) as u64) as isize;
                    r.zrange(k, k + 3, rng.chance(1, 2));
                    if !r.refv.is_empty() {
                        let m = r.refv[k as usize % r.refv.len()].1.clone();
                        r.zrank(&m);
                    }
                }
                if i % 97 == 96 {
                    let sc = r.scores();
                    let (lo, hi) = (gen_bound(rng, &sc), gen_bound(rng, &sc));
                    r.zcount(&lo, &hi);
                }
                if r.dead {
                    break;
                }
            }
        }
        Shape::EmptyRefill => {
            let k = rng.range(5, 40) as usize;
            if k > alphabet.len() {
                alphabet = (0..k as u64 + 5).map(|i| format!("m{}", i).into_bytes()).collect();
            }
            for _ in 0..k {
                let m = rng.pick(&alphabet).clone();
                let s = gen_score(rng);
                r.zadd(&m, s);
            }
            z_read(&mut r, rng, &alphabet);
            // remove every member one by one
            let mut ms: Vec<Vec<u8>> = r.refv.iter().map(|(_, m)| m.clone()).collect();
            match rng.below(3) {
                0 => {}
                1 => ms.reverse(),
                _ => rng.shuffle(&mut ms),
            }
            for m in ms {
                r.zrem(&m);
            }
            if !r.dead {
                let lvl = r.last.as_ref().map(|p| (p.level, p.length, p.nodes.len(), p.free_slots.len()));
                match lvl {
                    Some((1, 0, nn, nf)) if nf + 1 == nn => r.d.out.count("data:z:emptied-level-back-to-1"),
                    other => r.viol("skiplist-invariant:emptied", format!("after removing every member (level, length, arena size, free slots) = {:?}; expected level 1, length 0, every non-header slot free", other), "emptied"),
                }
            }
            z_read(&mut r, rng, &alphabet);
            let arena_before = r.last.as_ref().map(|p| p.nodes.len()).unwrap_or(0);
            let k2 = rng.range(3, 30) as usize;
            for _ in 0..k2 {
                let m = rng.pick(&alphabet).clone();
                let s = gen_score(rng);
                r.zadd(&m, s);
            }
            // free slots are reused before the arena grows
            if let Some(p) = &r.last {
                let (len, arena) = (p.length, p.nodes.len());
                if arena > arena_before.max(len + 1) {
                    r.viol("skiplist-invariant:free-slot-reuse", format!("arena grew from {} to {} slots although only {} nodes are live", arena_before, arena, len), "refill");
                } else {
                    r.d.out.count("data:z:refilled-free-slots-reused");
                }
            }
        }
        Shape::UpDown => {
            for m in alphabet.clone() {
                let s = gen_score(rng);
                r.zadd(&m, s);
            }
            let target = rng.pick(&alphabet).clone();
            let updates = if rng.chance(1, 4) { rng.range(300, 1500) } else { rng.range(10, 80) };
            r.dump_chance = if updates > 100 { 25 } else { 3 };
            let mut cur: f64 = 0.0;
            for i in 0..updates {
                let ns = match rng.below(10) {
                    0 => f64::INFINITY,
                    1 => f64::NEG_INFINITY,
                    2 => BIG,
                    _ => {
                        let base = if cur.is_finite() && cur.abs() < 1e6 { cur } else { 0.0 };
                        if i % 2 == 0 {
                            base + rng.range(1, 4) as f64
                        } else {
                            base - rng.range(1, 4) as f64
                        }
                    }
                };
                cur = ns;
                r.zadd(&target, ns);
                if rng.chance(1, 12) {
                    r.zrank(&target);
                }
                if r.dead {
                    break;
                }
            }
        }
        Shape::Ascending | Shape::Descending => {
            let k = rng.range(10, 120) as usize;
            let tie = rng.chance(1, 2);
            let mut items: Vec<(f64, Vec<u8>)> = (0..k).map(|i| (if tie { (i / 4) as f64 - 3.0 } else { i as f64 - 10.0 }, format!("m{:03}", i).into_bytes())).collect();
            if shape == Shape::Descending {
                items.reverse();
            }
            alphabet = items.iter().map(|(_, m)| m.clone()).collect();
            r.dump_chance = 10;
            for (s, m) in &items {
                r.zadd(m, *s);
            }
            // removes from both ends and the middle
            for _ in 0..rng.range(2, 12) {
                let n = r.refv.len();
                if n == 0 {
                    break;
                }
                let i = match rng.below(3) {
                    0 => 0,
                    1 => n - 1,
                    _ => rng.below(n as u64) as usize,
                };
                let m = r.refv[i].1.clone();
                r.zrem(&m);
            }
        }
    }
    let big = r.refv.len() > 64;
    z_final_reads(&mut r, rng, &alphabet, big);
    r.finish(&format!("{:?}", shape).to_lowercase());
}

// ------------------------------------------------------------------------------------------------
// list
// ------------------------------------------------------------------------------------------------

fn gen_bytes(rng: &mut Rng) -> Vec<u8> {
    match rng.below(8) {
        0 => Vec::new(),
        1 => vec![0],
        2 => vec![0xff, 0x00, 0x80],
        3 => (0..rng.range(20, 30)).map(|_| rng.below(256) as u8).collect(),
        4 => "é".as_bytes().to_vec(),
        _ => (0..rng.range(1, 4)).map(|_| b'a' + rng.below(6) as u8).collect(),
    }
}

fn list_line(v: &[Vec<u8>]) -> String {
    let mut s = format!("*{}", v.len());
    for b in v {
        s.push_str(" $");
        s.push_str(&hex(b));
    }
    s
}

struct LRun<'d, 'a> {
    d: &'d mut Dx<'a>,
    l: RedisList,
    refl: VecDeque<Vec<u8>>,
    muts: Vec<String>,
    canon: String,
    max_len: usize,
    nonempty_read: bool,
    dead: bool,
}

impl<'d, 'a> LRun<'d, 'a> {
    fn emit(&mut self, op: String, ans: String) {
        self.canon.push_str(&op);
        self.canon.push('\n');
        self.muts.push(op.clone());
        self.d.ops += 1;
        self.d.out.op(op, ans);
    }
    fn viol(&mut self, sig: &str, what: String, op: &str) {
        let rp = json!({"structure": "RedisList", "ops": self.muts, "failing_op": op});
        self.d.out.violation(&format!("C01:data:{}", sig), &what, rp);
    }
    fn crash(&mut self, name: &str, op: String) {
        self.emit(op.clone(), "crash".into());
        self.dead = true;
        self.viol(&format!("panic:list-{}", name), format!("RedisList::{} panicked", name), &op);
    }
    fn want_range(&self, a: isize, b: isize) -> Vec<Vec<u8>> {
        match norm_window(self.refl.len(), a, b) {
            None => Vec::new(),
            Some((s, e)) => self.refl.iter().skip(s).take(e - s + 1).cloned().collect(),
        }
    }
    fn push(&mut self, left: bool, v: &[u8]) {
        let op = format!("DS LPUSH {} {}", if left { "L" } else { "R" }, hex(v));
        self.d.hit(F_LS, if left { "lpush" } else { "rpush" });
        let l = &mut self.l;
        let val = SDS::new(v.to_vec());
        match guard(|| if left { l.lpush(val) } else { l.rpush(val) }) {
            None => self.crash("push", op),
            Some(()) => {
                if left {
                    self.refl.push_front(v.to_vec());
                } else {
                    self.refl.push_back(v.to_vec());
                }
                self.max_len = self.max_len.max(self.refl.len());
                self.emit(op, "ok".into());
                self.all();
            }
        }
    }
    fn pop(&mut self, left: bool) {
        let op = format!("DS LPOP {}", if left { "L" } else { "R" });
        self.d.hit(F_LS, if left { "lpop" } else { "rpop" });
        self.d.out.count(if self.refl.is_empty() { "data:l:pop-empty" } else { "data:l:pop-nonempty" });
        let l = &mut self.l;
        match guard(|| if left { l.lpop() } else { l.rpop() }) {
            None => self.crash("pop", op),
            Some(r) => {
                let got = r.map(|s| s.as_bytes().to_vec());
                let want = if left { self.refl.pop_front() } else { self.refl.pop_back() };
                self.emit(op.clone(), got.as_ref().map(|b| format!("${}", hex(b))).unwrap_or("_".into()));
                if got != want {
                    self.viol("list-vs-reference:pop", format!("pop = {:?}, reference {:?}", got, want), &op);
                }
                self.all();
            }
        }
    }
    fn len(&mut self) {
        self.d.hits(F_LS, &["len", "is_empty"]);
        let l = &self.l;
        match guard(|| (l.len(), l.is_empty())) {
            None => self.crash("len", "DS LLEN".into()),
            Some((n, e)) => {
                self.emit("DS LLEN".into(), format!(":{}", n));
                if n != self.refl.len() || e != self.refl.is_empty() {
                    self.viol("list-vs-reference:len", format!("len() = {}, is_empty() = {}, reference {}", n, e, self.refl.len()), "DS LLEN");
                }
            }
        }
    }
    fn range(&mut self, a: isize, b: isize, all: bool) {
        let op = if all { "DS LALL".to_string() } else { format!("DS LRANGE {} {}", a, b) };
        self.d.hit(F_LS, "range");
        let l = &self.l;
        match guard(|| l.range(a, b)) {
            None => self.crash("range", op),
            Some(v) => {
                let got: Vec<Vec<u8>> = v.iter().map(|s| s.as_bytes().to_vec()).collect();
                let want = self.want_range(a, b);
                if !got.is_empty() {
                    self.nonempty_read = true;
                }
                if !all {
                    self.d.out.count(if want.is_empty() { "data:l:range-empty" } else { "data:l:range-nonempty" });
                }
                self.emit(op.clone(), list_line(&got));
                if got != want {
                    self.viol("list-vs-reference:range", format!("range({}, {}) = {}, reference {}", a, b, list_line(&got), list_line(&want)), &op);
                }
            }
        }
    }
    fn all(&mut self) {
        if !self.dead {
            self.range(0, -1, true);
        }
    }
    fn get(&mut self, i: isize) {
        let op = format!("DS LGET {}", i);
        self.d.hit(F_LS, "get");
        let l = &self.l;
        match guard(|| l.get(i).map(|s| s.as_bytes().to_vec())) {
            None => self.crash("get", op),
            Some(got) => {
                let n = self.refl.len() as i128;
                let idx = if (i as i128) < 0 { n + i as i128 } else { i as i128 };
                let want = if idx < 0 || idx >= n { None } else { self.refl.get(idx as usize).cloned() };
                self.d.out.count(if want.is_some() { "data:l:get-hit" } else { "data:l:get-miss" });
                if got.is_some() {
                    self.nonempty_read = true;
                }
                self.emit(op.clone(), got.as_ref().map(|b| format!("${}", hex(b))).unwrap_or("_".into()));
                if got != want {
                    self.viol("list-vs-reference:get", format!("get({}) = {:?}, reference {:?}", i, got, want), &op);
                }
            }
        }
    }
    fn set(&mut self, i: isize, v: &[u8]) {
        if self.refl.is_empty() {
            return; // precondition of RedisList::set (debug_assert); the executor never calls it on an empty list
        }
        let op = format!("DS LSET {} {}", i, hex(v));
        self.d.hit(F_LS, "set");
        let l = &mut self.l;
        let val = SDS::new(v.to_vec());
        match guard(|| l.set(i, val)) {
            None => self.crash("set", op),
            Some(r) => {
                let n = self.refl.len() as i128;
                let idx = if (i as i128) < 0 { n + i as i128 } else { i as i128 };
                let ok = idx >= 0 && idx < n;
                if ok {
                    self.refl[idx as usize] = v.to_vec();
                }
                self.d.out.count(if ok { "data:l:set-ok" } else { "data:l:set-out-of-range" });
                let ans = match &r {
                    Ok(()) => "+OK".to_string(),
                    Err(e) if e == "ERR index out of range" => "-indexrange".to_string(),
                    Err(e) => format!("-?{}", e.replace(' ', "_")),
                };
                self.emit(op.clone(), ans);
                if r.is_ok() != ok {
                    self.viol("list-vs-reference:set", format!("set({}) = {:?} on {} elements", i, r, n), &op);
                }
                self.all();
            }
        }
    }
    fn trim(&mut self, a: isize, b: isize) {
        let op = format!("DS LTRIM {} {}", a, b);
        self.d.hit(F_LS, "trim");
        let l = &mut self.l;
        match guard(|| l.trim(a, b)) {
            None => self.crash("trim", op),
            Some(()) => {
                let want = self.want_range(a, b);
                self.d.out.count(if want.is_empty() { "data:l:trim-to-empty" } else if want.len() == self.refl.len() { "data:l:trim-keeps-all" } else { "data:l:trim-partial" });
                self.refl = want.into_iter().collect();
                self.emit(op, "ok".into());
                self.all();
            }
        }
    }
}

fn list_sequence(d: &mut Dx, rng: &mut Rng) {
    d.hit(F_LS, "new");
    let mut r = LRun { d, l: RedisList::new(), refl: VecDeque::new(), muts: Vec::new(), canon: String::new(), max_len: 0, nonempty_read: false, dead: false };
    r.emit("DS LNEW".into(), "ok".into());
    let ops = if rng.chance(1, 3) { rng.range(1, 10) } else { rng.range(15, 60) };
    let push_bias = rng.range(4, 9);
    for _ in 0..ops {
        if r.dead {
            break;
        }
        let n = r.refl.len();
        let idx = |rng: &mut Rng| {
            let c = rng.below(11) as usize;
            (c, idx_of_class(c, n))
        };
        match rng.below(20) {
            9 | 10 | 11 => r.pop(rng.chance(1, 2)),
            12 => r.len(),
            13 | 14 => {
                let ((ca, a), (cb, b)) = (idx(rng), idx(rng));
                r.d.out.count(&format!("data:l:range-start:{}", IDX_CLASSES[ca]));
                r.d.out.count(&format!("data:l:range-stop:{}", IDX_CLASSES[cb]));
                r.range(a, b, false);
            }
            15 | 16 => {
                let (c, i) = idx(rng);
                r.d.out.count(&format!("data:l:get-index:{}", IDX_CLASSES[c]));
                r.get(i);
            }
            17 | 18 => {
                let (c, i) = idx(rng);
                if n > 0 {
                    r.d.out.count(&format!("data:l:set-index:{}", IDX_CLASSES[c]));
                }
                let v = gen_bytes(rng);
                r.set(i, &v);
            }
            k if k < push_bias => {
                let v = gen_bytes(rng);
                r.push(rng.chance(1, 2), &v);
            }
            0..=8 => {
                let (c, i) = idx(rng);
                r.d.out.count(&format!("data:l:get-index:{}", IDX_CLASSES[c]));
                r.get(i);
            }
            _ => {
                let ((ca, a), (cb, b)) = (idx(rng), idx(rng));
                r.d.out.count(&format!("data:l:trim-start:{}", IDX_CLASSES[ca]));
                r.d.out.count(&format!("data:l:trim-stop:{}", IDX_CLASSES[cb]));
                r.trim(a, b);
            }
        }
    }
    if !r.dead {
        r.len();
        r.all();
        // index sweep on the final list
        let n = r.refl.len();
        for _ in 0..6 {
            if r.dead {
                break;
            }
            let (ca, cb) = (rng.below(11) as usize, rng.below(11) as usize);
            r.d.out.count(&format!("data:l:range-start:{}", IDX_CLASSES[ca]));
            r.d.out.count(&format!("data:l:range-stop:{}", IDX_CLASSES[cb]));
            r.range(idx_of_class(ca, n), idx_of_class(cb, n), false);
            let c = rng.below(11) as usize;
            r.d.out.count(&format!("data:l:get-index:{}", IDX_CLASSES[c]));
            r.get(idx_of_class(c, n));
        }
        // drain: pops on the way to, and on, the empty list
        if rng.chance(1, 3) {
            while !r.refl.is_empty() && !r.dead {
                r.pop(rng.chance(1, 2));
            }
            if !r.dead {
                r.pop(true);
                r.pop(false);
                r.len();
            }
        }
    }
    let nontrivial = r.max_len >= 2 && r.nonempty_read;
    r.d.sequences += 1;
    r.d.out.count("data:l:sequences");
    let canon = std::mem::take(&mut r.canon);
    r.d.out.case(&canon, nontrivial);
}

// ------------------------------------------------------------------------------------------------
// SDS
// ------------------------------------------------------------------------------------------------

fn srepr(s: &SDS) -> String {
    match s {
        SDS::Inline { len, data } => format!("I {} {}", len, hex(&data[..])),
        SDS::Heap(v) => format!("H {}", hex(v)),
    }
}

fn hash_of(s: &SDS) -> u64 {
    use std::hash::{Hash, Hasher};
    let mut h = std::collections::hash_map::DefaultHasher::new();
    s.hash(&mut h);
    h.finish()
}

struct SRun<'d, 'a> {
    d: &'d mut Dx<'a>,
    s: SDS,
    refb: Vec<u8>,
    muts: Vec<String>,
    canon: String,
    dead: bool,
    crossed: bool,
}

impl<'d, 'a> SRun<'d, 'a> {
    fn emit(&mut self, op: String, ans: String) {
        self.canon.push_str(&op);
        self.canon.push('\n');
        self.muts.push(op.clone());
        self.d.ops += 1;
        self.d.out.op(op, ans);
    }
    fn viol(&mut self, sig: &str, what: String, op: &str) {
        let rp = json!({"structure": "SDS", "ops": self.muts, "failing_op": op});
        self.d.out.violation(&format!("C01:data:{}", sig), &what, rp);
    }
    fn crash(&mut self, name: &str, op: String) {
        self.emit(op.clone(), "crash".into());
        self.dead = true;
        self.viol(&format!("panic:sds-{}", name), format!("SDS::{} panicked", name), &op);
    }
    fn class(&mut self, what: &str, before: usize) {
        let after = self.refb.len();
        let side = |n: usize| if n <= 22 { "<=22" } else if n == 23 { "23" } else if n == 24 { "24" } else { ">24" };
        self.d.out.count(&format!("data:s:{}:{}->{}", what, side(before), side(after)));
        if (before <= 23) != (after <= 23) {
            self.crossed = true;
        }
    }
    fn snew(&mut self, b: &[u8]) {
        let op = format!("DS SNEW {}", hex(b));
        self.d.hit(F_SD, "new");
        match guard(|| SDS::new(b.to_vec())) {
            None => self.crash("new", op),
            Some(s) => {
                self.s = s;
                let before = self.refb.len();
                self.refb = b.to_vec();
                self.class("new", before);
                self.emit(op.clone(), srepr(&self.s));
                if let Ok(text) = std::str::from_utf8(b) {
                    self.d.hit(F_SD, "from_str");
                    match guard(|| SDS::from_str(text)) {
                        None => {
                            self.dead = true;
                            self.viol("panic:sds-from_str", "SDS::from_str panicked".into(), &op);
                        }
                        Some(f) => {
                            if srepr(&f) != srepr(&self.s) {
                                self.viol("sds-vs-reference:from_str", format!("from_str gives {}, new gives {}", srepr(&f), srepr(&self.s)), &op);
                            }
                        }
                    }
                }
                self.repr();
            }
        }
    }
    fn sheap(&mut self, b: &[u8]) {
        let op = format!("DS SHEAP {}", hex(b));
        self.s = SDS::Heap(b.to_vec());
        let before = self.refb.len();
        self.refb = b.to_vec();
        self.class("heap", before);
        self.emit(op, srepr(&self.s));
        self.repr();
    }
    fn append(&mut self, b: &[u8], heap_arg: bool) {
        let op = format!("DS {} {}", if heap_arg { "SAPPENDH" } else { "SAPPEND" }, hex(b));
        self.d.hit(F_SD, "append");
        if !heap_arg {
            self.d.hit(F_SD, "new");
        }
        let s = &mut self.s;
        let r = guard(|| {
            let other = if heap_arg { SDS::Heap(b.to_vec()) } else { SDS::new(b.to_vec()) };
            s.append(&other)
        });
        match r {
            None => self.crash("append", op),
            Some(()) => {
                let before = self.refb.len();
                self.refb.extend_from_slice(b);
                self.class(if matches!(self.s, SDS::Inline { .. }) { "append-stays-inline" } else if before <= 23 { "append-to-heap-or-heap" } else { "append-heap" }, before);
                if b.is_empty() {
                    self.d.out.count("data:s:append-empty");
                }
                self.emit(op, srepr(&self.s));
                self.repr();
            }
        }
    }
    fn resize(&mut self, n: usize) {
        let op = format!("DS SRESIZE {}", n);
        self.d.hit(F_SD, "resize");
        let s = &mut self.s;
        match guard(|| s.resize(n)) {
            None => self.crash("resize", op),
            Some(()) => {
                let before = self.refb.len();
                self.d.out.count(&format!("data:s:resize-{}-{}", if matches!(self.s, SDS::Inline { .. }) { "now-inline" } else { "now-heap" }, if n < before { "smaller" } else if n == before { "equal" } else { "larger" }));
                if n > before {
                    self.refb.resize(n, 0);
                }
                self.class("resize", before);
                self.emit(op, srepr(&self.s));
                self.repr();
            }
        }
    }
    /// `DS SREPR` + the reference oracle
    fn repr(&mut self) {
        if self.dead {
            return;
        }
        let op = "DS SREPR".to_string();
        self.d.hits(F_SD, &["len", "as_bytes", "is_empty", "to_string", "as_bytes_mut"]);
        let s = &mut self.s;
        let got = guard(|| {
            let bytes = s.as_bytes().to_vec();
            let (len, empty, text) = (s.len(), s.is_empty(), s.to_string());
            // as_bytes_mut: same window; a written byte is seen by as_bytes; restored
            let mlen = s.as_bytes_mut().len();
            let mut mut_ok = mlen == bytes.len();
            if mlen > 0 {
                let i = mlen / 2;
                s.as_bytes_mut()[i] ^= 0x5a;
                mut_ok &= s.as_bytes()[i] == bytes[i] ^ 0x5a && s.as_bytes().len() == bytes.len();
                s.as_bytes_mut()[i] ^= 0x5a;
                mut_ok &= s.as_bytes() == &bytes[..];
            }
            (bytes, len, empty, text, mut_ok)
        });
        let (bytes, len, empty, text, mut_ok) = match got {
            None => return self.crash("accessors", op),
            Some(x) => x,
        };
        self.emit(op.clone(), format!("{} len={} bytes={}", srepr(&self.s), len, hex(&bytes)));
        if bytes != self.refb {
            self.viol("sds-vs-reference:as_bytes", format!("as_bytes = {}, reference {}", hex(&bytes), hex(&self.refb)), &op);
        }
        if len != self.refb.len() || empty != self.refb.is_empty() {
            self.viol("sds-vs-reference:len", format!("len() = {}, is_empty() = {}, reference {}", len, empty, self.refb.len()), &op);
        }
        if text != String::from_utf8_lossy(&self.refb) {
            self.viol("sds-vs-reference:to_string", format!("to_string() = {:?}", text), &op);
        }
        if !mut_ok {
            self.viol("sds-vs-reference:as_bytes_mut", "as_bytes_mut() is not the same window as as_bytes()".into(), &op);
        }
        // equality and hash do not see the representation
        let mut twins = vec![SDS::Heap(self.refb.clone()), SDS::new(self.refb.clone()), self.s.clone()];
        if self.refb.len() <= 23 {
            let mut data = [0xa5u8; 23];
            data[..self.refb.len()].copy_from_slice(&self.refb);
            twins.push(SDS::Inline { len: self.refb.len() as u8, data });
        }
        let h = hash_of(&self.s);
        for t in &twins {
            if !(*t == self.s && self.s == *t) {
                self.viol("sds-vs-reference:eq", format!("{} != {} although the bytes are equal", srepr(t), srepr(&self.s)), &op);
            }
            if hash_of(t) != h {
                self.viol("sds-vs-reference:hash", format!("hash of {} differs from hash of {}", srepr(t), srepr(&self.s)), &op);
            }
        }
        let mut other = self.refb.clone();
        other.push(0);
        if SDS::new(other) == self.s {
            self.viol("sds-vs-reference:eq", "equal to a value with one more (zero) byte".into(), &op);
        }
    }
}

fn rand_bytes(rng: &mut Rng, n: usize) -> Vec<u8> {
    let binary = rng.chance(1, 2);
    (0..n).map(|_| if binary { rng.below(256) as u8 } else { b'a' + rng.below(26) as u8 }).collect()
}

fn sds_sequence(d: &mut Dx, rng: &mut Rng) {
    let mut r = SRun { d, s: SDS::new(Vec::new()), refb: Vec::new(), muts: Vec::new(), canon: String::new(), dead: false, crossed: false };
    let n0 = *rng.pick(&[0usize, 1, 22, 23, 24, 25, 100, 5, 10, 21]);
    let b = rand_bytes(rng, n0);
    r.snew(&b);
    let ops = rng.range(1, 12);
    for _ in 0..ops {
        if r.dead {
            break;
        }
        let len = r.refb.len();
        match rng.below(14) {
            0..=3 => {
                // land exactly on 22 / 23 / 24 when possible
                let targets: Vec<usize> = [22usize, 23, 24].iter().copied().filter(|t| *t >= len).collect();
                let k = if !targets.is_empty() && rng.chance(3, 4) { *rng.pick(&targets) - len } else { rng.below(30) as usize };
                let b = rand_bytes(rng, k);
                r.append(&b, false);
            }
            4 => r.append(&[], rng.chance(1, 3)),
            5 => {
                let k = *rng.pick(&[0usize, 1, 5, 23, 24]);
                let b = rand_bytes(rng, k);
                r.append(&b, true);
            }
            6 | 7 => {
                // a short Heap value, then appends keep it on the heap
                let k = *rng.pick(&[0usize, 1, 10, 22, 23]);
                let b = rand_bytes(rng, k);
                r.sheap(&b);
                let k2 = rng.below(3) as usize;
                let b2 = rand_bytes(rng, k2);
                r.append(&b2, false);
            }
            8..=11 => {
                let n = match rng.below(9) {
                    0 => len.saturating_sub(1),
                    1 => len,
                    2 => len + 1,
                    3 => 22,
                    4 => 23,
                    5 => 24,
                    6 => 0,
                    7 => rng.range(100, 4096) as usize,
                    _ => rng.below(30) as usize,
                };
                r.resize(n.min(4096));
            }
            _ => {
                let n = *rng.pick(&[0usize, 1, 22, 23, 24, 25, 100]);
                let b = rand_bytes(rng, n);
                r.snew(&b);
            }
        }
    }
    r.d.sequences += 1;
    r.d.out.count("data:s:sequences");
    let canon = std::mem::take(&mut r.canon);
    let nontrivial = r.crossed || r.muts.len() > 3;
    r.d.out.case(&canon, nontrivial);
}

// ------------------------------------------------------------------------------------------------
// RedisSet / RedisHash: reference only (no model line; the commands over them are C01's main part)
// ------------------------------------------------------------------------------------------------

fn utf8_member(rng: &mut Rng) -> Vec<u8> {
    // members / fields are kept as `String` (lossy) by the real structures: UTF-8 only here, the
    // non-UTF-8 behaviour is the recorded case `set-member-not-binary-safe` / `hash-field-not-binary-safe`
    match rng.below(6) {
        0 => Vec::new(),
        1 => "é".as_bytes().to_vec(),
        _ => vec![b'a' + rng.below(8) as u8],
    }
}

/// any bytes (sets and hash fields are binary safe since the fixes c9e4f2c / 8832ec4)
fn any_member(rng: &mut Rng) -> Vec<u8> {
    match rng.below(8) {
        0 => vec![0xff],
        1 => vec![0xfe, 0xff],
        2 => vec![0xef, 0xbf, 0xbd],          // the lossy form of 0xff: must stay a DIFFERENT member
        3 => vec![0x00, 0x80],
        _ => utf8_member(rng),
    }
}

fn set_sequence(d: &mut Dx, rng: &mut Rng) {
    let mut log: Vec<String> = Vec::new();
    let mut bad: Vec<(String, String)> = Vec::new();
    d.hit(F_ST, "new");
    let mut s = RedisSet::new();
    let mut r: BTreeSet<Vec<u8>> = BTreeSet::new();
    let r0 = guard(|| {
        for _ in 0..rng.range(3, 40) {
            let m = any_member(rng);
            let key = SDS::new(m.clone());
            match rng.below(10) {
                0..=3 => {
                    log.push(format!("add {}", hex(&m)));
                    d.hit(F_ST, "add");
                    if s.add(key) != r.insert(m) {
                        bad.push(("add".into(), "return value differs from BTreeSet::insert".into()));
                    }
                }
                4 | 5 => {
                    log.push(format!("remove {}", hex(&m)));
                    d.hit(F_ST, "remove");
                    if s.remove(&key) != r.remove(&m) {
                        bad.push(("remove".into(), "return value differs from BTreeSet::remove".into()));
                    }
                }
                6 => {
                    log.push(format!("contains {}", hex(&m)));
                    d.hit(F_ST, "contains");
                    if s.contains(&key) != r.contains(&m) {
                        bad.push(("contains".into(), "differs from the reference".into()));
                    }
                }
                7 => {
                    log.push("pop".into());
                    d.hit(F_ST, "pop");
                    match s.pop() {
                        None if r.is_empty() => {}
                        Some(x) if r.remove(x.as_bytes()) => {}
                        other => bad.push(("pop".into(), format!("pop = {:?} on a reference of {} members", other.map(|x| hex(x.as_bytes())), r.len()))),
                    }
                }
                _ => {
                    let c = *rng.pick(&[0usize, 1, 2, r.len(), r.len() + 1, 1000]);
                    log.push(format!("pop_count {}", c));
                    d.hit(F_ST, "pop_count");
                    let v = s.pop_count(c);
                    let want = c.min(r.len());
                    let all_present = v.iter().all(|x| r.remove(x.as_bytes()));
                    if v.len() != want || !all_present {
                        bad.push(("pop_count".into(), format!("pop_count({}) returned {} members (want {}), all distinct and present: {}", c, v.len(), want, all_present)));
                    }
                }
            }
            d.hits(F_ST, &["members", "len", "is_empty"]);
            let got: BTreeSet<Vec<u8>> = s.members().iter().map(|x| x.as_bytes().to_vec()).collect();
            if got != r || s.len() != r.len() || s.is_empty() != r.is_empty() || s.members().len() != r.len() {
                bad.push(("members".into(), format!("members() / len() / is_empty() = {} members / {} / {}, reference {}", got.len(), s.len(), s.is_empty(), r.len())));
            }
        }
    });
    if r0.is_none() {
        bad.push(("panic".into(), "a RedisSet method panicked".into()));
    }
    for (opn, what) in bad {
        let sig = if opn == "panic" { "C01:data:panic:set".to_string() } else { format!("C01:data:set-vs-reference:{}", opn) };
        d.out.violation(&sig, &what, json!({"structure": "RedisSet", "ops": log}));
    }
    d.out.count("data:set:sequences");
}

fn hash_sequence(d: &mut Dx, rng: &mut Rng) {
    let mut log: Vec<String> = Vec::new();
    let mut bad: Vec<(String, String)> = Vec::new();
    d.hit(F_HS, "new");
    let mut h = RedisHash::new();
    let mut r: BTreeMap<Vec<u8>, Vec<u8>> = BTreeMap::new();
    let r0 = guard(|| {
        for _ in 0..rng.range(3, 40) {
            let f = any_member(rng);
            let key = SDS::new(f.clone());
            match rng.below(10) {
                0..=4 => {
                    let v = gen_bytes(rng);
                    log.push(format!("set {} {}", hex(&f), hex(&v)));
                    d.hit(F_HS, "set");
                    h.set(key, SDS::new(v.clone()));
                    r.insert(f, v);
                }
                5 | 6 => {
                    log.push(format!("delete {}", hex(&f)));
                    d.hit(F_HS, "delete");
                    if h.delete(&key) != r.remove(&f).is_some() {
                        bad.push(("delete".into(), "return value differs from the reference".into()));
                    }
                }
                7 => {
                    log.push(format!("get {}", hex(&f)));
                    d.hit(F_HS, "get");
                    if h.get(&key).map(|x| x.as_bytes().to_vec()) != r.get(&f).cloned() {
                        bad.push(("get".into(), "differs from the reference".into()));
                    }
                }
                _ => {
                    log.push(format!("exists {}", hex(&f)));
                    d.hit(F_HS, "exists");
                    if h.exists(&key) != r.contains_key(&f) {
                        bad.push(("exists".into(), "differs from the reference".into()));
                    }
                }
            }
            d.hits(F_HS, &["len", "is_empty", "keys", "values", "get_all", "iter"]);
            let keys: BTreeSet<Vec<u8>> = h.keys().iter().map(|x| x.as_bytes().to_vec()).collect();
            let mut vals: Vec<Vec<u8>> = h.values().iter().map(|x| x.as_bytes().to_vec()).collect();
            vals.sort();
            let mut rvals: Vec<Vec<u8>> = r.values().cloned().collect();
            rvals.sort();
            let all: BTreeMap<Vec<u8>, Vec<u8>> = h.get_all().iter().map(|(k, v)| (k.as_bytes().to_vec(), v.as_bytes().to_vec())).collect();
            let it: BTreeMap<Vec<u8>, Vec<u8>> = h.iter().map(|(k, v)| { let kb: &[u8] = k.as_ref(); (kb.to_vec(), v.as_bytes().to_vec()) }).collect();
            if h.len() != r.len() || h.is_empty() != r.is_empty() {
                bad.push(("len".into(), format!("len() = {}, is_empty() = {}, reference {}", h.len(), h.is_empty(), r.len())));
            }
            if keys != r.keys().cloned().collect::<BTreeSet<_>>() || h.keys().len() != r.len() {
                bad.push(("keys".into(), "keys() is not the reference's key set".into()));
            }
            if vals != rvals {
                bad.push(("values".into(), "values() is not the reference's multiset of values".into()));
            }
            if all != r || h.get_all().len() != r.len() {
                bad.push(("get_all".into(), "get_all() is not the reference map".into()));
            }
            if it != r || h.iter().count() != r.len() {
                bad.push(("iter".into(), "iter() is not the reference map".into()));
            }
        }
    });
    if r0.is_none() {
        bad.push(("panic".into(), "a RedisHash method panicked".into()));
    }
    for (opn, what) in bad {
        let sig = if opn == "panic" { "C01:data:panic:hash".to_string() } else { format!("C01:data:hash-vs-reference:{}", opn) };
        d.out.violation(&sig, &what, json!({"structure": "RedisHash", "ops": log}));
    }
    d.out.count("data:hash:sequences");
}

// ------------------------------------------------------------------------------------------------
// the pass
// ------------------------------------------------------------------------------------------------

/// scripted witnesses, run first: small cases whose answers are easy to check by hand
fn scripted(d: &mut Dx) {
    let mut r = ZRun::new(d);
    r.dump_chance = 1;
    for (m, s) in [("a", 1.0), ("b", 1.0), ("", 1.0), ("a", 1.0), ("a", -3.0), ("b", f64::INFINITY), ("b", f64::NEG_INFINITY), ("é", BIG), ("b", 2.0)] {
        r.zadd(m.as_bytes(), s);
    }
    r.zrem(b"zz");
    r.zrem(b"a");
    for (a, b) in [(0, -1), (isize::MIN, isize::MAX), (isize::MAX, isize::MIN), (-1, -1), (1, 1), (3, 3), (-3, 0)] {
        r.zrange(a, b, false);
        r.zrange(a, b, true);
    }
    let alphabet = small_alphabet();
    let mut rng = Rng::new(0xD5D5);
    z_final_reads(&mut r, &mut rng, &alphabet, false);
    r.finish("scripted");
}

pub fn run(out: &mut Out, rng: &mut Rng, n: u64) {
    let t0 = std::time::Instant::now();
    // panics of the real code are outcomes here (caught, reported as cases): keep stderr readable
    let prev_hook = std::panic::take_hook();
    std::panic::set_hook(Box::new(|_| {}));
    let mut d = Dx { out, calls: BTreeMap::new(), sequences: 0, ops: 0, max_level: 0, max_len: 0, heights: [0; 33] };
    let nseq = (n / 10).clamp(100, 5000);
    scripted(&mut d);
    // sorted sets: one of every shape first, then by weight
    let nz = nseq * 6 / 10;
    let n_long = (nseq / 100).clamp(1, 6);
    let firsts = [Shape::Short, Shape::Medium, Shape::EmptyRefill, Shape::UpDown, Shape::Ascending, Shape::Descending];
    for i in 0..nz {
        let shape = if (i as usize) < firsts.len() {
            firsts[i as usize]
        } else {
            match rng.below(20) {
                0..=5 => Shape::Short,
                6..=13 => Shape::Medium,
                14 | 15 => Shape::EmptyRefill,
                16 | 17 => Shape::UpDown,
                18 => Shape::Ascending,
                _ => Shape::Descending,
            }
        };
        z_sequence(&mut d, rng, shape);
    }
    for _ in 0..n_long {
        z_sequence(&mut d, rng, Shape::Long);
    }
    for _ in 0..(nseq / 5).max(20) {
        zx_sequence(&mut d, rng);
    }
    for _ in 0..nseq * 3 / 10 {
        list_sequence(&mut d, rng);
    }
    for _ in 0..nseq * 3 / 10 {
        sds_sequence(&mut d, rng);
    }
    for _ in 0..(nseq / 20).max(5) {
        set_sequence(&mut d, rng);
        hash_sequence(&mut d, rng);
    }
    std::panic::set_hook(prev_hook);
    coverage(&mut d);
    let heights: BTreeMap<String, u64> = d.heights.iter().enumerate().filter(|(_, c)| **c > 0).map(|(h, c)| (format!("{:02}", h), *c)).collect();
    let summary = json!({
        "sequences": d.sequences,
        "ops": d.ops,
        "max_level_reached": d.max_level,
        "max_len_reached": d.max_len,
        "heights_of_inserted_nodes(seen in the dump that follows the insert)": heights,
        "elapsed_ms": t0.elapsed().as_millis() as u64,
    });
    let (ml, mlen) = (d.max_level, d.max_len);
    d.out.count_n("data:z:max-level-reached", ml as u64);
    d.out.count_n("data:z:max-len-reached", mlen as u64);
    d.out.extra.insert("data_structures".into(), summary);
}

/// source-derived coverage: every `pub fn` of src/redis/data/*.rs is accounted for, every driven one was called
fn coverage(d: &mut Dx) {
    let mut table = serde_json::Map::new();
    let mut empty: Vec<String> = Vec::new();
    for (file, name) in DATA_PUB_FNS {
        let key = format!("{}::{}", file, name);
        let calls = d.calls.iter().find(|((f, n), _)| f == file && n == name).map(|(_, c)| *c).unwrap_or(0);
        match data_coverage(file, name) {
            None => {
                table.insert(key.clone(), json!({"how": "UNACCOUNTED", "calls": calls}));
                d.out.violation(
                    &format!("C01:coverage:data-fn-not-driven:{}", key),
                    &format!("{} exists in src/redis/data/{} but the data harness neither drives it nor lists why not (harness/src/datax.rs, COVERAGE)", name, file),
                    json!({"file": file, "fn": name}),
                );
            }
            Some(how) => {
                if is_driven(how) && calls == 0 {
                    empty.push(key.clone());
                }
                table.insert(key, json!({"how": how, "calls": calls}));
            }
        }
    }
    let stale: Vec<String> = COVERAGE.iter().filter(|(f, n, _)| !DATA_PUB_FNS.iter().any(|(g, m)| g == f && m == n)).map(|(f, n, _)| format!("{}::{}", f, n)).collect();
    if !stale.is_empty() {
        table.insert("(entries of the coverage map that are no longer in the source)".into(), json!(stale));
    }
    d.out.extra.insert("data_api_coverage(derived from src/redis/data/*.rs by build.rs)".into(), Value::Object(table));
    if !empty.is_empty() {
        eprintln!("data coverage: listed as driven but never called: {}", empty.join(", "));
        std::process::exit(3);
    }
}
