//! C10 — WAL recovery yields only intact appended entries; truncation keeps newer ones.
//! Correspondence: real `WalRotator`/`WalReader`/`WalEntry` over `InMemoryWalStore` vs the
//! model (`Model/Wal.lean`) on: the file images the rotator writes, recovery of the intact
//! image, of EVERY truncation length of every file, of bit flips / byte substitutions /
//! zero-filled tails, `truncate_before` for every interesting threshold (active writer and
//! restarted rotator), `recover_entries_after`.
//! Oracle (on the real code only): a recovered entry that was never appended to that file /
//! differs in any field, other files' entries missing or altered, a panic, a deleted file
//! that held a stamp > T, the active file gone.
use crate::c07;
use crate::enc::hex;
use crate::out::Out;
use crate::rng::Rng;
use crate::Args;
use redis_sim::replication::lattice::ReplicaId;
use redis_sim::replication::state::ReplicationDelta;
use redis_sim::streaming::wal_store::{InMemoryWalStore, LocalWalStore, WalError, WalFileReader, WalFileWriter, WalStore};
use redis_sim::streaming::{WalEntry, WalReader, WalRotator, WalWriter};
use serde_json::json;
use std::collections::BTreeMap;
use std::panic::{catch_unwind, AssertUnwindSafe};

pub fn wal_name(seq: u64) -> String {
    format!("wal-{:08x}.wal", seq)
}

pub fn parse_seq(name: &str) -> Option<u64> {
    let n = name.strip_prefix("wal-")?.strip_suffix(".wal")?;
    u64::from_str_radix(n, 16).ok()
}

pub fn show_entry(e: &WalEntry) -> String {
    format!("{} {} {}", e.timestamp, e.checksum, hex(&e.data))
}

pub fn show_entries(es: &[WalEntry]) -> String {
    let mut s = es.len().to_string();
    for e in es {
        s.push(' ');
        s.push_str(&show_entry(e));
    }
    s
}

pub type Image = Vec<(String, Vec<u8>)>;

/// boundary values of an unsigned little-endian field of `width` bytes: 0, 1, max-15..=max,
/// 2^31 +- 1, 2^32 - 1, 2^32 (+1), 2^63 +- 1 (as far as they fit) plus `extra`
pub fn boundary_values(width: usize, extra: &[u64]) -> Vec<u64> {
    let max: u64 = if width >= 8 { u64::MAX } else { (1u64 << (8 * width)) - 1 };
    let mut v: Vec<u64> = vec![0, 1];
    for k in 0..16u64 {
        v.push(max - k.min(max));
    }
    for c in [(1u64 << 31) - 1, 1 << 31, (1 << 31) + 1, (1 << 32) - 1, 1 << 32, (1 << 32) + 1, (1 << 63) - 1, 1 << 63, (1 << 63) + 1] {
        if c <= max {
            v.push(c);
        }
    }
    for e in extra {
        if *e <= max {
            v.push(*e);
        }
    }
    v.sort();
    v.dedup();
    v
}

pub fn le_bytes(v: u64, width: usize) -> Vec<u8> {
    v.to_le_bytes()[..width.min(8)].to_vec()
}

/// constant runs: 0x00 / 0xFF (erased flash) / 0x55 of 4, 8, 16 and 64 bytes
pub fn constant_runs() -> Vec<Vec<u8>> {
    let mut r = Vec::new();
    for b in [0x00u8, 0xFF, 0x55] {
        for n in [4usize, 8, 16, 64] {
            r.push(vec![b; n]);
        }
    }
    r
}

/// write `v` over `b` from `pos`, clipped to the length of `b` (the model's `overwrite`)
pub fn overwrite(b: &[u8], pos: usize, v: &[u8]) -> Vec<u8> {
    let mut o = b.to_vec();
    for (i, x) in v.iter().enumerate() {
        if pos + i < o.len() {
            o[pos + i] = *x;
        }
    }
    o
}

/// the whole directory as `list()` presents it: every name (foreign ones too), sorted by name
pub fn image_of(store: &InMemoryWalStore) -> Image {
    store.list().unwrap().iter().map(|n| (n.clone(), store.get_file_data(n).unwrap())).collect()
}

pub fn show_image(img: &Image) -> String {
    let mut s = img.len().to_string();
    for (n, b) in img {
        s.push_str(&format!(" {} {}", hex(n.as_bytes()), hex(b)));
    }
    s
}

/// the WAL files of a directory in RECOVERY order (parsed sequence, ties in listing order):
/// (rank, listing index, name, contents)
pub fn wal_files(img: &Image) -> Vec<(u64, usize, String, Vec<u8>)> {
    let mut v: Vec<(u64, usize)> = img.iter().enumerate().filter_map(|(i, (n, _))| parse_seq(n).map(|s| (s, i))).collect();
    v.sort();
    v.into_iter().enumerate().map(|(r, (_, i))| (r as u64, i, img[i].0.clone(), img[i].1.clone())).collect()
}

fn same(a: &WalEntry, b: &WalEntry) -> bool {
    a.timestamp == b.timestamp && a.checksum == b.checksum && a.data == b.data
}

/// a file that is in the directory before the rotator under test is created
#[derive(Clone)]
struct PreFile {
    name: String,
    bytes: Vec<u8>,
    /// what a WAL reader is expected to find in it (for names that parse as WAL files)
    entries: Vec<WalEntry>,
}

struct Case {
    max: usize,
    entries: Vec<WalEntry>,
    all_deltas: bool,
    pre: Vec<PreFile>,
}

fn small_delta(rng: &mut Rng) -> ReplicationDelta {
    let key = ["k", "", "key:é", "a\u{0}b"][rng.below(4) as usize].to_string();
    // LWW values only: their bincode bytes do not depend on HashMap iteration order, so the run is
    // byte-for-byte reproducible from the seed (C14 covers every CRDT kind)
    let mut m = c07::random_value(rng);
    while m.crdt.kind() != 0 || m.vc.as_ref().map(|v| v.len() > 1).unwrap_or(false) {
        m = c07::random_value(rng);
    }
    ReplicationDelta::new(key, m.to_real(), ReplicaId::new(rng.range(1, 3)))
}

/// a well-formed WAL file image of the current format
fn wal_image(seq: u64, entries: &[WalEntry]) -> Vec<u8> {
    let mut b = b"RWAL".to_vec();
    b.extend_from_slice(&[crate::cfg::CODE_WAL_FORMAT, 0, 0, 0]);
    b.extend_from_slice(&seq.to_le_bytes());
    for e in entries {
        b.extend_from_slice(&e.encode());
    }
    b
}

fn raw_entry(rng: &mut Rng) -> WalEntry {
    let ts = *rng.pick(&[0u64, 1, 3, 5, 9]);
    let data: Vec<u8> = (0..rng.range(1, 12)).map(|_| rng.below(256) as u8).collect();
    let checksum = crate::cfg::entry_checksum(ts, &data);
    WalEntry { data, timestamp: ts, checksum }
}

const FOREIGN_NAMES: [&str; 13] = [
    "aaa", "zzz", "", "wal-manifest.json", "wal-zzzzzzzz.wal", "wal-0000000g.wal", "wal-00000001.wal.tmp", "wal-", ".wal", "wal-.wal",
    "wal-10000000000000000.wal", "wal--1.wal", "WAL-00000001.WAL",
];

/// directory contents before the rotator under test exists: WAL files at boundary sequence numbers
/// (so that `WalRotator::new` continues from there, across the name-width change at 2^32), names
/// that parse to a sequence without being the canonical name, and foreign files
fn gen_pre(rng: &mut Rng, out: &mut Out) -> Vec<PreFile> {
    let mut pre: Vec<PreFile> = Vec::new();
    if rng.chance(9, 20) {
        return pre;
    }
    if rng.chance(3, 5) {
        let s0 = match rng.below(12) {
            0 => 0,
            1 => 1,
            2 => 0xffff_fffe,
            3 | 4 => 0xffff_ffff,
            5 => 0x1_0000_0000,
            6 => u64::MAX - 1,
            7 => {
                if rng.chance(1, 3) {
                    u64::MAX
                } else {
                    u64::MAX - 2
                }
            }
            8 => 0xffff_fff0 + rng.below(32),
            _ => rng.range(2, 20),
        };
        let es: Vec<WalEntry> = (0..rng.below(3)).map(|_| raw_entry(rng)).collect();
        pre.push(PreFile { name: wal_name(s0), bytes: wal_image(s0, &es), entries: es });
        if s0 > 3 && rng.chance(1, 3) {
            let s1 = s0 - rng.range(1, 3);
            let es: Vec<WalEntry> = (0..rng.below(3)).map(|_| raw_entry(rng)).collect();
            pre.push(PreFile { name: wal_name(s1), bytes: wal_image(s1, &es), entries: es });
        }
        out.count("gen:pre-existing-wal-file");
    }
    if rng.chance(1, 8) {
        // a name that parses to a sequence but is not what wal_file_name would produce
        let (name, q) = *rng.pick(&[("wal-0000000A.wal", 10u64), ("wal-+3.wal", 3), ("wal-7.wal", 7), ("wal-00000000000000002.wal", 2)]);
        let es: Vec<WalEntry> = (0..rng.below(3)).map(|_| raw_entry(rng)).collect();
        pre.push(PreFile { name: name.to_string(), bytes: wal_image(q, &es), entries: es });
        out.count("gen:alias-name");
    }
    for _ in 0..rng.below(3) {
        let name = rng.pick(&FOREIGN_NAMES).to_string();
        if pre.iter().any(|f| f.name == name) {
            continue;
        }
        let bytes = match rng.below(3) {
            0 => vec![],
            1 => (0..rng.range(1, 40)).map(|_| rng.below(256) as u8).collect(),
            _ => {
                // a foreign name holding a perfectly valid WAL image (a backup copy, a temp file)
                let es: Vec<WalEntry> = (0..rng.below(3)).map(|_| raw_entry(rng)).collect();
                wal_image(1, &es)
            }
        };
        pre.push(PreFile { name, bytes, entries: vec![] });
        out.count("gen:foreign-file");
    }
    pre
}

fn gen_case(rng: &mut Rng, out: &mut Out) -> Case {
    let n = match rng.below(10) {
        0 => 0,
        1 => 1,
        _ => rng.range(2, 6),
    } as usize;
    let all_deltas = rng.chance(1, 2);
    // stamps: a small multiset in random order (ties, non-monotone, extremes)
    let pool: [u64; 9] = [0, 1, 2, 3, 5, 5, 9, 261, u64::MAX];
    let mut entries = Vec::new();
    for _ in 0..n {
        let ts = if rng.chance(1, 12) { rng.next() } else { *rng.pick(&pool) };
        let mut e = if all_deltas {
            WalEntry::from_delta(&small_delta(rng), ts).unwrap()
        } else {
            let len = *rng.pick(&[0usize, 1, 2, 15, 16, 17, 40]);
            let data: Vec<u8> = (0..len).map(|_| if rng.chance(1, 4) { 0 } else { rng.below(256) as u8 }).collect();
            let checksum = crate::cfg::entry_checksum(ts, &data);
            WalEntry { data, timestamp: ts, checksum }
        };
        if !all_deltas && rng.chance(1, 25) {
            e.checksum = e.checksum.wrapping_add(1); // appended with a wrong checksum (pub fields)
            out.count("gen:entry-with-wrong-checksum");
        }
        entries.push(e);
    }
    // thresholds around "header + k entries"
    let sizes: Vec<usize> = entries.iter().map(|e| 16 + e.data.len()).collect();
    let max = match rng.below(6) {
        0 => 17,
        1 => 1 << 20,
        2 => 16 + sizes.iter().take(1).sum::<usize>(),
        3 => 16 + sizes.iter().take(2).sum::<usize>(),
        4 => 16 + sizes.iter().take(2).sum::<usize>() + 1,
        _ => rng.range(17, 200) as usize,
    };
    let pre = gen_pre(rng, out);
    Case { max, entries, all_deltas, pre }
}

/// the real rotator (a NEW one: `WalRotator::new` scans the directory) driven over the
/// pre-populated store; returns (store, rotator, name of the file of each entry) or `None` when the
/// rotator panicked
fn build(c: &Case) -> (InMemoryWalStore, Option<WalRotator<InMemoryWalStore>>, Vec<String>) {
    let store = InMemoryWalStore::new();
    for f in &c.pre {
        let mut w = store.create(&f.name).unwrap();
        if !f.bytes.is_empty() {
            w.append(&f.bytes).unwrap();
        }
    }
    let st = store.clone();
    let max = c.max;
    let entries = c.entries.clone();
    let r = catch_unwind(AssertUnwindSafe(move || {
        let mut rot = WalRotator::new(st, max).unwrap();
        let mut file_of = Vec::new();
        for e in &entries {
            file_of.push(wal_name(rot.append(e).unwrap()));
        }
        (rot, file_of)
    }));
    match r {
        Ok((rot, file_of)) => (store, Some(rot), file_of),
        Err(_) => (store, None, vec![]),
    }
}

trait Recoverable {
    fn rec(&self) -> Vec<WalEntry>;
}
impl Recoverable for WalRotator<InMemoryWalStore> {
    fn rec(&self) -> Vec<WalEntry> {
        self.recover_all_entries().unwrap()
    }
}
impl<'a> Recoverable for RecoverFn<'a> {
    fn rec(&self) -> Vec<WalEntry> {
        (self.0)()
    }
}
fn recover<R: Recoverable>(rot: &R) -> Option<Vec<WalEntry>> {
    catch_unwind(AssertUnwindSafe(|| rot.rec())).ok()
}

struct Ctx<'a> {
    out: &'a mut Out,
    case_json: serde_json::Value,
    appended: BTreeMap<u64, Vec<WalEntry>>, // per file, in append order
    intact: BTreeMap<u64, Vec<WalEntry>>,   // what the intact file reads as
}

impl<'a> Ctx<'a> {
    /// oracle for one recovery of an image in which only file `seq` is damaged
    fn check(&mut self, kind: &str, seq: u64, detail: String, rec: &Option<Vec<WalEntry>>) {
        let replay = json!({"case": self.case_json, "damage": kind, "file": seq, "detail": detail});
        let rec = match rec {
            None => {
                self.out.violation(&format!("C10:panic:{}", kind), "recovery panicked", replay);
                return;
            }
            Some(r) => r,
        };
        let pre: Vec<&WalEntry> = self.intact.iter().filter(|(q, _)| **q < seq).flat_map(|(_, v)| v.iter()).collect();
        let post: Vec<&WalEntry> = self.intact.iter().filter(|(q, _)| **q > seq).flat_map(|(_, v)| v.iter()).collect();
        let ok_frame = rec.len() >= pre.len() + post.len()
            && pre.iter().zip(rec.iter()).all(|(a, b)| same(a, b))
            && post.iter().rev().zip(rec.iter().rev()).all(|(a, b)| same(a, b));
        if !ok_frame {
            self.out.violation(
                &format!("C10:files-independent:{}", kind),
                "damage to one file changed what is recovered from the other files",
                replay,
            );
            return;
        }
        let mid = &rec[pre.len()..rec.len() - post.len()];
        let app = self.appended.get(&seq).cloned().unwrap_or_default();
        // every recovered entry must be the appended one at the same position of the file
        // (damage keeps the layout or ends recovery), bit-identical in every field
        for (i, e) in mid.iter().enumerate() {
            let a = app.get(i);
            if a.map(|a| same(a, e)).unwrap_or(false) {
                continue;
            }
            if let Some(a) = a {
                if !a.validate() && a.data == e.data && a.timestamp == e.timestamp {
                    // the entry was APPENDED with a wrong stored checksum (pub fields, no check in
                    // release builds) and the damage happened to repair it: payload and stamp are
                    // what was appended
                    self.out.count("excluded:damage-repaired-a-wrong-appended-checksum");
                    continue;
                }
            }
            let class = if a.map(|a| a.data == e.data && a.checksum == e.checksum && a.timestamp != e.timestamp).unwrap_or(false) {
                "timestamp-not-covered".to_string()
            } else if e.data.is_empty() && e.timestamp == 0 && e.checksum == 0 {
                "zero-entry".to_string()
            } else if e.validate() && a.map(|a| a.validate() && a.checksum == e.checksum && a.timestamp == e.timestamp && a.data.len() != e.data.len() && (a.data.starts_with(&e.data) || e.data.starts_with(&a.data))).unwrap_or(false) {
                // a genuine CRC-32 collision between `len | stamp | payload` and `len' | stamp | payload'` of
                // ANOTHER length (the length field was damaged): Props/C10Window.lean length_bit_flip_counterexample
                "crc32-collision:length-field".to_string()
            } else if e.validate() && a.map(|a| a.validate() && a.checksum == e.checksum && a.timestamp == e.timestamp && a.data.len() == e.data.len() && a.data.iter().zip(e.data.iter()).filter(|(x, y)| x != y).count() >= 2 && {
                let first = a.data.iter().zip(e.data.iter()).position(|(x, y)| x != y).unwrap_or(0);
                let last = a.data.iter().zip(e.data.iter()).rposition(|(x, y)| x != y).unwrap_or(0);
                last - first >= 4
            }).unwrap_or(false) {
                // a genuine CRC-32 collision between two payloads of the same length that differ over a span
                // of MORE than 4 bytes (anything narrower is detected: field_damage_yields_prefix):
                // Props/C10Window.lean torn_zero_fill_counterexample
                "crc32-collision:wide-damage".to_string()
            } else {
                format!("{}:foreign", kind)
            };
            self.out.violation(
                &format!("C10:only-appended:{}", class),
                &format!("recovery returned an entry that was never appended at this position of the file: stamp {} crc {} data {}", e.timestamp, e.checksum, hex(&e.data)),
                replay.clone(),
            );
            return;
        }
        if kind == "truncate" {
            let it = &self.intact[&seq];
            if !(mid.len() <= it.len() && mid.iter().zip(it.iter()).all(|(a, b)| same(a, b))) {
                self.out.violation("C10:prefix:truncate", "a truncated file did not read as a prefix of the intact file", replay);
            }
        }
    }
}


/// accessors and secondary entry points the rotator-level ops do not reach: `WalEntry::validate` /
/// `disk_size`, `WalWriter::{entry_count,max_timestamp,size}`, `WalReader::{sequence,entries_after}`
fn accessor_ops(c: &Case, store: &InMemoryWalStore, img: &Image, out: &mut Out) {
    for e in c.entries.iter().chain(c.pre.iter().flat_map(|f| f.entries.iter())) {
        out.op(format!("VE {}", show_entry(e)), format!("valid={} size={}", e.validate() as u8, e.disk_size()));
        out.count("op:validate+disk_size");
    }
    {
        let st = InMemoryWalStore::new();
        let mut w = WalWriter::new(st.create("w").unwrap(), 7).unwrap();
        for e in &c.entries {
            w.append_entry(e).unwrap();
        }
        let _ = w.sync();
        let ents: Vec<String> = c.entries.iter().map(show_entry).collect();
        out.op(format!("WW {} {}", c.entries.len(), ents.join(" ")), format!("count {} max_ts {} size {}", w.entry_count(), w.max_timestamp(), w.size()));
        if w.sequence() != 7 {
            out.violation("C10:writer:sequence", "WalWriter::sequence() is not the sequence it was created with", json!({}));
        }
        out.count("op:wal-writer-accessors");
    }
    for (name, bytes) in img {
        let mut ths: Vec<u64> = vec![0, u64::MAX];
        for e in &c.entries {
            ths.push(e.timestamp);
            ths.push(e.timestamp.wrapping_add(1));
        }
        ths.sort();
        ths.dedup();
        for t in ths {
            let r = store.open_read(name).ok().and_then(|r| WalReader::open(r).ok());
            let imp = match r {
                None => "err".to_string(),
                Some(rd) => format!("seq {} | {}", rd.sequence(), show_entries(&rd.entries_after(t))),
            };
            out.op(format!("RS {} {}", hex(bytes), t), imp);
            out.count("op:reader:sequence+entries_after");
        }
    }
}

/// THE PRODUCTION STORE: the same directory and appends through `LocalWalStore` (real files under the
/// run directory, `sync_all`), compared with the model like the in-memory runs: directory listing and
/// file bytes after the appends, recovery, recovery of a few cut files, `truncate_before` with and
/// without an open writer, a restarted rotator; `exists`, `open_read` of a missing file, `delete`.
fn local_store_case(c: &Case, rng: &mut Rng, out: &mut Out, dir: &std::path::Path) {
    let usable = |n: &str| !n.is_empty() && !n.contains('/') && !n.contains('\0') && n != "." && n != "..";
    let pre: Vec<&PreFile> = c.pre.iter().filter(|f| usable(&f.name)).collect();
    let _ = std::fs::remove_dir_all(dir);
    let local = match LocalWalStore::new(dir.to_path_buf()) {
        Ok(s) => s,
        Err(e) => {
            out.violation("C10:local-store:cannot-create-directory", &format!("LocalWalStore::new failed: {}", e), json!({"dir": dir.display().to_string()}));
            return;
        }
    };
    let read = |n: &str| -> Vec<u8> { local.open_read(n).and_then(|mut r| r.read_all()).unwrap_or_default() };
    let image = || -> Image { local.list().unwrap().iter().map(|n| (n.clone(), read(n))).collect() };
    for f in &pre {
        let mut w = local.create(&f.name).unwrap();
        if !f.bytes.is_empty() {
            w.append(&f.bytes).unwrap();
        }
        w.sync().unwrap();
        if w.size() != f.bytes.len() as u64 {
            out.violation("C10:local-store:size", "LocalWalWriter::size() differs from the bytes appended", json!({"name": f.name}));
        }
    }
    // what `list()` must not report (the model's directory holds regular files only): a SUBDIRECTORY with a
    // WAL name, a symlink to a device, a file whose name is not UTF-8
    let decoys = rng.chance(1, 3);
    if decoys {
        let _ = std::fs::create_dir(dir.join("wal-7fffffff.wal"));
        let _ = std::os::unix::fs::symlink("/dev/null", dir.join("wal-7ffffffe.wal"));
        use std::os::unix::ffi::OsStrExt;
        let _ = std::fs::write(dir.join(std::ffi::OsStr::from_bytes(b"wal-\xff\xfe.wal")), b"x");
        out.count("local-store:decoys(subdirectory,device-symlink,non-utf8-name)");
    }
    check_listing(&local, dir, out, "after-pre-files");
    let pre_img = image();
    out.op(format!("I {}", show_image(&pre_img)), format!("ok {}", pre_img.len()));
    let ents: Vec<String> = c.entries.iter().map(show_entry).collect();
    let built = catch_unwind(AssertUnwindSafe(|| {
        let mut rot = WalRotator::new(local.clone(), c.max).unwrap();
        for e in &c.entries {
            rot.append(e).unwrap();
        }
        rot.sync().unwrap();
        rot
    }));
    let mut rot = match built {
        Ok(r) => r,
        Err(_) => {
            out.op(format!("NA {} {} {}", c.max, c.entries.len(), ents.join(" ")), "crash".into());
            let _ = std::fs::remove_dir_all(dir);
            return;
        }
    };
    check_listing(&local, dir, out, "after-appends");
    let img = image();
    let cur = if c.entries.is_empty() { "-".to_string() } else { hex(wal_name(rot.current_sequence()).as_bytes()) };
    out.op(format!("NA {} {} {}", c.max, c.entries.len(), ents.join(" ")), format!("{} cur={}", show_image(&img), cur));
    out.op(format!("I {}", show_image(&img)), format!("ok {}", img.len()));
    out.count("local-store:case");
    out.op("R".into(), recover(&rot_as_any(&rot)).map(|r| show_entries(&r)).unwrap_or("crash".into()));
    // exists / open_read of a missing file
    for (n, _) in &img {
        if !local.exists(n).unwrap_or(false) {
            out.violation("C10:local-store:exists", "LocalWalStore::exists is false for a listed file", json!({"name": n}));
        }
    }
    if local.exists("wal-no-such-file.wal").unwrap_or(true) {
        out.violation("C10:local-store:exists", "LocalWalStore::exists is true for a missing file", json!({}));
    }
    if !matches!(local.open_read("wal-no-such-file.wal"), Err(WalError::NotFound(_))) {
        out.violation("C10:local-store:open-missing", "open_read of a missing file is not NotFound", json!({}));
    }
    // a few cut files (written behind the store's back, as a crash would leave them)
    for (li, (n, b)) in img.iter().enumerate() {
        if parse_seq(n).is_none() {
            continue;
        }
        for len in [0usize, 15, 16, b.len().saturating_sub(1), rng.below(b.len() as u64 + 1) as usize] {
            if len > b.len() {
                continue;
            }
            std::fs::write(dir.join(n), &b[..len]).unwrap();
            out.op(format!("t {} {}", li, len), recover(&rot_as_any(&rot)).map(|r| show_entries(&r)).unwrap_or("crash".into()));
            out.count("local-store:damage:truncate");
        }
        std::fs::write(dir.join(n), b).unwrap();
    }
    // truncate_before with the open writer, then after a restart
    let mut ths: Vec<u64> = c.entries.iter().map(|e| e.timestamp).collect();
    ths.push(0);
    ths.sort();
    ths.dedup();
    let t = *rng.pick(&ths);
    let active = if c.entries.is_empty() { None } else { Some(wal_name(rot.current_sequence())) };
    let r = catch_unwind(AssertUnwindSafe(|| rot.truncate_before(t)));
    let remain: Vec<String> = local.list().unwrap();
    out.op(
        format!("T {} {}", t, active.as_ref().map(|a| hex(a.as_bytes())).unwrap_or("-".into())),
        match &r { Ok(Ok(d)) => format!("deleted={} remain {}", d, remain.iter().map(|n| hex(n.as_bytes())).collect::<Vec<_>>().join(" ")), Ok(Err(_)) => "err".into(), Err(_) => "crash".into() },
    );
    out.count("local-store:truncate_before");
    // restart over what is left
    drop(rot);
    let img2 = image();
    out.op(format!("I {}", show_image(&img2)), format!("ok {}", img2.len()));
    if let Ok(mut rot2) = WalRotator::new(local.clone(), c.max) {
        out.op("R".into(), recover(&rot_as_any(&rot2)).map(|r| show_entries(&r)).unwrap_or("crash".into()));
        let r = catch_unwind(AssertUnwindSafe(|| rot2.truncate_before(u64::MAX)));
        let remain: Vec<String> = local.list().unwrap();
        out.op(
            format!("T {} -", u64::MAX),
            match &r { Ok(Ok(d)) => format!("deleted={} remain {}", d, remain.iter().map(|n| hex(n.as_bytes())).collect::<Vec<_>>().join(" ")), Ok(Err(_)) => "err".into(), Err(_) => "crash".into() },
        );
        // delete of a missing file is not an error
        if local.delete("wal-no-such-file.wal").is_err() {
            out.violation("C10:local-store:delete-missing", "deleting a missing file is an error", json!({}));
        }
    }
    let _ = std::fs::remove_dir_all(dir);
}

/// ORACLE (independent of `list()` itself — the model is fed what `list()` returns): the listing is exactly the
/// regular files of the directory whose names are UTF-8, in byte order, as the harness' own `read_dir` sees them
fn check_listing(local: &LocalWalStore, dir: &std::path::Path, out: &mut Out, when: &str) {
    let mut want: Vec<String> = std::fs::read_dir(dir)
        .map(|rd| rd.filter_map(|e| e.ok()).filter(|e| std::fs::metadata(e.path()).map(|m| m.is_file()).unwrap_or(false)).filter_map(|e| e.file_name().into_string().ok()).collect())
        .unwrap_or_default();
    want.sort();
    match local.list() {
        Ok(got) if got == want => out.count("local-store:list:agrees-with-read_dir"),
        Ok(got) => out.violation("C10:local-store:list", "LocalWalStore::list() is not the sorted list of the regular UTF-8-named files of the directory", json!({"when": when, "list": got, "directory": want})),
        Err(e) => out.violation("C10:local-store:list", &format!("LocalWalStore::list() failed: {}", e), json!({"when": when})),
    }
}

/// `LocalWalStore` behaviour that only real files show (run once per check): nested directory creation,
/// a path that is a file, `create` over an existing name, a full disk (`/dev/full` behind a symlink at the
/// name the rotator will create next), recovery over the result
fn local_store_extras(out: &mut Out, base: &std::path::Path) {
    let _ = std::fs::remove_dir_all(base);
    let nested = base.join("a").join("b").join("wal");
    let local = match LocalWalStore::new(nested.clone()) {
        Ok(l) => l,
        Err(e) => {
            out.violation("C10:local-store:cannot-create-directory", &format!("LocalWalStore::new on a nested path failed: {}", e), json!({"dir": nested.display().to_string()}));
            return;
        }
    };
    out.count("local-store:extras:nested-directory-created");
    // a second store over the same (existing) directory is fine; a path that is a FILE is an error, not a panic
    if LocalWalStore::new(nested.clone()).is_err() {
        out.violation("C10:local-store:existing-directory", "LocalWalStore::new on an existing directory failed", json!({}));
    }
    std::fs::write(base.join("plain-file"), b"x").unwrap();
    match catch_unwind(AssertUnwindSafe(|| LocalWalStore::new(base.join("plain-file")))) {
        Ok(Err(_)) => out.count("local-store:extras:path-is-a-file:error"),
        Ok(Ok(_)) => out.violation("C10:local-store:path-is-a-file", "LocalWalStore::new accepted a path that is a regular file", json!({})),
        Err(_) => out.violation("C10:panic:local-store-new", "LocalWalStore::new panicked on a path that is a regular file", json!({})),
    }
    // create over an existing name truncates (what the model's `create` does), and the new writer starts at 0
    {
        let mut w = local.create("wal-000000aa.wal").unwrap();
        w.append(b"0123456789").unwrap();
        w.sync().unwrap();
        drop(w);
        let mut w2 = local.create("wal-000000aa.wal").unwrap();
        let size0 = w2.size();
        w2.append(b"ab").unwrap();
        let size2 = w2.size();
        drop(w2);
        let bytes = local.open_read("wal-000000aa.wal").and_then(|mut r| r.read_all()).unwrap_or_default();
        if size0 != 0 || size2 != 2 || bytes != b"ab" {
            out.violation("C10:local-store:create-truncates", "create over an existing name did not start an empty file", json!({"size_after_create": size0, "size_after_append": size2, "bytes": hex(&bytes)}));
        }
        local.delete("wal-000000aa.wal").unwrap();
        out.count("local-store:extras:create-over-existing-name");
    }
    // a full disk under file 1: its header cannot be written; the rotator reports the error, moves on to file 2,
    // and recovery returns exactly what was appended successfully
    if std::path::Path::new("/dev/full").exists() {
        let _ = std::os::unix::fs::symlink("/dev/full", nested.join(wal_name(1)));
        let e = |t: u64| { let data = vec![t as u8, 9, 9]; let checksum = crate::cfg::entry_checksum(t, &data); WalEntry { data, timestamp: t, checksum } };
        let r = catch_unwind(AssertUnwindSafe(|| {
            let mut rot = WalRotator::new(local.clone(), 1 << 20).unwrap();
            let mut ok = Vec::new();
            let mut results = Vec::new();
            for t in 1..=3u64 {
                let en = e(t);
                let res = rot.append(&en);
                results.push(res.is_ok());
                if res.is_ok() {
                    ok.push(en);
                }
            }
            let synced = rot.sync().is_ok();
            let rec = rot.recover_all_entries().unwrap();
            (results, synced, ok, rec)
        }));
        match r {
            Err(_) => out.violation("C10:panic:local-store-disk-full", "the rotator panicked on a full disk", json!({})),
            Ok((results, synced, ok, rec)) => {
                out.count("local-store:extras:disk-full(/dev/full)");
                let same = ok.len() == rec.len() && ok.iter().zip(rec.iter()).all(|(a, b)| same(a, b));
                // the model (Rot.rotate: create ok, header append fails -> error, no current writer; next append
                // rotates to file 2): [false, true, true]; the failed writer poisons the next sync() once
                if results != vec![false, true, true] || !same {
                    out.violation("C10:local-store:disk-full", "appends over a full disk: results / recovery differ from the model's (first append fails in rotate, the next ones go to the next file, recovery = what was appended)", json!({"append_ok": results, "sync_ok": synced, "appended_ok": ok.len(), "recovered": rec.len()}));
                }
            }
        }
    } else {
        out.count("local-store:extras:no-/dev/full");
    }
    let _ = std::fs::remove_dir_all(base);
}

/// `recover()` takes the in-memory rotator type; the local one goes through the same code
fn rot_as_any<S: WalStore>(rot: &WalRotator<S>) -> RecoverFn<'_> {
    RecoverFn(Box::new(move || rot.recover_all_entries().unwrap()))
}

struct RecoverFn<'a>(Box<dyn Fn() -> Vec<WalEntry> + 'a>);

fn run_case(c: &Case, rng: &mut Rng, out: &mut Out, thorough: bool, fixed: Option<&str>) {
    let ents: Vec<String> = c.entries.iter().map(show_entry).collect();
    // the directory the rotator starts from
    let pre_img: Image = {
        let st = InMemoryWalStore::new();
        for f in &c.pre {
            let mut w = st.create(&f.name).unwrap();
            if !f.bytes.is_empty() {
                w.append(&f.bytes).unwrap();
            }
        }
        image_of(&st)
    };
    out.op(format!("I {}", show_image(&pre_img)), format!("ok {}", pre_img.len()));
    let (store, rot, file_of) = build(c);
    let img = image_of(&store);
    let case_json = json!({"max_file_size": c.max, "entries": ents,
        "directory_before": c.pre.iter().map(|f| json!([f.name, hex(&f.bytes)])).collect::<Vec<_>>(),
        "files": img.iter().map(|(n, b)| json!([n, hex(b)])).collect::<Vec<_>>(), "source": fixed.unwrap_or("generated")});
    for f in &c.pre {
        out.count(&format!("pre-file:{}", if let Some(q) = parse_seq(&f.name) {
            if f.name != wal_name(q) { "alias-of-a-wal-name".to_string() } else if q >= (1u64 << 32) { "wal-seq>=2^32".to_string() } else if q >= 0xffff_fff0 { "wal-seq-near-2^32".to_string() } else { "wal".to_string() }
        } else { "foreign".to_string() }));
    }
    let rot = match rot {
        Some(r) => r,
        None => {
            // `WalRotator::new` + appends over this directory panicked
            out.op(format!("NA {} {} {}", c.max, c.entries.len(), ents.join(" ")), "crash".into());
            let top = c.pre.iter().filter_map(|f| parse_seq(&f.name)).max();
            if top.map(|t| t >= u64::MAX - c.entries.len() as u64).unwrap_or(false) {
                out.count("observed:rotate-panics-on-sequence-overflow(file with sequence 2^64-1 present)");
            } else {
                out.violation("C10:panic:rotator", "WalRotator::new / append panicked", json!({"case": case_json}));
            }
            return;
        }
    };
    let cur = if c.entries.is_empty() { "-".to_string() } else { hex(wal_name(rot.current_sequence()).as_bytes()) };
    out.op(
        format!("NA {} {} {}", c.max, c.entries.len(), ents.join(" ")),
        format!("{} cur={}", show_image(&img), cur),
    );
    out.op(format!("I {}", show_image(&img)), format!("ok {}", img.len()));
    let wal = wal_files(&img);
    let canon = format!("{} {} | {}", c.max, ents.join(" "), c.pre.iter().map(|f| format!("{}:{}", f.name, f.bytes.len())).collect::<Vec<_>>().join(","));
    out.case(&canon, c.entries.len() >= 2 && img.len() >= 1);
    out.sample(case_json.clone());
    out.count(&format!("files:{}", img.len().min(5)));
    out.count(&format!("entries:{}", c.entries.len()));
    out.count(if c.all_deltas { "payload:real-deltas" } else { "payload:raw-bytes" });
    {
        let mut st: Vec<u64> = c.entries.iter().map(|e| e.timestamp).collect();
        let sorted = st.windows(2).all(|w| w[0] <= w[1]);
        st.sort();
        let ties = st.windows(2).any(|w| w[0] == w[1]);
        out.count(if sorted { "stamps:monotone" } else { "stamps:non-monotone" });
        if ties {
            out.count("stamps:ties");
        }
    }

    let rank_of = |name: &str| wal.iter().find(|w| w.2 == name).map(|w| w.0);
    let mut appended: BTreeMap<u64, Vec<WalEntry>> = BTreeMap::new();
    for f in &c.pre {
        if let Some(q) = rank_of(&f.name) {
            // (a pre-existing file that the rotator re-created would be a defect: its entries stay expected)
            appended.entry(q).or_default().extend(f.entries.iter().cloned());
        }
    }
    for (e, n) in c.entries.iter().zip(&file_of) {
        if let Some(q) = rank_of(n) {
            appended.entry(q).or_default().push(e.clone());
        }
    }
    // what each intact file reads as (real per-file reader); an unreadable one contributes nothing
    let mut intact: BTreeMap<u64, Vec<WalEntry>> = BTreeMap::new();
    for (q, _, name, _) in &wal {
        let es = store.open_read(name).ok().and_then(|r| WalReader::open(r).ok()).map(|r| r.entries()).unwrap_or_default();
        intact.insert(*q, es);
    }
    // intact recovery
    let rec = recover(&rot);
    out.op("R".into(), rec.as_ref().map(|r| show_entries(r)).unwrap_or("crash".into()));
    accessor_ops(c, &store, &img, out);
    out.op(format!("I {}", show_image(&img)), format!("ok {}", img.len()));
    {
        // sanity oracle: an intact file reads back what was appended up to the first entry
        // whose stored checksum is wrong (bit-identical, in order)
        for (q, app) in &appended {
            let good: Vec<&WalEntry> = app.iter().take_while(|e| e.validate() && !(crate::cfg::CODE_WAL_FORMAT >= 2 && e.data.is_empty())).collect();
            let got = &intact[q];
            if got.is_empty() && !app.is_empty() && wal.iter().find(|w| w.0 == *q).map(|w| w.3.len() < 16).unwrap_or(false) { continue; }
            if !(good.len() == got.len() && good.iter().zip(got.iter()).all(|(a, b)| same(a, b))) {
                out.violation("C10:intact:mismatch", "an undamaged file did not read back the appended entries", json!({"case": case_json, "file": q}));
            }
        }
    }
    let mut ctx = Ctx { out, case_json: case_json.clone(), appended, intact };

    // every truncation length of every file
    for (q, li, name, bytes) in wal.iter().map(|w| (&w.0, w.1, w.2.clone(), &w.3)) {
        for len in 0..=bytes.len() {
            store.set_file_data(&name, bytes[..len].to_vec());
            let rec = recover(&rot);
            ctx.out.op(format!("t {} {}", li, len), rec.as_ref().map(|r| show_entries(r)).unwrap_or("crash".into()));
            ctx.check("truncate", *q, format!("len={}", len), &rec);
            ctx.out.count("damage:truncate");
        }
        store.set_file_data(&name, bytes.clone());
    }
    // bit flips / byte substitutions
    for (q, li, name, bytes) in wal.iter().map(|w| (&w.0, w.1, w.2.clone(), &w.3)) {
        let mut muts: Vec<(usize, u8)> = Vec::new(); // (pos, new value)
        for pos in 0..bytes.len() {
            if thorough {
                for bit in 0..8 {
                    muts.push((pos, bytes[pos] ^ (1 << bit)));
                }
                muts.push((pos, 0x00));
                muts.push((pos, 0xFF));
            } else {
                // quick: the file header and the first 48 bytes densely, the rest sampled
                let p = if pos < 64 { 2 } else { 6 };
                if rng.chance(1, p) {
                    muts.push((pos, bytes[pos] ^ (1 << rng.below(8))));
                }
                if rng.chance(1, 12) {
                    muts.push((pos, if rng.chance(1, 2) { 0 } else { 0xFF }));
                }
            }
        }
        if let Some(f) = fixed {
            if f.contains("timestamp-flip") {
                muts.insert(0, (16 + 5, bytes[16 + 5] ^ 1));
            }
            if f.contains("crc32-collision:length") && bytes.len() > 16 && bytes[16] == 5 {
                // ONE flipped bit in the first length byte of the first entry: 5 -> 1
                muts.insert(0, (16, 1));
            }
        }
        for (pos, val) in muts {
            if bytes[pos] == val {
                continue;
            }
            let mut b = bytes.clone();
            b[pos] = val;
            store.set_file_data(&name, b);
            let rec = recover(&rot);
            ctx.out.op(format!("x {} {} {}", li, pos, val), rec.as_ref().map(|r| show_entries(r)).unwrap_or("crash".into()));
            let kind = if (bytes[pos] ^ val).count_ones() == 1 { "bitflip" } else { "setbyte" };
            ctx.check(kind, *q, format!("pos={} old={} new={}", pos, bytes[pos], val), &rec);
            ctx.out.count(&format!("damage:{}", kind));
            let region = if pos < 16 {
                "file-header"
            } else {
                // locate inside the intact layout
                let mut off = 16usize;
                let mut r = "tail";
                for e in ctx.appended.get(q).map(|v| v.as_slice()).unwrap_or(&[]) {
                    let sz = 16 + e.data.len();
                    if pos < off + sz {
                        let d = pos - off;
                        r = if d < 4 { "entry-len" } else if d < 12 { "entry-timestamp" } else if d < 16 { "entry-crc" } else { "entry-data" };
                        break;
                    }
                    off += sz;
                }
                r
            };
            ctx.out.count(&format!("damage-region:{}", region));
        }
        store.set_file_data(&name, bytes.clone());
    }
    // boundary values in every integer field of the file header and of the entry headers, and
    // constant runs (00.. / FF.. / 55.. of 4, 8, 16, 64 bytes) written over / appended after a cut at
    // every field and entry boundary
    for (q, li, name, bytes) in wal.iter().map(|w| (&w.0, w.1, w.2.clone(), &w.3)) {
        // (position, width, is-length-field) of every integer field; entry boundaries
        let mut fields: Vec<(usize, usize, bool)> = vec![(4, 1, false), (5, 1, false), (6, 2, false), (8, 8, false)];
        let mut bounds: Vec<usize> = vec![0, 4, 8, 16];
        let mut off = 16usize;
        let app = ctx.appended.get(q).cloned().unwrap_or_default();
        for (i, e) in app.iter().enumerate() {
            // quick: the first entry and one more per file; thorough: all
            let dense = thorough || i == 0 || i + 1 == app.len();
            if dense {
                fields.push((off, 4, true));
                fields.push((off + 4, 8, false));
                fields.push((off + 12, 4, false));
                bounds.extend([off, off + 4, off + 12, off + 16]);
            }
            off += 16 + e.data.len();
        }
        bounds.push(bytes.len());
        bounds.sort();
        bounds.dedup();
        // (the layout is computed from what was APPENDED; when the file on disk is shorter — a changed
        // rotator — the harness must report that through the oracles, not panic while slicing)
        bounds.retain(|p| *p <= bytes.len());
        for (pos, width, is_len) in fields {
            if pos + width > bytes.len() {
                continue;
            }
            let remaining = (bytes.len() - pos) as u64;
            let extra: Vec<u64> = if is_len {
                vec![remaining.saturating_sub(16), remaining.saturating_sub(15), remaining.saturating_sub(17), remaining, (1u64 << 32) - 16 - pos as u64, (1u64 << 32) - pos as u64]
            } else {
                vec![]
            };
            for v in boundary_values(width, &extra) {
                let w = le_bytes(v, width);
                if bytes[pos..pos + width] == w[..] {
                    continue;
                }
                store.set_file_data(&name, overwrite(bytes, pos, &w));
                let rec = recover(&rot);
                ctx.out.op(format!("w {} {} {}", li, pos, hex(&w)), rec.as_ref().map(|r| show_entries(r)).unwrap_or("crash".into()));
                ctx.check("boundary-value", *q, format!("pos={} width={} value={}", pos, width, v), &rec);
                ctx.out.count(if is_len { "damage:boundary-value:length-field" } else { "damage:boundary-value:other-field" });
            }
        }
        for p in bounds {
            for run in constant_runs() {
                if p < bytes.len() {
                    store.set_file_data(&name, overwrite(bytes, p, &run));
                    let rec = recover(&rot);
                    ctx.out.op(format!("w {} {} {}", li, p, hex(&run)), rec.as_ref().map(|r| show_entries(r)).unwrap_or("crash".into()));
                    ctx.check("constant-run", *q, format!("pos={} run={}x{:02x}", p, run.len(), run[0]), &rec);
                    ctx.out.count(&format!("damage:constant-run:{:02x}", run[0]));
                }
                if run.len() >= 16 || thorough {
                    // torn tail that reads back as a constant (erased flash)
                    let mut b = bytes[..p].to_vec();
                    b.extend_from_slice(&run);
                    store.set_file_data(&name, b);
                    let rec = recover(&rot);
                    ctx.out.op(format!("ta {} {} {}", li, p, hex(&run)), rec.as_ref().map(|r| show_entries(r)).unwrap_or("crash".into()));
                    ctx.check("cut+constant-tail", *q, format!("cut={} tail={}x{:02x}", p, run.len(), run[0]), &rec);
                    ctx.out.count(&format!("damage:cut+constant-tail:{:02x}", run[0]));
                }
            }
        }
        store.set_file_data(&name, bytes.clone());
    }
    // a file cut a few bytes before its end, the lost bytes zero-filled (the torn last write of a crash)
    for (q, li, name, bytes) in wal.iter().map(|w| (&w.0, w.1, w.2.clone(), &w.3)) {
        let mut cuts: Vec<(usize, usize)> = Vec::new(); // (bytes lost, zeros appended)
        for lost in 1..=6usize {
            if bytes.len() >= 16 + lost && (thorough || lost <= 5 || rng.chance(1, 2)) {
                cuts.push((lost, lost));
                if rng.chance(1, 3) {
                    cuts.push((lost, lost + 16));
                }
                if lost > 1 && rng.chance(1, 3) {
                    cuts.push((lost, lost - 1));
                }
            }
        }
        for (lost, zeros) in cuts {
            let p = bytes.len() - lost;
            let mut b = bytes[..p].to_vec();
            b.extend(std::iter::repeat(0u8).take(zeros));
            store.set_file_data(&name, b);
            let rec = recover(&rot);
            ctx.out.op(format!("ta {} {} {}", li, p, hex(&vec![0u8; zeros])), rec.as_ref().map(|r| show_entries(r)).unwrap_or("crash".into()));
            ctx.check("torn-tail+zero-fill", *q, format!("lost={} zeros={}", lost, zeros), &rec);
            ctx.out.count(&format!("damage:torn-tail+zero-fill:lost={}", if lost <= 4 { "1..4(proved)" } else { "5+" }));
        }
        store.set_file_data(&name, bytes.clone());
    }
    // zero-filled / garbage tails
    for (q, li, name, bytes) in wal.iter().map(|w| (&w.0, w.1, w.2.clone(), &w.3)) {
        let mut tails: Vec<Vec<u8>> = vec![vec![0; 16], vec![0; 15], vec![0; 33]];
        if thorough || rng.chance(1, 3) {
            tails.push((0..rng.range(1, 40)).map(|_| rng.below(256) as u8).collect());
        }
        for t in tails {
            let mut b = bytes.clone();
            b.extend_from_slice(&t);
            store.set_file_data(&name, b);
            let rec = recover(&rot);
            ctx.out.op(format!("a {} {}", li, hex(&t)), rec.as_ref().map(|r| show_entries(r)).unwrap_or("crash".into()));
            let kind = if t.iter().all(|x| *x == 0) { "zerofill" } else { "garbage-tail" };
            if kind == "zerofill" {
                ctx.check(kind, *q, format!("tail={}", hex(&t)), &rec);
            } else if rec.is_none() {
                ctx.out.violation("C10:panic:garbage-tail", "recovery panicked", json!({"case": case_json, "file": q, "tail": hex(&t)}));
            }
            ctx.out.count(&format!("damage:{}", kind));
            // recover_entries_after on the zero-filled image
            if kind == "zerofill" && t.len() >= 16 && c.all_deltas && c.pre.iter().all(|f| f.entries.is_empty()) {
                let bad = bad_payloads(c);
                let r = catch_unwind(AssertUnwindSafe(|| rot.recover_entries_after(0)));
                let imp = match &r {
                    Err(_) => "crash".to_string(),
                    Ok(Err(_)) => "err".to_string(),
                    Ok(Ok(ds)) => show_keys(ds),
                };
                ctx.out.op(format!("Fa {} {} 0 {} {}", li, hex(&t), bad.len(), bad.iter().map(|b| hex(b)).collect::<Vec<_>>().join(" ")), imp);
                let hidden = ctx.intact.values().map(|v| v.len()).sum::<usize>();
                if !matches!(r, Ok(Ok(_))) && hidden > 0 {
                    ctx.out.violation(
                        "C10:damaged-file-hides-others:recover-entries-after-fails",
                        "a zero-filled tail of one file makes recover_entries_after fail as a whole, hiding every intact entry of every file",
                        json!({"case": case_json, "file": q, "tail": hex(&t), "intact_entries_hidden": hidden}),
                    );
                }
            }
        }
        store.set_file_data(&name, bytes.clone());
    }
    let out = ctx.out;
    // recover_entries_after on the intact image
    {
        let bad = bad_payloads(c);
        let mut ts: Vec<u64> = c.entries.iter().map(|e| e.timestamp).collect();
        ts.push(0);
        ts.sort();
        ts.dedup();
        for t in ts.iter().flat_map(|t| [*t, t.wrapping_add(1)]) {
            let r = catch_unwind(AssertUnwindSafe(|| rot.recover_entries_after(t)));
            let imp = match &r {
                Err(_) => "crash".to_string(),
                Ok(Err(_)) => "err".to_string(),
                Ok(Ok(ds)) => show_keys(ds),
            };
            out.op(format!("F {} {} {}", t, bad.len(), bad.iter().map(|b| hex(b)).collect::<Vec<_>>().join(" ")), imp);
            out.count("op:recover_entries_after");
            if r.is_err() {
                out.violation("C10:panic:recover-entries-after", "recover_entries_after panicked", json!({"case": case_json, "t": t}));
            }
        }
    }
    // truncate_before: every interesting threshold, with the active writer and after a restart
    let before = recover(&rot).unwrap_or_default();
    let mut ths: Vec<u64> = c.entries.iter().map(|e| e.timestamp).collect();
    ths.push(0);
    ths.push(u64::MAX);
    let more: Vec<u64> = ths.iter().flat_map(|t| [t.wrapping_sub(1), t.wrapping_add(1)]).collect();
    ths.extend(more);
    ths.sort();
    ths.dedup();
    for t in ths {
        for restarted in [false, true] {
            let (st2, rot2, _) = build(c);
            let mut rot2 = match rot2 {
                Some(r) => r,
                None => continue,
            };
            let active: Option<String> = if restarted || c.entries.is_empty() { None } else { Some(wal_name(rot2.current_sequence())) };
            if restarted {
                rot2 = WalRotator::new(st2.clone(), c.max).unwrap();
            }
            let r = catch_unwind(AssertUnwindSafe(|| rot2.truncate_before(t)));
            let remain: Vec<String> = image_of(&st2).iter().map(|(n, _)| n.clone()).collect();
            let imp = match &r {
                Ok(Ok(d)) => format!("deleted={} remain {}", d, remain.iter().map(|n| hex(n.as_bytes())).collect::<Vec<_>>().join(" ")),
                Ok(Err(_)) => "err".into(),
                Err(_) => "crash".into(),
            };
            out.op(format!("T {} {}", t, active.as_ref().map(|a| hex(a.as_bytes())).unwrap_or("-".into())), imp);
            out.count(if restarted { "op:truncate_before:no-active-writer" } else { "op:truncate_before:active-writer" });
            let replay = json!({"case": case_json, "truncate_before": t, "active": active});
            if r.is_err() {
                out.violation("C10:panic:truncate-before", "truncate_before panicked", replay.clone());
                continue;
            }
            if let Some(a) = &active {
                if !remain.contains(a) {
                    out.violation("C10:truncate:active-file-removed", &format!("truncate_before({}) removed the file of the open writer ({}); directory listing before: {:?}", t, a, img.iter().map(|(n, _)| n.clone()).collect::<Vec<_>>()), replay.clone());
                }
            }
            let after = recover(&rot2).unwrap_or_default();
            let newer_before: Vec<&WalEntry> = before.iter().filter(|e| e.timestamp > t).collect();
            let newer_after: Vec<&WalEntry> = after.iter().filter(|e| e.timestamp > t).collect();
            if !(newer_before.len() == newer_after.len() && newer_before.iter().zip(&newer_after).all(|(a, b)| same(a, b))) {
                out.violation("C10:truncate:newer-entry-lost", "truncate_before(T) removed an entry stamped later than T", replay.clone());
            }
            for (n, _) in &img {
                if parse_seq(n).is_none() && !remain.contains(n) {
                    out.count("truncate:foreign-file-with-wal-header-deleted");
                }
            }
            if newer_before.len() < before.len() && remain.len() < img.len() {
                out.count("truncate:deleted-something");
            }
        }
    }
}

fn show_keys(ds: &[ReplicationDelta]) -> String {
    let mut s = ds.len().to_string();
    for d in ds {
        s.push(' ');
        s.push_str(&hex(d.key.as_bytes()));
    }
    s
}

/// payloads that `to_delta` rejects (the model's `de` parameter, as a table)
fn bad_payloads(c: &Case) -> Vec<Vec<u8>> {
    let mut cands: Vec<Vec<u8>> = c.entries.iter().chain(c.pre.iter().flat_map(|f| f.entries.iter())).map(|e| e.data.clone()).collect();
    cands.push(vec![]);
    cands.sort();
    cands.dedup();
    cands
        .into_iter()
        .filter(|d| WalEntry { data: d.clone(), timestamp: 0, checksum: 0 }.to_delta().is_err())
        .collect()
}

fn permute(v: &mut Vec<u64>, i: usize, acc: &mut Vec<Vec<u64>>) {
    if i == v.len() {
        acc.push(v.clone());
        return;
    }
    for j in i..v.len() {
        v.swap(i, j);
        permute(v, i + 1, acc);
        v.swap(i, j);
    }
}

pub fn run(a: &Args) {
    let mut out = Out::new(&a.out);
    let mut rng = Rng::new(a.seed);
    let thorough = a.tier == "thorough";
    out.op(format!("V {}", crate::cfg::CODE_WAL_FORMAT), format!("format {}", crate::cfg::CODE_WAL_FORMAT));
    crate::walcov::report(&mut out, "C10");
    {
        // on-disk constants: the crate's against the model's
        use redis_sim::streaming::wal::{WAL_ENTRY_OVERHEAD, WAL_HEADER_SIZE, WAL_MAGIC, WAL_VERSION};
        out.op("FMT".into(), format!("magic {} version {} header {} overhead {}", hex(&WAL_MAGIC), WAL_VERSION, WAL_HEADER_SIZE, WAL_ENTRY_OVERHEAD));
    }
    // differential test of the Lean CRC-32 against crc32fast
    for i in 0..40u64 {
        let len = if i < 4 { i } else { rng.below(80) };
        let d: Vec<u8> = (0..len).map(|_| rng.below(256) as u8).collect();
        out.op(format!("K {}", hex(&d)), crc32fast::hash(&d).to_string());
    }
    out.op(format!("K {}", hex(b"123456789")), crc32fast::hash(b"123456789").to_string());
    // fixed corpus first (DESIGN.md §6.1): the entry stamped 5 whose stamp byte is flipped → 261;
    // the zero-filled tail
    {
        let mk = |key: &str, t: u64| {
            let d = ReplicationDelta::new(
                key.into(),
                redis_sim::replication::state::ReplicatedValue::with_value(
                    redis_sim::redis::SDS::from_str("v"),
                    redis_sim::replication::lattice::LamportClock { time: t, replica_id: ReplicaId::new(1) },
                ),
                ReplicaId::new(1),
            );
            WalEntry::from_delta(&d, t).unwrap()
        };
        // one entry per file (threshold 17): file 1 holds the entry stamped 5, file 2 the one stamped 7
        let c = Case { max: 17, entries: vec![mk("k", 5), mk("j", 7)], all_deltas: true, pre: vec![] };
        let before = out.oracle.len();
        run_case(&c, &mut rng, &mut out, thorough, Some("corpus:timestamp-flip+zero-fill"));
        // repaired defects (stamp 5 -> 261 flip, zero-filled tail, recover_entries_after on it): must pass
        out.count(if out.oracle.len() == before { "corpus:timestamp-flip+zero-fill:pass" } else { "corpus:timestamp-flip+zero-fill:FAIL" });
    }
    // KNOWN FINDING C10:only-appended:crc32-collision:* (Props/C10Window.lean): the two kernel-checked witnesses
    // that the property's statement is false for CRC-32 — one flipped BIT of a length field, and a torn
    // tail of 5 bytes that reads back as zeros — replayed on the real code first (must reproduce)
    {
        let e = |data: Vec<u8>| { let checksum = crate::cfg::entry_checksum(7, &data); WalEntry { data, timestamp: 7, checksum } };
        let c1 = Case { max: 1 << 20, entries: vec![e(vec![65, 163, 53, 179, 117])], all_deltas: false, pre: vec![] };
        let c2 = Case { max: 1 << 20, entries: vec![e(vec![1, 1, 150, 48, 7, 119])], all_deltas: false, pre: vec![] };
        run_case(&c1, &mut rng, &mut out, false, Some("corpus:crc32-collision:length-bit-flip"));
        run_case(&c2, &mut rng, &mut out, false, Some("corpus:crc32-collision:torn-zero-fill"));
    }
    // the open writer's file is NOT the last name listed: (1) sequence 2^32 (`wal-100000000.wal` sorts
    // before the older `wal-ffffffff.wal`), (2) a foreign file `wal-manifest.json` sorts after every WAL
    // name.  truncate_before must spare the open file whatever the listing order is.
    {
        let e = |t: u64| { let data = vec![t as u8, 1]; let checksum = crate::cfg::entry_checksum(t, &data); WalEntry { data, timestamp: t, checksum } };
        let old = vec![e(1)];
        let c1 = Case { max: 1 << 20, entries: vec![e(2), e(3)], all_deltas: false,
            pre: vec![PreFile { name: wal_name(0xffff_ffff), bytes: wal_image(0xffff_ffff, &old), entries: old.clone() }] };
        let c2 = Case { max: 1 << 20, entries: vec![e(2), e(3)], all_deltas: false,
            pre: vec![PreFile { name: "wal-manifest.json".into(), bytes: b"{}".to_vec(), entries: vec![] }] };
        for c in [c1, c2] {
            let before = out.oracle.len();
            run_case(&c, &mut rng, &mut out, false, Some("corpus:open-file-is-not-the-last-listed-name"));
            out.count(if out.oracle.len() == before { "corpus:open-file-not-last-listed:pass" } else { "corpus:open-file-not-last-listed:FAIL" });
        }
    }
    // all stamp orders of 3 (thorough: also 4) entries x thresholds (one entry per file, two per
    // file, single file)
    {
        let ks: &[usize] = if thorough { &[3, 4] } else { &[3] };
        for &k in ks {
            let mut perm: Vec<u64> = (1..=k as u64).collect();
            let mut perms: Vec<Vec<u64>> = Vec::new();
            permute(&mut perm, 0, &mut perms);
            for p in &perms {
                for max in [17usize, 16 + 2 * 18, 1 << 20] {
                    let entries: Vec<WalEntry> = p
                        .iter()
                        .map(|t| {
                            let data = vec![*t as u8, 7];
                            let checksum = crate::cfg::entry_checksum(*t, &data);
                            WalEntry { data, timestamp: *t, checksum }
                        })
                        .collect();
                    out.count("gen:stamp-permutation");
                    run_case(&Case { max, entries, all_deltas: false, pre: vec![] }, &mut rng, &mut out, thorough, Some("all-stamp-orders"));
                }
            }
        }
    }
    // a LONG file (history shape / capacity: far more entries than any generated case) and many files: recovery
    // returns every entry, in order — compared with the model (ops I / R / t) and judged directly
    {
        let e = |t: u64| { let data = vec![(t % 251) as u8, (t / 251) as u8]; let checksum = crate::cfg::entry_checksum(t, &data); WalEntry { data, timestamp: t, checksum } };
        for (n, max) in [(2500u64, 1usize << 20), (400, 16 + 3 * 18)] {
            let c = Case { max, entries: (1..=n).map(e).collect(), all_deltas: false, pre: vec![] };
            let (store, rot, _) = build(&c);
            let img = image_of(&store);
            out.op(format!("I {}", show_image(&img)), format!("ok {}", img.len()));
            match rot {
                None => out.violation("C10:panic:rotator", "WalRotator::new / append panicked on a long history", json!({"entries": n})),
                Some(rot) => {
                    let rec = recover(&rot);
                    out.op("R".into(), rec.as_ref().map(|r| show_entries(r)).unwrap_or("crash".into()));
                    let ok = rec.as_ref().map(|r| r.len() == c.entries.len() && r.iter().zip(c.entries.iter()).all(|(a, b)| same(a, b))).unwrap_or(false);
                    if !ok {
                        out.violation("C10:intact:long-history", "recovery of an undamaged long history did not return every appended entry in order", json!({"entries": n, "max_file_size": max, "recovered": rec.map(|r| r.len())}));
                    }
                    // the last file cut in its last entry: everything before it comes back
                    if let Some((name, bytes)) = img.last().filter(|(_, b)| !b.is_empty()) {
                        store.set_file_data(name, bytes[..bytes.len() - 1].to_vec());
                        let rec = recover(&rot);
                        out.op(format!("t {} {}", img.len() - 1, bytes.len() - 1), rec.as_ref().map(|r| show_entries(r)).unwrap_or("crash".into()));
                        if rec.map(|r| r.len()) != Some(c.entries.len() - 1) {
                            out.violation("C10:prefix:long-history", "a long history cut in its last entry did not come back without exactly that entry", json!({"entries": n}));
                        }
                    }
                    out.count("gen:long-history");
                }
            }
        }
    }
    // LENGTH-WIDTH BOUNDARIES: an entry whose payload is just beyond 2^16 / 2^24 bytes, between two small ones, in
    // one file: recovery returns all three, bit-identical (judged directly; the model is not given 16 MiB lines)
    for len in [(1usize << 16) + 1, (1usize << 24) + 1] {
        let e = |t: u64, n: usize| { let data: Vec<u8> = (0..n).map(|i| (i % 253) as u8 ^ t as u8).collect(); let checksum = crate::cfg::entry_checksum(t, &data); WalEntry { data, timestamp: t, checksum } };
        let c = Case { max: 1 << 30, entries: vec![e(1, 3), e(2, len), e(3, 3)], all_deltas: false, pre: vec![] };
        let (_store, rot, _) = build(&c);
        let rec = rot.as_ref().and_then(|r| recover(r));
        let ok = rec.as_ref().map(|r| r.len() == 3 && r.iter().zip(c.entries.iter()).all(|(a, b)| same(a, b))).unwrap_or(false);
        out.count(&format!("gen:wide-payload:{}", len));
        if !ok {
            out.violation("C10:intact:wide-payload", &format!("recovery of an undamaged file holding a {}-byte entry did not return every appended entry", len), json!({"payload_len": len, "recovered": rec.map(|r| r.iter().map(|e| e.timestamp).collect::<Vec<_>>())}));
        }
    }
    local_store_extras(&mut out, &a.out.join("c10-local-extras"));
    let local_dir = a.out.join("c10-local-wal");
    for _ in 0..a.n {
        let c = gen_case(&mut rng, &mut out);
        run_case(&c, &mut rng, &mut out, thorough, None);
        local_store_case(&c, &mut rng, &mut out, &local_dir);
    }
    let _ = std::fs::remove_dir_all(&local_dir);
    out.finish("case = (rotation threshold, entry sequence with generated stamps/payloads) written through the real WalRotator; every truncation length of every file, sampled (thorough: all) bit flips and 0x00/0xFF substitutions, zero-filled and random tails, truncate_before for every stamp-adjacent threshold with and without an active writer, recover_entries_after; distinct by (threshold, entries); non-trivial iff ≥ 2 entries");
}
