//! C16, script level: a script is a sequence of `redis.call` / `redis.pcall` statements and a `return`
//! of an expression built from their results (`Model/LuaScript.lean`).  Real EVALs are generated from
//! that small script language and run on a primed executor A; a twin B receives, as a client would
//! send them, the words of the statements that were started; the model (`SC` op) is given the script
//! and B's replies (its executor is a parameter) and must predict how many statements completed and
//! the exact reply of the EVAL.  Every statement is followed by a marker statement
//! `redis.pcall('RPUSH', '__trace', i)` (itself a statement of the script), so that the number of
//! completed statements is observable in A's keyspace.
use super::*;

#[derive(Clone, Debug)]
enum AExpr {
    Lit(LuaV),
    Key(usize),
    Argv(usize),
    /// `r_i`: the result of an earlier statement
    Res(usize),
}

#[derive(Clone, Debug)]
struct CallS {
    prot: bool,
    args: Vec<AExpr>,
}

#[derive(Clone, Debug)]
enum RetE {
    Lit(LuaV),
    Res(usize),
    Tbl(Vec<RetE>),
}

impl AExpr {
    fn lua(&self) -> String {
        match self {
            AExpr::Lit(v) => v.literal(),
            AExpr::Key(i) => format!("KEYS[{}]", i),
            AExpr::Argv(i) => format!("ARGV[{}]", i),
            AExpr::Res(i) => format!("r{}", i),
        }
    }
    fn show(&self) -> String {
        match self {
            AExpr::Lit(v) => v.show(),
            AExpr::Key(i) => format!("K{}", i),
            AExpr::Argv(i) => format!("A{}", i),
            AExpr::Res(i) => format!("R{}", i),
        }
    }
}

impl RetE {
    fn lua(&self) -> String {
        match self {
            RetE::Lit(v) => v.literal(),
            RetE::Res(i) => format!("r{}", i),
            RetE::Tbl(xs) => format!("{{{}}}", xs.iter().map(|x| x.lua()).collect::<Vec<_>>().join(",")),
        }
    }
    fn show(&self) -> String {
        match self {
            RetE::Lit(v) => format!("L {}", v.show()),
            RetE::Res(i) => format!("r{}", i),
            RetE::Tbl(xs) => {
                let mut v = vec![format!("T{}", xs.len())];
                v.extend(xs.iter().map(|x| x.show()));
                v.join(" ")
            }
        }
    }
}

/// `parse_multivalue_to_bytes` as a client-side helper: the words a statement sends (None = refused)
fn words_of(call: &CallS, keys: &[Vec<u8>], argv: &[Vec<u8>], results: &[LuaV]) -> Option<Frame> {
    let mut out = Vec::new();
    for a in &call.args {
        let v = match a {
            AExpr::Lit(v) => v.clone(),
            // KEYS are `String`s in `Command::Eval`: lossy
            AExpr::Key(i) => match i.checked_sub(1).and_then(|j| keys.get(j)) {
                Some(k) => LuaV::Str(String::from_utf8_lossy(k).into_owned().into_bytes()),
                None => LuaV::Nil,
            },
            AExpr::Argv(i) => match i.checked_sub(1).and_then(|j| argv.get(j)) {
                Some(k) => LuaV::Str(k.clone()),
                None => LuaV::Nil,
            },
            AExpr::Res(i) => results.get(*i).cloned().unwrap_or(LuaV::Nil),
        };
        match v {
            LuaV::Str(b) => out.push(b),
            LuaV::Int(i) => out.push(i.to_string().into_bytes()),
            LuaV::Num(i) => out.push((i as f64).to_string().into_bytes()),
            _ => return None,
        }
    }
    Some(out)
}

/// does the REAL translator accept these words?  (state-independent: probed on an empty executor)
fn translator_accepts(words: &Frame) -> Result<(), String> {
    if words.is_empty() {
        return Err(String::new());
    }
    let mut ex = CommandExecutor::new();
    match eval(&mut ex, PCALL, words) {
        Ok(RespValue::Error(t)) => {
            let same_as_parser = matches!(parse_sim(words), Parsed::Err(e) if e.as_str() == t.as_ref());
            if (t.starts_with("ERR ") || t.starts_with("WRONGTYPE")) && !translator_error_shape(&t) && !same_as_parser { Ok(()) } else { Err(t.to_string()) }
        }
        Ok(_) => Ok(()),
        Err(()) => Err(String::new()),
    }
}

/// `resp_to_lua_value` as the client-side twin needs it: what a later statement sees when it uses this reply
fn resp_to_luav(r: &RespValue) -> LuaV {
    match r {
        RespValue::SimpleString(s) => LuaV::OkT(s.as_bytes().to_vec()),
        RespValue::Error(s) => LuaV::ErrT(s.as_bytes().to_vec()),
        RespValue::Integer(i) => LuaV::Int(*i),
        RespValue::BulkString(Some(b)) => LuaV::Str(b.clone()),
        RespValue::BulkString(None) | RespValue::Array(None) => LuaV::Nil,
        RespValue::Array(Some(xs)) => LuaV::Arr(xs.iter().map(resp_to_luav).collect()),
    }
}

const STMTS: &[&str] = &[
    // accepted by both grammars (typed keys of the primed state: wrong-type errors are frequent)
    "GET $K", "SET $K v2", "SET $K v2 NX", "SET $K v2 XX GET", "SET $K v2 EX 7", "SET $K #12", "DEL $K", "DEL $K $J", "EXISTS $K $J", "TYPE $K", "TTL $K",
    "INCR $K", "DECR $K", "INCRBY $K #5", "INCRBY $K #-50", "EXPIRE $K #70", "EXPIRE $K 0",
    "HGET $K f", "HSET $K f 2", "HSET $K new #1 f 9", "HDEL $K f g", "HINCRBY $K f #3", "HGETALL $K",
    "LPUSH $K x", "RPUSH $K x y", "LPOP $K", "RPOP $K", "LLEN $K", "LRANGE $K #0 #-1", "RPOPLPUSH $K $J", "LMOVE $K $J LEFT RIGHT",
    "SADD $K a c", "SREM $K a", "SMEMBERS $K", "SISMEMBER $K a", "ZADD $K 5 a", "ZADD $K XX CH #5 a", "ZREM $K a m", "ZRANGE $K #0 #-1",
    "ZSCORE $K a", "ZSCORE $K nomember", "ZCARD $K", "ZCOUNT $K 0 10", "ZRANGEBYSCORE $K -inf +inf WITHSCORES", "ZRANGEBYSCORE $K 0 10 LIMIT #1 #1",
    "get $K", "lPush $K x",
];
const STMTS_BAD: &[&str] = &[
    // refused by both grammars (arity, numbers): nothing is executed on either path
    "GET", "SET $K", "INCRBY $K x", "LRANGE $K 0", "EXPIRE $K abc", "ZADD $K x a", "HSET $K f", "LMOVE $K $J UP DOWN", "SET $K v NX XX",
    // unknown to every grammar / unknown to the translator only (recorded finding: refused in scripts)
    "FOO x", "APPEND $K x", "SET $K v2 KEEPTTL", "EXPIRE $K 70 NX", "STRLEN $K",
];

fn gen_stmt(rng: &mut Rng, keys: &mut Vec<Vec<u8>>, argv: &mut Vec<Vec<u8>>, nprev: usize) -> CallS {
    const ALL: &[&str] = &["s", "t", "n", "c", "l", "l2", "st", "st2", "h", "h2", "z", "z2", "missing", "x", "fresh"];
    let prot = rng.chance(3, 5);
    // rare shapes first
    match rng.below(24) {
        0 => return CallS { prot, args: vec![] },
        1 => return CallS { prot, args: vec![AExpr::Lit(LuaV::Str(b"SET".to_vec())), AExpr::Lit(LuaV::Str(b"s".to_vec())), AExpr::Lit(rng.pick(&[LuaV::Bool(true), LuaV::Bool(false), LuaV::Nil, LuaV::Arr(vec![LuaV::Int(1)]), LuaV::Other]).clone())] },
        2 => return CallS { prot, args: vec![AExpr::Lit(LuaV::Str(b"GET".to_vec())), AExpr::Key(9)] }, // KEYS[9] is nil
        _ => {}
    }
    let tmpl = if rng.chance(4, 5) { *rng.pick(STMTS) } else { *rng.pick(STMTS_BAD) };
    let mut args = Vec::new();
    for w in tmpl.split(' ') {
        let bytes: Vec<u8> = match w {
            "$K" => rng.pick(ALL).as_bytes().to_vec(),
            "$J" => rng.pick(&["l", "l2", "s", "missing2", "z"]).as_bytes().to_vec(),
            x => x.trim_start_matches('#').as_bytes().to_vec(),
        };
        let a = if let Some(num) = w.strip_prefix('#') {
            // a number given as a Lua integer or float
            let i: i64 = num.parse().unwrap_or(0);
            if rng.chance(1, 3) { AExpr::Lit(LuaV::Num(i)) } else { AExpr::Lit(LuaV::Int(i)) }
        } else if w == "$K" && rng.chance(1, 3) {
            let k = if rng.chance(1, 8) { b"k\xff\xfe".to_vec() } else { bytes };
            keys.push(k);
            AExpr::Key(keys.len())
        } else if w != "$K" && !args.is_empty() && nprev > 0 && rng.chance(1, 5) {
            // the result of an earlier statement (a bulk / integer reply is passed on, anything else is refused)
            AExpr::Res(rng.below(nprev as u64) as usize)
        } else if w != "$K" && args.len() > 1 && rng.chance(1, 4) {
            let v = if rng.chance(1, 6) { BIN.to_vec() } else { bytes };
            argv.push(v);
            AExpr::Argv(argv.len())
        } else {
            AExpr::Lit(LuaV::Str(bytes))
        };
        args.push(a);
    }
    CallS { prot, args }
}

/// `usable`: the results whose reply does not come out of a hash container in iteration order
/// (SMEMBERS / HGETALL answer in an order that differs between two executor instances)
fn gen_ret(rng: &mut Rng, usable: &[usize], nres: usize, depth: u32) -> RetE {
    match rng.below(if depth == 0 { 6 } else { 9 }) {
        0 | 1 | 2 | 3 if !usable.is_empty() => RetE::Res(*rng.pick(usable)),
        4 => RetE::Lit(rand_lua(rng, 1)),
        5 => RetE::Res(nres + 3), // an undeclared name: nil
        _ if depth == 0 => RetE::Lit(LuaV::Int(7)),
        _ => RetE::Tbl((0..rng.below(5)).map(|_| gen_ret(rng, usable, nres, depth - 1)).collect()),
    }
}

fn unordered_reply(s: &CallS) -> bool {
    match s.args.first() {
        Some(AExpr::Lit(LuaV::Str(w))) => matches!(String::from_utf8_lossy(w).to_uppercase().as_str(), "SMEMBERS" | "HGETALL"),
        _ => false,
    }
}

fn lit(w: &str) -> AExpr {
    AExpr::Lit(LuaV::Str(w.as_bytes().to_vec()))
}

/// fixed scripts that run first: effects before a raising redis.call stay, statements after it do not
/// run; a failing redis.pcall does not stop the script; a refused argument stops both
fn fixed_corpus() -> Vec<Vec<CallS>> {
    let c = |prot: bool, ws: &[&str]| CallS { prot, args: ws.iter().map(|w| lit(w)).collect() };
    vec![
        vec![c(false, &["SET", "a", "1"]), c(false, &["LPUSH", "a", "x"]), c(false, &["SET", "b", "2"])],
        vec![c(false, &["SET", "a", "1"]), c(true, &["LPUSH", "a", "x"]), c(false, &["SET", "b", "2"])],
        vec![c(false, &["INCR", "n"]), c(false, &["INCR", "n"]), c(false, &["GET"]), c(false, &["INCR", "n"])],
        vec![c(true, &["INCR", "n"]), c(true, &["FOO"]), c(true, &["INCR", "n"])],
        vec![c(false, &["RPUSH", "l", "q"]), CallS { prot: true, args: vec![lit("SET"), lit("s"), AExpr::Lit(LuaV::Bool(true))] }, c(false, &["RPUSH", "l", "r"])],
        vec![c(false, &["DEL", "s", "l", "h"]), c(false, &["HSET", "z", "f", "1"]), c(false, &["DEL", "z"])],
        // data flow: a bulk reply, an integer reply, a status reply (refused), a nil (refused) passed on
        vec![c(false, &["GET", "t"]), CallS { prot: false, args: vec![lit("SET"), lit("copy"), AExpr::Res(0)] }, c(false, &["GET", "copy"])],
        vec![c(false, &["INCR", "n"]), CallS { prot: false, args: vec![lit("LPUSH"), lit("l"), AExpr::Res(0)] }],
        vec![c(false, &["SET", "a", "1"]), CallS { prot: true, args: vec![lit("SET"), lit("b"), AExpr::Res(0)] }, c(false, &["SET", "c", "3"])],
        vec![c(false, &["GET", "missing"]), CallS { prot: false, args: vec![lit("SET"), lit("b"), AExpr::Res(0)] }, c(false, &["SET", "c", "3"])],
        vec![c(false, &["HGET", "h", "\u{0}"]), c(true, &["LRANGE", "l", "0", "-1"]), CallS { prot: true, args: vec![lit("RPUSH"), lit("l2"), AExpr::Res(1)] }],
    ]
}

pub(super) fn scripts(cx: &mut Ctx, rng: &mut Rng, n: u64) {
    let mut samples = Vec::new();
    let corpus = fixed_corpus();
    for it in 0..n + corpus.len() as u64 {
        let fixed: Option<&Vec<CallS>> = corpus.get(it as usize);
        let k = match fixed { Some(f) => f.len(), None => rng.range(1, 6) as usize };
        let mut keys: Vec<Vec<u8>> = Vec::new();
        let mut argv: Vec<Vec<u8>> = Vec::new();
        // statements: user statement, marker, user statement, marker, …
        let mut stmts: Vec<CallS> = Vec::new();
        for i in 0..k {
            let nprev = stmts.len();
            stmts.push(match fixed { Some(f) => f[i].clone(), None => gen_stmt(rng, &mut keys, &mut argv, nprev) });
            stmts.push(CallS { prot: true, args: vec![AExpr::Lit(LuaV::Str(b"RPUSH".to_vec())), AExpr::Lit(LuaV::Str(b"__trace".to_vec())), AExpr::Lit(LuaV::Int(i as i64))] });
        }
        let usable: Vec<usize> = (0..stmts.len()).filter(|i| !unordered_reply(&stmts[*i])).collect();
        let ret = if it % 7 == 0 { RetE::Tbl(usable.iter().map(|i| RetE::Res(*i)).collect()) } else { gen_ret(rng, &usable, stmts.len(), 2) };
        let mut src = String::new();
        for (i, s) in stmts.iter().enumerate() {
            src.push_str(&format!("local r{} = redis.{}({})\n", i, if s.prot { "pcall" } else { "call" }, s.args.iter().map(|a| a.lua()).collect::<Vec<_>>().join(", ")));
        }
        src.push_str(&format!("return {}", ret.lua()));
        let mut frame: Frame = vec![b"EVAL".to_vec(), src.clone().into_bytes(), keys.len().to_string().into_bytes()];
        frame.extend(keys.iter().cloned());
        frame.extend(argv.iter().cloned());

        // A: the script
        let mut a = primed();
        let reply = match exec_frame(&mut a, &frame, it % 2 == 1) {
            Some(r) => r,
            None => {
                cx.out.violation("C16:script:eval-frame-refused-or-panics", "a generated EVAL frame is refused by the RESP parser or the script panics the executor", json!({"script": src}));
                continue;
            }
        };
        let markers = match a.execute(&Command::LLen("__trace".into())) {
            RespValue::Integer(m) => m as usize,
            _ => 0,
        };
        let completed = if markers == k { 2 * k } else { 2 * markers };
        let halted = completed < stmts.len();
        cx.out.count(if halted { "script:halted" } else { "script:ran-to-the-end" });

        // B: a client sends the words of the started statements
        let mut b = primed();
        let mut direct: Vec<String> = Vec::new();
        let mut results: Vec<LuaV> = Vec::new(); // what the client-side twin knows the script's r_i to be
        let last = if halted { completed } else { stmts.len() - 1 };
        for (i, s) in stmts.iter().enumerate() {
            let mut d = "-".to_string();
            let mut value = LuaV::Nil;
            if i <= last {
                if let Some(words) = words_of(s, &keys, &argv, &results) {
                    match translator_accepts(&words) {
                        Ok(()) => {
                            if let Parsed::Ok(c, _) = parse_sim(&words) {
                                let r = b.execute(&c);
                                d = show_resp(&r);
                                value = resp_to_luav(&r);
                                cx.out.count("script:statement-executed");
                            }
                        }
                        Err(t) => {
                            value = LuaV::ErrT(t.into_bytes());
                            cx.out.count("script:statement-refused");
                        }
                    }
                } else {
                    cx.out.count("script:statement-bad-argument");
                }
                if s.args.iter().any(|a| matches!(a, AExpr::Res(_))) { cx.out.count("script:statement-uses-earlier-result"); }
            }
            results.push(value);
            direct.push(d);
        }

        // model: the script, the frame, the client-path replies → completed statements and the reply
        let mut op = format!("SC {} {}", frame.len(), frame_text(&frame));
        op.push_str(&format!(" {}", stmts.len()));
        for s in &stmts {
            op.push_str(&format!(" {} {}", if s.prot { "p" } else { "c" }, s.args.len()));
            for x in &s.args {
                op.push(' ');
                op.push_str(&x.show());
            }
        }
        op.push_str(&format!(" R {} D {}", ret.show(), direct.join(" ")));
        cx.out.op(op, format!("completed={} reply={}", completed, show_resp(&reply)));

        // oracle: the keyspace after the script is the keyspace after the direct commands of the started prefix
        let (da, db) = (dumps(&mut a), dumps(&mut b));
        if da != db {
            cx.out.violation("C16:script:effect-differs-from-direct-prefix", "the keyspace after a script differs from the keyspace after a client has sent, one by one, the words of the statements the script started (an effect was lost, rolled back, duplicated, or a statement after the raising one ran)",
                json!({"script": src, "keys": keys.iter().map(|x| String::from_utf8_lossy(x).to_string()).collect::<Vec<_>>(), "argv": argv.iter().map(|x| String::from_utf8_lossy(x).to_string()).collect::<Vec<_>>(),
                       "statements_completed": completed, "primed_state": PRIMED, "script_dumps": da, "direct_dumps": db,
                       "first_difference": da.iter().zip(db.iter()).find(|(x, y)| x != y).map(|(x, y)| json!({"script": x, "direct": y}))}));
        }
        // oracle: a halted script answers the error of the raising statement as the client path words it
        if halted {
            let want: Option<String> = match direct.get(completed).map(|s| s.as_str()) {
                Some(d) if d.starts_with('-') && d.len() > 1 => {
                    // the direct reply of the raising statement is an error reply: the EVAL must answer it verbatim
                    Some(d.to_string())
                }
                _ => None,
            };
            match (&want, &reply) {
                (Some(w), r) if show_resp(r) != *w => cx.out.violation("C16:script:raised-error-differs-from-client-error", "a script ended by a failing redis.call does not answer the error reply the client path gives for the same command",
                    json!({"script": src, "eval_reply": show_resp(r), "direct_reply_of_the_raising_statement": w})),
                (_, RespValue::Error(t)) => {
                    // whatever ended the script, the client gets an error reply that starts with an upper-case code word
                    // (the command's own error verbatim, `ERR <text>` for a text without one)
                    let w = t.split(' ').next().unwrap_or("");
                    if w.is_empty() || !w.bytes().all(|b| b.is_ascii_uppercase()) {
                        cx.out.violation("C16:script:error-reply-without-code-word", "a script ended by an error answers an error reply that does not start with an upper-case code word (the client path always does: the command's code word, or ERR)",
                            json!({"script": src, "eval_reply": t.to_string()}));
                    }
                }
                (_, r) => cx.out.violation("C16:script:halted-script-without-error-reply", "a script that stopped before its last statement did not answer an error", json!({"script": src, "eval_reply": show_resp(r)})),
            }
        }
        cx.out.case(&format!("SC {}", src), true);
        if samples.len() < 3 {
            samples.push(json!({"script": src, "keys": keys.len(), "argv": argv.len(), "statements": stmts.len(), "completed": completed, "reply": show_resp(&reply)}));
        }
    }
    cx.out.extra.insert("script_samples".into(), json!(samples));
}
