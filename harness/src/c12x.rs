//! C12 above the segment writer (model M4b, `lean/RedisVerif/Model/StreamActor.lean`).
//!
//! T1 — the public step functions of the real `StreamingPersistence<FaultStore, SimulatedClock>`
//!      (`push` with back-pressure, `should_flush` with the size / count / interval thresholds,
//!      `flush` with the `buffer_size` / `last_flush` bookkeeping) under a generated
//!      `WriteBufferConfig` (legal extremes included), a virtual clock and store faults; every
//!      comparison of the code gets inputs just below / at / above, computed from the current state.
//! T2 — the REAL worker pipeline of `StreamingIntegration::start_workers()` (sink → bridge task →
//!      bounded tokio mpsc → persistence actor) on a `FaultStore`, under tokio's paused clock
//!      (deterministic: store futures are ready at once, virtual time advances only when every task
//!      is idle): batches, threshold flushes, failed flushes, shutdown (final drain + final flush),
//!      sends after shutdown, and once the mailbox capacity itself (10 000 queued messages while
//!      the actor is stalled inside a store call: the next batches are dropped by `try_send`).
//! T3 — the stand-alone `WriteBuffer` (write_buffer.rs): push / should_flush / flush with faults.
//! Oracle (real code only): whatever `push` accepted is pending or in a segment of a flush that
//! returned Ok; everything handed to the sink and not recovered after a clean shutdown is accounted
//! for by a rejected push, a full mailbox or a send after shutdown.
use crate::c11::{Upd, PREFIX};
use crate::c12::{lww_upd, recover_image, show_rec, Fault, FaultStore};
use crate::enc::{hex, MRv};
use crate::out::Out;
use crate::rng::Rng;
use redis_sim::replication::lattice::ReplicaId;
use redis_sim::replication::state::ReplicationDelta;
use redis_sim::streaming::config::{CheckpointConfig, CompactionConfig as CompactionCfgSerde, WriteBufferConfig};
use redis_sim::streaming::{Manifest, ObjectStoreType, SimulatedClock, StreamingConfig, StreamingIntegration, StreamingPersistence, WriteBuffer};
use serde_json::json;
use std::sync::Arc;
use std::time::Duration;

/// the source tree this binary was BUILT against (the `redis-sim` path dependency of harness/Cargo.toml)
pub fn repo_dir() -> String {
    const MANIFEST: &str = include_str!("../Cargo.toml");
    for line in MANIFEST.lines() {
        if line.trim_start().starts_with("redis-sim") {
            if let Some(i) = line.find("path = \"") {
                let rest = &line[i + 8..];
                if let Some(j) = rest.find('"') {
                    return rest[..j].to_string();
                }
            }
        }
    }
    "/repo".to_string()
}

/// `const PERSISTENCE_CHANNEL_CAPACITY: usize = …;` read from the source
pub fn source_channel_capacity() -> Option<u64> {
    let src = std::fs::read_to_string(format!("{}/src/streaming/integration.rs", repo_dir())).ok()?;
    for l in src.lines() {
        let t = l.trim_start();
        if t.starts_with("const PERSISTENCE_CHANNEL_CAPACITY") {
            let v = t.split('=').nth(1)?.trim().trim_end_matches(';').replace('_', "");
            return v.trim().parse().ok();
        }
    }
    None
}

fn key_of_len(rng: &mut Rng, n: usize, tag: u64) -> String {
    // byte length n; multi-byte characters when they fit
    let mut s = format!("{}", tag % 10);
    if n == 0 {
        return String::new();
    }
    s.truncate(n);
    while s.len() < n {
        if n - s.len() >= 2 && rng.chance(1, 5) {
            s.push('é');
        } else {
            s.push((b'a' + rng.below(26) as u8) as char);
        }
    }
    s
}

fn delta_of(u: &Upd, rid: u64) -> ReplicationDelta {
    ReplicationDelta::new(u.0.clone(), u.1.clone(), ReplicaId::new(rid))
}

fn sd_line(op: &str, u: &Upd) -> String {
    format!("{} {} {} {}", op, hex(u.0.as_bytes()), MRv::from_real(&u.1).show(), u.0.len())
}

fn usize_of(rng: &mut Rng, xs: &[u64]) -> usize {
    *rng.pick(xs) as usize
}

pub fn gen_wb_cfg(rng: &mut Rng) -> WriteBufferConfig {
    let interval = match rng.below(10) {
        0 => Duration::ZERO,
        1 => Duration::from_nanos(1),
        2 => Duration::from_nanos(999_999),
        3 => Duration::from_millis(1),
        4 => Duration::from_nanos(1_000_001),
        5 => Duration::from_millis(rng.range(2, 60)),
        6 => Duration::from_nanos(rng.range(2, 9) * 1_000_000 + rng.below(3) - 1),
        7 => Duration::MAX,
        _ => Duration::from_secs(3600),
    };
    WriteBufferConfig {
        flush_interval: interval,
        max_size_bytes: usize_of(rng, &[0, 1, 72, 73, 74, 146, 150, 219, 300, 500, 1 << 30, u64::MAX]),
        max_deltas: usize_of(rng, &[0, 1, 2, 3, 4, 6, 1 << 30, u64::MAX]),
        backpressure_threshold_bytes: usize_of(rng, &[0, 1, 73, 146, 147, 219, 300, 450, 1 << 40, 1 << 40, u64::MAX]),
        compression_enabled: rng.chance(1, 2),
    }
}

fn xnew_line(rid: u64, c: &WriteBufferConfig, cap: u64, now: u64, faults: &[(u64, Fault)]) -> String {
    let mut l = format!("XNEW {} {} {} {} {} {} {} {}", rid, c.flush_interval.as_nanos(), c.max_size_bytes, c.max_deltas, c.backpressure_threshold_bytes, cap, now, faults.len());
    for (i, f) in faults {
        l.push_str(&format!(" {} {}", i, f.name()));
    }
    l
}

fn count_cfg(out: &mut Out, c: &WriteBufferConfig) {
    let b = |x: usize| if x == 0 { "0".to_string() } else if x == 1 { "1".into() } else if x == usize::MAX { "max".into() } else if x >= 1 << 30 { "huge".into() } else { "mid".into() };
    out.count(&format!("x:config:max_size_bytes={}", b(c.max_size_bytes)));
    out.count(&format!("x:config:max_deltas={}", b(c.max_deltas)));
    out.count(&format!("x:config:backpressure={}", b(c.backpressure_threshold_bytes)));
    out.count(&format!("x:config:compression_enabled={}", c.compression_enabled));
    let iv = c.flush_interval;
    out.count(&format!("x:config:flush_interval={}", if iv.is_zero() { "0" } else if iv == Duration::MAX { "max" } else if iv.subsec_nanos() % 1_000_000 != 0 { "sub-ms" } else if iv >= Duration::from_secs(3600) { "never" } else { "ms" }));
}

// ---------------------------------------------------------------------------------------------
// T1: StreamingPersistence step functions on a virtual clock
// ---------------------------------------------------------------------------------------------

async fn px_case(out: &mut Out, rng: &mut Rng, corpus: Option<&str>) {
    let rid = 1;
    let (cfg, faults): (WriteBufferConfig, Vec<(u64, Fault)>) = match corpus {
        // size threshold exactly reached by the second push; back-pressure exactly at the third
        Some("thresholds-at-equality") => (WriteBufferConfig { flush_interval: Duration::from_millis(5), max_size_bytes: 146, max_deltas: 3, backpressure_threshold_bytes: 219, compression_enabled: false }, vec![]),
        // failed flush (segment put fails), then interval boundary
        Some("failed-flush-then-interval") => (WriteBufferConfig { flush_interval: Duration::from_nanos(2_000_001), max_size_bytes: 1 << 30, max_deltas: 1 << 30, backpressure_threshold_bytes: 1 << 40, compression_enabled: false }, vec![(1, Fault::Fail)]),
        _ => {
            let nf = match rng.below(4) {
                0 | 1 => 0,
                2 => 1,
                _ => 2,
            };
            let f = (0..nf).map(|_| (rng.below(14), if rng.chance(1, 3) { Fault::Partial } else { Fault::Fail })).collect::<std::collections::BTreeMap<u64, Fault>>().into_iter().collect();
            (gen_wb_cfg(rng), f)
        }
    };
    count_cfg(out, &cfg);
    let start = *rng.pick(&[0u64, 0, 1000, u64::MAX - 10_000]);
    let clock = SimulatedClock::new(start);
    let store = FaultStore::new(&[]);
    store.inner.lock().unwrap().record = false;
    let mut pers = StreamingPersistence::with_clock(Arc::new(store.clone()), PREFIX.to_string(), rid, cfg.clone(), clock.clone()).await.expect("construct StreamingPersistence");
    {
        let mut g = store.inner.lock().unwrap();
        g.calls = 0;
        g.record = true;
        g.faults = faults.iter().cloned().collect();
    }
    let mut text = xnew_line(rid, &cfg, 0, start, &faults);
    out.op(text.clone(), "ok".into());
    let mut t = 10u64;
    let (mut accepted, mut acked) = (0usize, 0usize);
    let script: Vec<u8> = match corpus {
        Some("thresholds-at-equality") => vec![0, 2, 0, 2, 0, 2, 0, 1, 2],
        Some("failed-flush-then-interval") => vec![0, 0, 1, 2, 3, 2, 3, 2, 1, 2],
        _ => (0..rng.range(5, 16)).map(|_| match rng.below(10) { 0..=4 => 0u8, 5 => 1, 6 | 7 => 2, _ => 3 }).collect(),
    };
    let interval_ms_ceil = {
        let ns = cfg.flush_interval.as_nanos();
        ((ns + 999_999) / 1_000_000).min(u64::MAX as u128 / 4) as u64
    };
    for op in script {
        match op {
            0 => {
                // key length aimed at a comparison: bytes after the push = limit - 1 / limit / limit + 1
                let cur = pers.pending_bytes() as u64;
                let mut klen = rng.below(12);
                let lim = if rng.chance(1, 2) { cfg.max_size_bytes as u64 } else { cfg.backpressure_threshold_bytes as u64 };
                if corpus.is_some() {
                    klen = 1;
                } else if rng.chance(2, 3) && lim > cur + 72 && lim - cur - 72 <= 60 {
                    klen = (lim - cur - 72 + rng.below(3)).saturating_sub(1);
                    out.count("x:push:aimed-at-byte-threshold");
                }
                t += 1;
                let u = lww_upd(&key_of_len(rng, klen as usize, t), format!("v{}", t).as_bytes(), t, rid, false);
                let r = pers.push(delta_of(&u, rid));
                if r.is_ok() {
                    accepted += 1;
                } else {
                    out.count("x:push:backpressure");
                }
                let line = sd_line("XPUSH", &u);
                text.push_str(&format!(";{}", line));
                out.op(line, format!("{} pending={} bytes={}", if r.is_ok() { "ok" } else { "err" }, pers.pending_count(), pers.pending_bytes()));
            }
            1 => {
                let before = pers.pending_count();
                let r = pers.flush().await;
                let calls = store.calls();
                let (sz, ans) = match &r {
                    Ok(fr) => match &fr.segment {
                        None => (0, format!("ok empty calls={}", calls)),
                        Some(s) => {
                            acked += fr.deltas_flushed;
                            (s.size_bytes, format!("ok seg={} n={} pending={} calls={}", s.id, fr.deltas_flushed, pers.pending_count(), calls))
                        }
                    },
                    Err(_) => {
                        out.count("x:flush:err");
                        (0, format!("err pending={} calls={}", pers.pending_count(), calls))
                    }
                };
                if r.is_err() && pers.pending_count() < before {
                    out.violation("C12:failed-flush-drops-buffer", "flush() returned Err and pending_count() shrank", json!({"workload": text}));
                }
                text.push_str(&format!(";XFLUSH {}", sz));
                out.op(format!("XFLUSH {}", sz), format!("{} bytes={}", ans, pers.pending_bytes()));
            }
            2 => {
                let s = pers.should_flush();
                out.count(if s { "x:should_flush:true" } else { "x:should_flush:false" });
                text.push_str(";XSHOULD");
                out.op("XSHOULD".into(), (s as u8).to_string());
            }
            _ => {
                // advance aimed at the interval comparison: just below / at / above
                let ms = if interval_ms_ceil > 0 && interval_ms_ceil < 100_000 && rng.chance(2, 3) {
                    out.count("x:advance:aimed-at-interval");
                    (interval_ms_ceil + rng.below(3)).saturating_sub(1)
                } else {
                    rng.below(4)
                };
                clock.advance_ms(ms);
                text.push_str(&format!(";XADV {}", ms));
                out.op(format!("XADV {}", ms), "ok".into());
            }
        }
        // oracle: whatever push accepted is pending or confirmed
        if pers.pending_count() + acked != accepted {
            out.violation("C12:accepted-update-discarded", "an update accepted by push() is neither pending nor in a segment of a flush that returned Ok",
                json!({"workload": text, "accepted": accepted, "pending": pers.pending_count(), "confirmed": acked}));
        }
    }
    let r = recover_image(&store.image(), rid).await;
    out.op("AREC".into(), show_rec(&r));
    out.op("AMAN".into(), crate::c12::show_manifest(&store.image()));
    out.count("x:case:step-functions");
    out.case(&text, accepted > 0);
    out.sample(json!({"workload": text}));
}

// ---------------------------------------------------------------------------------------------
// T2: the real worker pipeline
// ---------------------------------------------------------------------------------------------

fn streaming_cfg(wb: &WriteBufferConfig) -> StreamingConfig {
    StreamingConfig {
        enabled: true,
        store_type: ObjectStoreType::InMemory,
        prefix: PREFIX.to_string(),
        local_path: None,
        write_buffer: wb.clone(),
        checkpoint: CheckpointConfig::test(),
        // max_segments = 0: no compaction worker (C13 owns the compactor)
        compaction: CompactionCfgSerde { max_segments: 0, ..CompactionCfgSerde::test() },
        wal: None,
    }
}

fn segs_of(store: &FaultStore) -> String {
    match store.image().get(&format!("{}/manifest.json", PREFIX)) {
        None => "[]".into(),
        Some(b) => match serde_json::from_slice::<Manifest>(b) {
            Err(_) => "unparsable".into(),
            Ok(m) => format!("[{}]", m.segments.iter().map(|s| format!("{}:{}", s.id, s.record_count)).collect::<Vec<_>>().join(",")),
        },
    }
}

/// keys of the updates that were sent and are not in a listed segment, sorted
async fn missing_of(store: &FaultStore, sent: &[Upd], rid: u64) -> (usize, Vec<String>) {
    let r = recover_image(&store.image(), rid).await;
    let stored: std::collections::BTreeSet<String> = match &r {
        Ok(rs) => rs.deltas.iter().map(|d| d.key.clone()).collect(),
        Err(_) => Default::default(),
    };
    let mut miss: Vec<String> = sent.iter().filter(|u| !stored.contains(&u.0)).map(|u| hex(u.0.as_bytes())).collect();
    miss.sort();
    (stored.len(), miss)
}

async fn actor_case(out: &mut Out, rng: &mut Rng, corpus: Option<&str>, cap: u64) {
    let rid = 1;
    let never = Duration::from_secs(3600);
    let (cfg, faults, batches): (WriteBufferConfig, Vec<(u64, Fault)>, Vec<usize>) = match corpus {
        Some("count-threshold") => (WriteBufferConfig { flush_interval: never, max_size_bytes: 1 << 30, max_deltas: 3, backpressure_threshold_bytes: 1 << 40, compression_enabled: false }, vec![], vec![2, 1, 4, 0, 2]),
        Some("backpressure-in-batch") => (WriteBufferConfig { flush_interval: never, max_size_bytes: 1 << 30, max_deltas: 1 << 30, backpressure_threshold_bytes: 146, compression_enabled: false }, vec![], vec![4, 2]),
        Some("failed-flush-retried") => (WriteBufferConfig { flush_interval: never, max_size_bytes: 1 << 30, max_deltas: 2, backpressure_threshold_bytes: 1 << 40, compression_enabled: false }, vec![(1, Fault::Fail)], vec![2, 2, 1]),
        Some("interval-zero") => (WriteBufferConfig { flush_interval: Duration::ZERO, max_size_bytes: 1 << 30, max_deltas: 1 << 30, backpressure_threshold_bytes: 1 << 40, compression_enabled: false }, vec![], vec![1, 3, 0, 2]),
        _ => {
            let mut c = gen_wb_cfg(rng);
            // real time drives the interval here: only "always" and "never" are deterministic
            let zero = rng.chance(1, 4);
            c.flush_interval = if zero { Duration::ZERO } else { never };
            let nf = if zero { 0 } else { rng.below(3) };
            let f = (0..nf).map(|_| (rng.below(16), if rng.chance(1, 3) { Fault::Partial } else { Fault::Fail })).collect::<std::collections::BTreeMap<u64, Fault>>().into_iter().collect();
            let b = (0..rng.range(1, 5)).map(|_| rng.below(5) as usize).collect();
            (c, f, b)
        }
    };
    count_cfg(out, &cfg);
    let zero = cfg.flush_interval.is_zero();
    let store = FaultStore::new(&[]);
    store.inner.lock().unwrap().record = false;
    let integ = StreamingIntegration::with_store(Arc::new(store.clone()), streaming_cfg(&cfg), rid);
    let (handles, sender) = match integ.start_workers().await {
        Ok(x) => x,
        Err(e) => {
            out.violation("C12:workers:start-failed", &format!("start_workers failed on an empty store: {}", e), json!(null));
            return;
        }
    };
    {
        let mut g = store.inner.lock().unwrap();
        g.calls = 0;
        g.faults = faults.iter().cloned().collect();
    }
    let mut text = xnew_line(rid, &cfg, cap, 0, &faults);
    out.op(text.clone(), "ok".into());
    let mut sent: Vec<Upd> = Vec::new();
    let mut t = 100u64;
    let last_unflushed = rng.chance(1, 2);
    for (bi, n) in batches.iter().enumerate() {
        for _ in 0..*n {
            t += 1;
            let u = lww_upd(&format!("k{}", t), format!("v{}", t).as_bytes(), t, rid, false);
            let r = sender.send(delta_of(&u, rid));
            let line = sd_line("ASEND", &u);
            text.push_str(&format!(";{}", line));
            out.op(line, if r.is_ok() { "ok".into() } else { "err disconnected".to_string() });
            sent.push(u);
        }
        if bi + 1 == batches.len() && last_unflushed && corpus.is_none() {
            // the last batch stays in the sink: the bridge's final drain at shutdown picks it up
            out.count("x:actor:last-batch-drained-at-shutdown");
            break;
        }
        // two bridge periods of virtual time: the bridge drains the batch, the actor handles it
        tokio::time::sleep(Duration::from_millis(25)).await;
        out.op("ADRAIN".into(), "ok".into());
        if zero {
            out.op("ATICK".into(), "ok".into());
        }
        out.op("ARUN".into(), format!("calls={} segs={}", store.calls(), segs_of(&store)));
        text.push_str(";PHASE");
    }
    handles.shutdown().await;
    out.op("ASTOPBRIDGE".into(), "ok".into());
    out.op("AREQSHUTDOWN".into(), "ok".into());
    out.op("ARUN".into(), format!("calls={} segs={}", store.calls(), segs_of(&store)));
    // a send after shutdown: the receiver is gone
    t += 1;
    let late = lww_upd(&format!("k{}", t), b"late", t, rid, false);
    let r = sender.send(delta_of(&late, rid));
    out.op(sd_line("ASEND", &late), if r.is_ok() { "ok".into() } else { "err disconnected".to_string() });
    sent.push(late);
    let rec = recover_image(&store.image(), rid).await;
    out.op("AREC".into(), show_rec(&rec));
    let (stored, miss) = missing_of(&store, &sent, rid).await;
    out.op("AMISSING".into(), format!("stored={} missing={} {}", stored, miss.len(), miss.join(" ")));
    // oracle (model-free): after a clean shutdown without store faults and without back-pressure
    // every update sent before the shutdown is in a listed segment
    let bp_possible = cfg.backpressure_threshold_bytes < 80 * (sent.len() + 1);
    if faults.is_empty() && !bp_possible && miss.len() != 1 {
        out.violation("C12:workers:update-lost-without-fault", "after a clean shutdown (no store fault, back-pressure threshold never reached, mailbox far below capacity) an update handed to the sink is in no listed segment",
            json!({"workload": text, "missing": miss}));
    }
    out.count(if zero { "x:case:workers:interval-zero" } else { "x:case:workers:interval-never" });
    out.case(&text, !sent.is_empty());
    out.sample(json!({"workload": text}));
}

/// `start_workers` when the first manifest load fails: an error, no panic, no worker left behind
async fn start_failure_case(out: &mut Out) {
    let store = FaultStore::new(&[(0, Fault::Fail)]);
    store.inner.lock().unwrap().record = false;
    let wb = WriteBufferConfig { flush_interval: Duration::from_secs(3600), max_size_bytes: 1 << 30, max_deltas: 2, backpressure_threshold_bytes: 1 << 40, compression_enabled: false };
    let integ = StreamingIntegration::with_store(Arc::new(store.clone()), streaming_cfg(&wb), 1);
    match integ.start_workers().await {
        Err(_) => out.count("x:case:workers:start-fails-on-manifest-load-error"),
        Ok((handles, _)) => {
            out.violation("C12:workers:started-on-unreadable-manifest", "start_workers succeeded although the manifest could not be loaded (a later flush would start from an empty manifest and overwrite live segments)", json!(null));
            handles.shutdown().await;
        }
    }
    out.case("start-failure", true);
}

/// the compaction worker `start_workers` spawns when `compaction.max_segments > 0` (production
/// clock, 60 s check interval): its configuration is copied field by field from the streaming
/// config — a pass after one interval must be the model's `compactIfNeeded` with THESE values
async fn with_compaction_worker_case(out: &mut Out, rng: &mut Rng, cap: u64) {
    let rid = 1;
    let wb = WriteBufferConfig { flush_interval: Duration::from_secs(3600), max_size_bytes: 1 << 30, max_deltas: 1, backpressure_threshold_bytes: 1 << 40, compression_enabled: false };
    let mut cfg = streaming_cfg(&wb);
    // distinct values in every field: a swapped assignment shows
    let nseg = rng.range(3, 6);
    cfg.compaction.max_segments = rng.range(2, 4) as usize;
    cfg.compaction.min_segments_to_compact = rng.range(1, 3) as usize;
    cfg.compaction.max_segments_per_compaction = rng.range(4, 7) as usize;
    cfg.compaction.target_segment_size = *rng.pick(&[150usize, 1 << 20, 1 << 21]);
    cfg.compaction.tombstone_ttl = Duration::MAX; // production clock: no tombstone GC (C13 owns the clock-domain finding)
    cfg.compaction.compression_enabled = false;
    let store = FaultStore::new(&[]);
    store.inner.lock().unwrap().record = false;
    let integ = StreamingIntegration::with_store(Arc::new(store.clone()), cfg.clone(), rid);
    let (handles, sender) = match integ.start_workers().await {
        Ok(x) => x,
        Err(e) => {
            out.violation("C12:workers:start-failed", &format!("start_workers failed on an empty store: {}", e), json!(null));
            return;
        }
    };
    store.inner.lock().unwrap().calls = 0;
    out.op(xnew_line(rid, &wb, cap, 0, &[]), "ok".into());
    // the compaction worker's first pass runs at once on the empty store: one manifest load
    tokio::time::sleep(Duration::from_millis(1)).await;
    let c = &cfg.compaction;
    let aline = |sz: u64| format!("ACOMPACT {} {} {} 0 {} {} {}", c.target_segment_size, c.min_segments_to_compact, c.max_segments_per_compaction, c.tombstone_ttl.as_millis(), c.max_segments, sz);
    out.op(aline(0), format!("calls={} segs={}", store.calls(), segs_of(&store)));
    let mut t = 300u64;
    for _ in 0..nseg {
        t += 1;
        let u = lww_upd(&format!("k{}", t % 4), format!("v{}", t).as_bytes(), t, rid, false);
        sender.send(delta_of(&u, rid)).expect("bridge alive");
        out.op(sd_line("ASEND", &u), "ok".into());
        tokio::time::sleep(Duration::from_millis(25)).await;
        out.op("ADRAIN".into(), "ok".into());
        out.op("ARUN".into(), format!("calls={} segs={}", store.calls(), segs_of(&store)));
    }
    // one check interval (60 s) of virtual time: the worker's next pass
    tokio::time::sleep(Duration::from_secs(60)).await;
    let newest = store.image().get(&format!("{}/manifest.json", PREFIX)).and_then(|b| serde_json::from_slice::<Manifest>(b).ok()).and_then(|m| m.segments.iter().max_by_key(|s| s.id).map(|s| s.size_bytes)).unwrap_or(0);
    out.op(aline(newest), format!("calls={} segs={}", store.calls(), segs_of(&store)));
    let rec = recover_image(&store.image(), rid).await;
    out.op("AREC".into(), show_rec(&rec));
    handles.shutdown().await;
    out.count("x:case:workers:with-compaction-worker");
    out.case(&format!("compaction-worker:{:?}", cfg.compaction), true);
}

/// the mailbox capacity itself: the actor is stalled inside its first store call while the
/// bridge delivers `cap + extra` single-update batches
async fn capacity_case(out: &mut Out, cap: u64) {
    let rid = 1;
    let extra = 3u64;
    let cfg = WriteBufferConfig { flush_interval: Duration::from_secs(3600), max_size_bytes: 1 << 30, max_deltas: 1, backpressure_threshold_bytes: 1 << 40, compression_enabled: false };
    let store = FaultStore::new(&[]);
    store.inner.lock().unwrap().record = false;
    let integ = StreamingIntegration::with_store(Arc::new(store.clone()), streaming_cfg(&cfg), rid);
    let (handles, sender) = match integ.start_workers().await {
        Ok(x) => x,
        Err(e) => {
            out.violation("C12:workers:start-failed", &format!("start_workers failed on an empty store: {}", e), json!(null));
            return;
        }
    };
    let sem = Arc::new(tokio::sync::Semaphore::new(0));
    {
        let mut g = store.inner.lock().unwrap();
        g.calls = 0;
        g.hold = Some(sem.clone());
        // every flush attempt fails at its first call: cheap, and the buffer keeps everything accepted
        g.fail_all = true;
    }
    out.op(xnew_line(rid, &cfg, cap, 0, &[]), "ok".into());
    out.op("XFAILALL 1".into(), "ok".into());
    let mut sent: Vec<Upd> = Vec::new();
    for i in 0..(1 + cap + extra) {
        let u = lww_upd(&format!("c{}", i), b"x", 10 + i, rid, false);
        sender.send(delta_of(&u, rid)).expect("bridge alive");
        out.op(sd_line("ASEND", &u), "ok".into());
        sent.push(u);
        tokio::time::sleep(Duration::from_millis(25)).await;
        out.op("ADRAIN".into(), "ok".into());
        if i == 0 {
            // the actor has received the first message and is stalled inside its flush
            out.op("ARUNQ".into(), "ok".into());
        }
    }
    {
        let mut g = store.inner.lock().unwrap();
        g.hold = None;
    }
    sem.add_permits(1 << 20);
    tokio::time::sleep(Duration::from_millis(25)).await;
    out.op("ARUN".into(), format!("calls={} segs={}", store.calls(), segs_of(&store)));
    store.inner.lock().unwrap().fail_all = false;
    out.op("XFAILALL 0".into(), "ok".into());
    handles.shutdown().await;
    out.op("ASTOPBRIDGE".into(), "ok".into());
    out.op("AREQSHUTDOWN".into(), "ok".into());
    out.op("ARUN".into(), format!("calls={} segs={}", store.calls(), segs_of(&store)));
    let (stored, miss) = missing_of(&store, &sent, rid).await;
    out.op("AMISSING".into(), format!("stored={} missing={} {}", stored, miss.len(), miss.join(" ")));
    out.count("x:case:workers:mailbox-capacity-crossed");
    out.count_n("x:capacity:batches-dropped-by-full-mailbox", miss.len() as u64);
    if miss.len() as u64 != extra {
        // not a property violation by itself (best-effort by design): the correspondence line above
        // is what ties the count to the model; recorded for the evidence
        out.count("x:capacity:unexpected-drop-count");
    }
    out.case("capacity", true);
}

// ---------------------------------------------------------------------------------------------
// T3: the stand-alone WriteBuffer
// ---------------------------------------------------------------------------------------------

async fn write_buffer_case(out: &mut Out, rng: &mut Rng, corpus: bool) {
    let rid = 1;
    let never = Duration::from_secs(3600);
    let (cfg, faults, script): (WriteBufferConfig, Vec<(u64, Fault)>, Vec<u8>) = if corpus {
        // two accepted updates, the put fails
        (WriteBufferConfig { flush_interval: never, max_size_bytes: 1 << 30, max_deltas: 1 << 30, backpressure_threshold_bytes: 1 << 40, compression_enabled: false }, vec![(0, Fault::Fail)], vec![0, 0, 1, 2, 1])
    } else {
        let mut c = gen_wb_cfg(rng);
        c.flush_interval = if rng.chance(1, 4) { Duration::ZERO } else { never };
        let nf = rng.below(3);
        let f = (0..nf).map(|_| (rng.below(5), if rng.chance(1, 3) { Fault::Partial } else { Fault::Fail })).collect::<std::collections::BTreeMap<u64, Fault>>().into_iter().collect();
        (c, f, (0..rng.range(4, 12)).map(|_| match rng.below(10) { 0..=5 => 0u8, 6 | 7 => 1, _ => 2 }).collect())
    };
    let zero = cfg.flush_interval.is_zero();
    let store = FaultStore::new(&faults);
    store.inner.lock().unwrap().record = false;
    let wb = WriteBuffer::new(Arc::new(store.clone()), PREFIX.to_string(), cfg.clone());
    let mut text = xnew_line(rid, &cfg, 0, 0, &faults);
    out.op(text.clone(), "ok".into());
    let mut t = 10u64;
    let (mut accepted, mut acked) = (0usize, 0usize);
    for op in script {
        match op {
            0 => {
                t += 1;
                let klen = rng.below(9) as usize;
                let u = lww_upd(&key_of_len(rng, klen, t), b"w", t, rid, false);
                let r = wb.push(delta_of(&u, rid));
                if r.is_ok() {
                    accepted += 1;
                }
                let line = sd_line("XWPUSH", &u);
                text.push_str(&format!(";{}", line));
                out.op(line, format!("{} pending={} bytes={}", if r.is_ok() { "ok" } else { "err" }, wb.pending_count(), wb.pending_bytes()));
            }
            1 => {
                let before = wb.pending_count();
                let r = wb.flush().await;
                let ans = match &r {
                    Ok(None) => "ok none".to_string(),
                    Ok(Some(k)) => {
                        acked += before;
                        let id: u64 = k.rsplit("segment-").next().and_then(|s| s.trim_end_matches(".seg").parse().ok()).unwrap_or(u64::MAX);
                        format!("ok seg={}", id)
                    }
                    Err(_) => "err".to_string(),
                };
                text.push_str(";XWFLUSH");
                out.op("XWFLUSH".into(), format!("{} pending={} bytes={} calls={}", ans, wb.pending_count(), wb.pending_bytes(), store.calls()));
                if r.is_err() && wb.pending_count() < before {
                    out.violation("C12:write-buffer:failed-flush-drops-buffer",
                        &format!("WriteBuffer::flush() returned Err and pending_count() went from {} to {}: the accepted updates are gone while the process keeps running", before, wb.pending_count()),
                        json!({"workload": text}));
                    // what is gone is gone: the accounting below restarts from the real buffer
                    accepted = acked + wb.pending_count();
                }
            }
            _ => {
                let s = wb.should_flush();
                text.push_str(";XWSHOULD");
                out.op(format!("XWSHOULD {}", zero as u8), (s as u8).to_string());
            }
        }
        if wb.pending_count() + acked != accepted {
            out.violation("C12:write-buffer:accepted-update-discarded", "an update accepted by WriteBuffer::push() is neither pending nor in a segment of a flush that returned Ok", json!({"workload": text}));
            accepted = acked + wb.pending_count();
        }
    }
    out.count("x:case:write-buffer");
    out.case(&text, accepted > 0);
}

// ---------------------------------------------------------------------------------------------
// T4: the older worker loops (none is wired into a binary; all are public API of the anchored files)
// ---------------------------------------------------------------------------------------------

/// `persistence::PersistenceWorker` (Arc<Mutex<StreamingPersistence>>, 50 ms loop), `FlushWorker`
/// (WriteBuffer, 50 ms loop) and `delta_sink::PersistenceWorker` (sink → WriteBuffer, 10 ms loop) under
/// the paused clock: threshold flush in the loop, final flush at shutdown
async fn legacy_workers_case(out: &mut Out, rng: &mut Rng) {
    use redis_sim::streaming::{delta_sink_channel, DeltaSinkPersistenceWorker, FlushWorker, PersistenceWorker};
    let rid = 1;
    let never = Duration::from_secs(3600);
    let cfg = WriteBufferConfig { flush_interval: never, max_size_bytes: 1 << 30, max_deltas: rng.range(1, 4) as usize, backpressure_threshold_bytes: *rng.pick(&[1usize << 40, 160, 300]), compression_enabled: false };
    let faults: Vec<(u64, Fault)> = if rng.chance(1, 3) { vec![(rng.below(6), Fault::Fail)] } else { vec![] };
    let mut t = 10u64;
    let mut upd = |rng: &mut Rng| {
        t += 1;
        lww_upd(&key_of_len(rng, (t % 5) as usize + 1, t), b"w", t, rid, false)
    };
    // (a) persistence::PersistenceWorker
    {
        let store = FaultStore::new(&[]);
        store.inner.lock().unwrap().record = false;
        let pers = StreamingPersistence::new(Arc::new(store.clone()), PREFIX.to_string(), rid, cfg.clone()).await.expect("construct");
        {
            let mut g = store.inner.lock().unwrap();
            g.calls = 0;
            g.faults = faults.iter().cloned().collect();
        }
        let shared = Arc::new(tokio::sync::Mutex::new(pers));
        let (worker, handle) = PersistenceWorker::new(shared.clone());
        let task = tokio::spawn(worker.run());
        out.op(xnew_line(rid, &cfg, 0, 0, &faults), "ok".into());
        for round in 0..rng.range(1, 3) {
            for _ in 0..rng.range(1, 4) {
                let u = upd(rng);
                let mut p = shared.lock().await;
                let r = p.push(delta_of(&u, rid));
                out.op(sd_line("XPUSH", &u), format!("{} pending={} bytes={}", if r.is_ok() { "ok" } else { "err" }, p.pending_count(), p.pending_bytes()));
            }
            // one loop period later the worker has looked at the thresholds once
            tokio::time::sleep(Duration::from_millis(if round == 0 { 10 } else { 50 })).await;
            let p = shared.lock().await;
            out.op("XTICK".into(), format!("pending={} calls={} segs={}", p.pending_count(), store.calls(), segs_of(&store)));
        }
        handle.shutdown();
        let _ = task.await;
        let p = shared.lock().await;
        out.op("XFLUSHQ".into(), format!("pending={} calls={} segs={}", p.pending_count(), store.calls(), segs_of(&store)));
        out.count("x:case:legacy:persistence-worker");
    }
    // (b) FlushWorker over a WriteBuffer, fed directly; (c) delta_sink::PersistenceWorker, fed through the sink
    for via_sink in [false, true] {
        let store = FaultStore::new(&faults);
        store.inner.lock().unwrap().record = false;
        let wb = Arc::new(WriteBuffer::new(Arc::new(store.clone()), PREFIX.to_string(), cfg.clone()));
        out.op(xnew_line(rid, &cfg, 0, 0, &faults), "ok".into());
        let (sender, receiver) = delta_sink_channel();
        let (task, stop): (tokio::task::JoinHandle<()>, Box<dyn Fn()>) = if via_sink {
            let (w, h) = DeltaSinkPersistenceWorker::new(receiver, wb.clone());
            (tokio::spawn(w.run()), Box::new(move || h.shutdown()))
        } else {
            drop(receiver);
            let (w, h) = FlushWorker::new(wb.clone());
            (tokio::spawn(w.run()), Box::new(move || h.shutdown()))
        };
        // let the first (empty) iteration pass
        tokio::time::sleep(Duration::from_millis(1)).await;
        for _ in 0..rng.range(1, 3) {
            for _ in 0..rng.range(1, 4) {
                let u = upd(rng);
                if via_sink {
                    sender.send(delta_of(&u, rid)).expect("worker alive");
                } else {
                    let _ = wb.push(delta_of(&u, rid));
                }
                out.op(sd_line("XWPUSHQ", &u), "ok".into());
            }
            // exactly one loop period of the worker (10 ms for the sink worker, 50 ms for FlushWorker)
            tokio::time::sleep(Duration::from_millis(if via_sink { 10 } else { 50 })).await;
            out.op("XWTICK 0".into(), format!("pending={} bytes={} calls={}", wb.pending_count(), wb.pending_bytes(), store.calls()));
        }
        // shutdown: (sink: final drain +) final flush
        let u = upd(rng);
        if via_sink {
            sender.send(delta_of(&u, rid)).expect("worker alive");
        } else {
            let _ = wb.push(delta_of(&u, rid));
        }
        out.op(sd_line("XWPUSHQ", &u), "ok".into());
        stop();
        let _ = task.await;
        // the final flush is unconditional: elapsed != 0 forces the model's should-branch for a non-empty buffer
        out.op("XWTICK 1".into(), format!("pending={} bytes={} calls={}", wb.pending_count(), wb.pending_bytes(), store.calls()));
        out.count(if via_sink { "x:case:legacy:delta-sink-worker" } else { "x:case:legacy:flush-worker" });
    }
    out.case(&format!("legacy:{:?}:{:?}:{}", cfg, faults, t), true);
}


// ---------------------------------------------------------------------------------------------
// T5: a node over several lives (model M4c, `lean/RedisVerif/Model/StreamNode.lean`)
// ---------------------------------------------------------------------------------------------

struct LifeCfg {
    wb: WriteBufferConfig,
    zero: bool,
    compaction: Option<CompactionCfgSerde>,
    faults: Vec<(u64, Fault)>,
}

fn gen_life(rng: &mut Rng) -> LifeCfg {
    let never = Duration::from_secs(3600);
    let mut wb = gen_wb_cfg(rng);
    let zero = rng.chance(1, 5);
    wb.flush_interval = if zero { Duration::ZERO } else { never };
    if wb.backpressure_threshold_bytes < 300 && rng.chance(2, 3) {
        wb.backpressure_threshold_bytes = 1 << 40;
    }
    // the compaction worker only next to a tick-free pipeline (its passes are a minute of virtual time apart)
    let compaction = if !zero && rng.chance(1, 2) {
        Some(CompactionCfgSerde {
            max_segments: rng.range(1, 4) as usize,
            min_segments_to_compact: rng.range(1, 3) as usize,
            max_segments_per_compaction: rng.range(2, 6) as usize,
            target_segment_size: *rng.pick(&[1usize << 20, 1 << 21]), // ARUN carries no segment sizes: every segment is a candidate on both sides
            tombstone_ttl: Duration::MAX,
            compression_enabled: rng.chance(1, 2),
            ..CompactionCfgSerde::test()
        })
    } else {
        None
    };
    let nf = if zero { 0 } else { rng.below(3) };
    let faults = (0..nf).map(|_| (rng.below(14), if rng.chance(1, 3) { Fault::Partial } else { Fault::Fail })).collect::<std::collections::BTreeMap<u64, Fault>>().into_iter().collect();
    LifeCfg { wb, zero, compaction, faults }
}

fn life_params(l: &LifeCfg, cap: u64, now: u64) -> String {
    let c = &l.wb;
    let mut s = format!("{} {} {} {} {} {} {}", c.flush_interval.as_nanos(), c.max_size_bytes, c.max_deltas, c.backpressure_threshold_bytes, cap, now, l.faults.len());
    for (i, f) in &l.faults {
        s.push_str(&format!(" {} {}", i, f.name()));
    }
    s
}

/// Several processes one after the other on one store: every life runs the REAL
/// `start_workers` pipeline (in some lives with the compaction worker next to it) on a
/// snapshotting `FaultStore`; a life ends by a clean shutdown, by the end of the observation, or by
/// the death of the process at a store call (the store image of that call boundary — inside a
/// `put`: with the torn object); the next life starts the real workers on what is left, with
/// another configuration.  Model: `StreamNode.runLives` (ops ALIFE / AHIST).
/// Oracle (real code only): what recovery returned at a quiescent point of any life is absorbed by
/// what recovery returns at every later point of the history (nothing confirmed is lost by a
/// crash, a restart, a compaction pass or a later failed flush); recovery of every image succeeds.
async fn lives_case(out: &mut Out, rng: &mut Rng, cap: u64, corpus: bool) {
    use std::collections::{BTreeMap, HashMap};
    let rid = 1;
    let nlives = if corpus { 2 } else { rng.range(2, 4) as usize };
    let mut lives: Vec<LifeCfg> = (0..nlives).map(|_| gen_life(rng)).collect();
    if corpus {
        // fixed first life: the compaction worker next to the actor, thresholds out of reach (everything
        // is still buffered when the shutdown comes), no faults, a clean shutdown
        lives[0] = LifeCfg {
            wb: WriteBufferConfig { flush_interval: Duration::from_secs(3600), max_size_bytes: 1 << 30, max_deltas: 1 << 30, backpressure_threshold_bytes: 1 << 40, compression_enabled: false },
            zero: false,
            compaction: Some(CompactionCfgSerde { max_segments: 2, min_segments_to_compact: 2, max_segments_per_compaction: 4, target_segment_size: 1 << 20, tombstone_ttl: Duration::MAX, compression_enabled: false, ..CompactionCfgSerde::test() }),
            faults: vec![],
        };
    }
    let mut image: BTreeMap<String, Vec<u8>> = BTreeMap::new();
    // (description, fold of the recovery at that point) of every point that is in the past of the history
    let mut past: Vec<(String, HashMap<String, redis_sim::replication::state::ReplicatedValue>)> = Vec::new();
    let mut t = 500u64;
    let mut text = String::new();
    for (li, life) in lives.iter().enumerate() {
        count_cfg(out, &life.wb);
        let mut cfg = streaming_cfg(&life.wb);
        if let Some(c) = &life.compaction {
            cfg.compaction = c.clone();
        }
        let store = FaultStore::from_image(&image);
        let integ = StreamingIntegration::with_store(Arc::new(store.clone()), cfg.clone(), rid);
        let (handles, sender) = match integ.start_workers().await {
            Ok(x) => x,
            Err(e) => {
                out.violation("C12:lives:restart-failed", &format!("start_workers failed on the store image an earlier process left: {}", e), json!({"workload": text}));
                return;
            }
        };
        let mut handles = Some(handles);
        {
            let mut g = store.inner.lock().unwrap();
            g.calls = 0;
            g.snapshots.clear();
            g.log.clear();
            g.log_tags.clear();
            g.record = true;
            g.faults = life.faults.iter().cloned().collect();
        }
        if li == 0 {
            let l = xnew_line(rid, &life.wb, cap, 0, &life.faults);
            text.push_str(&l);
            out.op(l, "ok".into());
        }
        let aline = |sz: u64| {
            let c = life.compaction.as_ref().expect("compaction life");
            format!("ACOMPACT {} {} {} 0 {} {} {}", c.target_segment_size, c.min_segments_to_compact, c.max_segments_per_compaction, c.tombstone_ttl.as_millis(), c.max_segments, sz)
        };
        let newest = |store: &FaultStore| store.image().get(&format!("{}/manifest.json", PREFIX)).and_then(|b| serde_json::from_slice::<Manifest>(b).ok()).and_then(|m| m.segments.iter().max_by_key(|s| s.id).map(|s| s.size_bytes)).unwrap_or(0);
        // observations of this life: (calls, description, fold)
        let mut obs: Vec<(u64, String, HashMap<String, redis_sim::replication::state::ReplicatedValue>)> = Vec::new();
        if life.compaction.is_some() {
            // the worker's first pass runs at once
            tokio::time::sleep(Duration::from_millis(1)).await;
            let l = aline(newest(&store));
            text.push_str(&format!(";{}", l));
            out.op(l, format!("calls={} segs={}", store.calls(), segs_of(&store)));
        }
        let mut sent_this_life: Vec<Upd> = Vec::new();
        let nb = rng.range(1, 4);
        for bi in 0..nb {
            let n = if corpus && li == 0 { 2 } else { rng.below(4) };
            for _ in 0..n {
                t += 1;
                // few keys, two replicas: merges inside and across segments and lives
                let u = lww_upd(&format!("k{}", t % 5), format!("v{}", t).as_bytes(), t / 2, 1 + t % 2, t % 7 == 0);
                let r = sender.send(delta_of(&u, rid));
                let line = sd_line("ASEND", &u);
                text.push_str(&format!(";{}", line));
                out.op(line, if r.is_ok() { "ok".into() } else { "err disconnected".to_string() });
                sent_this_life.push(u);
            }
            tokio::time::sleep(Duration::from_millis(25)).await;
            out.op("ADRAIN".into(), "ok".into());
            if life.zero {
                out.op("ATICK".into(), "ok".into());
            }
            out.op("ARUN".into(), format!("calls={} segs={}", store.calls(), segs_of(&store)));
            text.push_str(";PHASE");
            if let Ok(r) = recover_image(&store.image(), rid).await {
                obs.push((store.calls(), format!("life {} after batch {}", li, bi), crate::c11::fold_recovered(&r)));
            }
            if life.compaction.is_some() && rng.chance(1, 2) {
                // one check interval of virtual time: the worker's next pass
                tokio::time::sleep(Duration::from_secs(60)).await;
                let l = aline(newest(&store));
                text.push_str(&format!(";{}", l));
                out.op(l, format!("calls={} segs={}", store.calls(), segs_of(&store)));
                out.count("x:lives:compaction-pass");
                if let Ok(r) = recover_image(&store.image(), rid).await {
                    obs.push((store.calls(), format!("life {} after a compaction pass", li), crate::c11::fold_recovered(&r)));
                }
            }
        }
        // how this life ends
        let calls = store.calls();
        let kind = if corpus && li == 0 { 2 } else if li + 1 == lives.len() { 1 } else { rng.below(3) };
        let mut crash: Option<(u64, bool)> = None;
        match kind {
            0 if calls > 0 => {
                let c = rng.below(calls);
                let g = store.inner.lock().unwrap();
                let snap = g.snapshots[c as usize].clone();
                drop(g);
                let torn = snap.torn.is_some() && rng.chance(1, 2);
                image = snap.before.clone();
                if torn {
                    let (k, d) = snap.torn.clone().expect("torn");
                    image.insert(k, d);
                }
                crash = Some((c, torn));
                out.count(if torn { "x:lives:end:death-inside-put" } else { "x:lives:end:death-at-call" });
            }
            2 => {
                if let Some(h) = handles.take() {
                    h.shutdown().await;
                }
                out.op("ASTOPBRIDGE".into(), "ok".into());
                out.op("AREQSHUTDOWN".into(), "ok".into());
                out.op("ARUN".into(), format!("calls={} segs={}", store.calls(), segs_of(&store)));
                text.push_str(";SHUTDOWN");
                image = store.image();
                // oracle (real code only): a clean shutdown without a store fault and far from the
                // back-pressure threshold leaves every update of this life in a listed segment —
                // with or without the compaction worker next to the actor
                if life.faults.is_empty() && life.wb.backpressure_threshold_bytes >= 1 << 30 {
                    if let Ok(r) = recover_image(&image, rid).await {
                        let fold = crate::c11::fold_recovered(&r);
                        for u in &sent_this_life {
                            let absorbed = fold.get(&u.0).map_or(false, |cur| MRv::from_real(&cur.merge(&u.1)).show() == MRv::from_real(cur).show());
                            if !absorbed {
                                out.violation("C12:workers:update-lost-without-fault",
                                    &format!("life {} (compaction worker: {}): after a clean shutdown (no store fault, back-pressure threshold never reached, mailbox far below capacity) the update of key {} handed to the sink is in no listed segment", li, life.compaction.is_some(), u.0),
                                    json!({"workload": text, "key": hex(u.0.as_bytes())}));
                                break;
                            }
                        }
                    }
                }
                out.count("x:lives:end:clean-shutdown");
            }
            _ => {
                image = store.image();
                out.count("x:lives:end:observation-ends");
            }
        }
        for (c, what, fold) in obs {
            if crash.map_or(true, |(cc, _)| c <= cc) {
                past.push((what, fold));
            }
        }
        // what a process starting now would recover
        let rec = recover_image(&image, rid).await;
        match &rec {
            Err(e) => {
                out.violation("C12:lives:recovery-fails", &format!("recovery fails on the store image life {} left ({:?}): {}", li, crash, e), json!({"workload": text, "crash": format!("{:?}", crash)}));
            }
            Ok(r) => {
                let now = crate::c11::fold_recovered(r);
                for (what, old) in &past {
                    for (k, v) in old {
                        let absorbed = now.get(k).map_or(false, |cur| MRv::from_real(&cur.merge(v)).show() == MRv::from_real(cur).show());
                        if !absorbed {
                            out.violation("C12:lives:confirmed-update-lost-later",
                                &format!("key {} as recovered at '{}' is not absorbed by what recovery returns after life {} ended ({:?})", k, what, li, crash),
                                json!({"workload": text, "crash": format!("{:?}", crash), "key": k}));
                        }
                    }
                }
            }
        }
        if let Some(h) = handles.take() {
            h.shutdown().await;
        }
        if li + 1 < lives.len() {
            let next = &lives[li + 1];
            let l = format!("ALIFE {} {} {}", crash.map_or("-".to_string(), |(c, _)| c.to_string()), crash.map_or(0, |(_, tn)| tn as u8), life_params(next, cap, 0));
            text.push_str(&format!(";{}", l));
            let segs = match image.get(&format!("{}/manifest.json", PREFIX)) {
                None => "[]".to_string(),
                Some(b) => match serde_json::from_slice::<Manifest>(b) {
                    Err(_) => "unparsable".into(),
                    Ok(m) => format!("[{}]", m.segments.iter().map(|s| format!("{}:{}", s.id, s.record_count)).collect::<Vec<_>>().join(",")),
                },
            };
            out.op(l, format!("ok replay=1 segs={}", segs));
        } else {
            out.op("AREC".into(), show_rec(&rec));
            let fold = match &rec {
                Ok(r) => crate::c11::show_upds(&crate::c11::sorted_map(&crate::c11::fold_recovered(r))),
                Err(_) => "recovery-failed".into(),
            };
            out.op("AHIST".into(), format!("fold {} exact=1", fold));
        }
    }
    out.count(&format!("x:case:lives:{}", nlives));
    out.case(&text, true);
    out.sample(json!({"workload": text}));
}


// ---------------------------------------------------------------------------------------------
// T6: `StreamingConfig.prefix` is configuration; objects of other prefixes are none of our business
// ---------------------------------------------------------------------------------------------

/// one small workload (flushes — one with a failing put —, a compaction, a checkpoint object through
/// `CheckpointManager`, recovery) on a store that already holds the objects `foreign`, under `prefix`
async fn prefix_run(prefix: &str, ups: &[Upd], fail_at: u64, foreign: &[(String, Vec<u8>)]) -> Result<(std::collections::BTreeMap<String, Vec<u8>>, String), String> {
    use redis_sim::streaming::{Compactor, ManifestManager, RecoveryManager};
    let mut img = std::collections::BTreeMap::new();
    for (k, v) in foreign {
        img.insert(k.clone(), v.clone());
    }
    let store = FaultStore::from_image(&img);
    let mut pers = StreamingPersistence::with_clock(Arc::new(store.clone()), prefix.to_string(), 1, crate::c12::wb_config(), SimulatedClock::new(0)).await.map_err(|e| format!("construct: {}", e))?;
    {
        let mut g = store.inner.lock().unwrap();
        g.calls = 0;
        g.faults = [(fail_at, Fault::Fail)].into_iter().collect();
    }
    let mut trace = String::new();
    for (i, u) in ups.iter().enumerate() {
        pers.push(delta_of(u, 1)).map_err(|e| format!("push: {}", e))?;
        if i % 2 == 1 || i + 1 == ups.len() {
            let r = pers.flush().await;
            trace.push_str(&format!("flush={} pending={};", r.is_ok(), pers.pending_count()));
        }
    }
    let r = pers.flush().await;
    trace.push_str(&format!("flush={} pending={};", r.is_ok(), pers.pending_count()));
    let cfg = redis_sim::streaming::CompactionConfig { target_segment_size: 1 << 20, max_segments: 0, min_segments_to_compact: 2, max_segments_per_compaction: 8, tombstone_ttl: Duration::MAX, compression_enabled: false };
    let mut comp = Compactor::with_time_source(Arc::new(store.clone()), prefix.to_string(), ManifestManager::new(store.clone(), prefix), cfg, crate::c12::FixedTime(0));
    let cr = comp.compact().await;
    trace.push_str(&format!("compact={};", match &cr { Ok(c) => format!("ok removed={} created={}", c.segments_removed.len(), c.segment_created.is_some()), Err(e) => format!("err {}", e) }));
    let rec = RecoveryManager::new(store.clone(), prefix, 1).recover().await;
    trace.push_str(&format!("recover={};", match &rec { Ok(r) => crate::c11::show_upds(&crate::c11::sorted_map(&crate::c11::fold_recovered(r))), Err(e) => format!("err {}", e) }));
    Ok((store.image(), trace))
}

async fn prefix_case(out: &mut Out, rng: &mut Rng) {
    let prefixes = ["", "a", "a/b", "é", "p/segments", "manifest.json", "p/", " sp aced ", "p2", "pp", "P", "0", "x/../y"];
    let long = "l".repeat(200);
    let pfx: &str = if rng.chance(1, 12) { &long } else { *rng.pick(&prefixes) };
    let n = rng.range(2, 6);
    let ups: Vec<Upd> = (0..n).map(|i| lww_upd(&format!("k{}", i % 3), format!("v{}", i).as_bytes(), 10 + i, 1 + i % 2, i == 3)).collect();
    let fail_at = rng.below(9);
    // objects of OTHER prefixes that share a string prefix with ours (another node on the same bucket)
    let foreign: Vec<(String, Vec<u8>)> = vec![
        (format!("{}2/manifest.json", pfx), b"{\"foreign\":1}".to_vec()),
        (format!("{}2/segments/segment-00000000.seg", pfx), b"foreign-segment".to_vec()),
        (format!("{}x/segments/segment-00000001.seg", pfx), b"foreign-segment-1".to_vec()),
        (format!("q{}/manifest.json", pfx), b"foreign-manifest".to_vec()),
    ];
    let base = prefix_run(PREFIX, &ups, fail_at, &[]).await;
    let other = prefix_run(pfx, &ups, fail_at, &foreign).await;
    out.count(&format!("x:prefix:{}", if pfx.is_empty() { "empty" } else if pfx.len() > 100 { "long" } else if pfx.contains('/') { "with-slash" } else if !pfx.is_ascii() { "non-ascii" } else { "plain" }));
    let replay = json!({"prefix": pfx, "updates": ups.iter().map(|u| sd_line("PUSH", u)).collect::<Vec<_>>(), "failing_call": fail_at});
    match (base, other) {
        (Ok((img_p, tr_p)), Ok((img_o, tr_o))) => {
            if tr_p != tr_o {
                out.violation("C12:config:prefix-dependent-behaviour", &format!("the same workload behaves differently under prefix {:?} than under {:?}: {} vs {}", pfx, PREFIX, tr_o, tr_p), replay.clone());
            }
            // foreign objects untouched
            for (k, v) in &foreign {
                if img_o.get(k) != Some(v) {
                    out.violation("C12:config:foreign-prefix-object-touched", &format!("an object of another prefix ({:?}) was changed or deleted by a workload under prefix {:?}", k, pfx), replay.clone());
                }
            }
            // object for object the same image, prefix replaced
            let rel = |img: &std::collections::BTreeMap<String, Vec<u8>>, p: &str, skip: &[(String, Vec<u8>)]| -> std::collections::BTreeMap<String, Vec<u8>> {
                img.iter().filter(|(k, _)| !skip.iter().any(|(f, _)| f == *k)).map(|(k, v)| {
                    let name = k.strip_prefix(&format!("{}/", p)).map(|s| s.to_string()).unwrap_or_else(|| format!("OUTSIDE:{}", k));
                    let body = if name == "manifest.json" {
                        match serde_json::from_slice::<Manifest>(v) {
                            Ok(mut m) => {
                                for sg in m.segments.iter_mut() {
                                    sg.key = sg.key.strip_prefix(&format!("{}/", p)).map(|s| s.to_string()).unwrap_or_else(|| format!("OUTSIDE:{}", sg.key));
                                }
                                serde_json::to_vec(&m).unwrap_or_default()
                            }
                            Err(_) => b"unparsable".to_vec(),
                        }
                    } else {
                        v.clone()
                    };
                    (name, body)
                }).collect()
            };
            let (a, b) = (rel(&img_p, PREFIX, &[]), rel(&img_o, pfx, &foreign));
            if a != b {
                let ka: Vec<&String> = a.keys().collect();
                let kb: Vec<&String> = b.keys().collect();
                out.violation("C12:config:prefix-dependent-image", &format!("the store image under prefix {:?} is not the image under {:?} with the prefix replaced: objects {:?} vs {:?}", pfx, PREFIX, kb, ka), replay.clone());
            }
        }
        (b, o) => {
            if b.is_ok() != o.is_ok() {
                out.violation("C12:config:prefix-dependent-behaviour", &format!("construction succeeds under one of the prefixes {:?} / {:?} only", pfx, PREFIX), replay.clone());
            }
        }
    }
    out.count("x:case:prefix");
    out.case(&format!("prefix:{:?}:{}:{}", pfx, n, fail_at), true);
}


/// A SLOW store: one store call of a flush takes `stall` of virtual time (nothing fails, nothing
/// is lost by the store), the mailbox is far below its capacity, no back-pressure.  Latency is not
/// an event of the model (M4b: only the order of events matters), so the model predicts what a
/// fast store gives; the oracle (real code only) is C12's third sentence: after a clean shutdown
/// every update handed to the sink is in a listed segment — a flush that is abandoned while it
/// waits must not take the accepted updates with it.  Durations sit around the time-outs a
/// storage client typically uses.
async fn stall_case(out: &mut Out, rng: &mut Rng, cap: u64, corpus: Option<u64>) {
    let rid = 1;
    let stall_ms = corpus.unwrap_or_else(|| *rng.pick(&[1u64, 999, 1_000, 4_999, 5_000, 5_001, 9_999, 10_001, 29_999, 30_001, 60_001, 600_000]));
    let held_call = if corpus.is_some() { 1 } else { rng.below(4) };
    let cfg = WriteBufferConfig { flush_interval: Duration::from_secs(3600), max_size_bytes: 1 << 30, max_deltas: 2, backpressure_threshold_bytes: 1 << 40, compression_enabled: false };
    let store = FaultStore::new(&[]);
    store.inner.lock().unwrap().record = false;
    let integ = StreamingIntegration::with_store(Arc::new(store.clone()), streaming_cfg(&cfg), rid);
    let (handles, sender) = match integ.start_workers().await {
        Ok(x) => x,
        Err(e) => {
            out.violation("C12:workers:start-failed", &format!("start_workers failed on an empty store: {}", e), json!(null));
            return;
        }
    };
    // `held_call` calls pass, the next one waits
    let sem = Arc::new(tokio::sync::Semaphore::new(held_call as usize));
    {
        let mut g = store.inner.lock().unwrap();
        g.calls = 0;
        g.hold = Some(sem.clone());
    }
    let mut text = xnew_line(rid, &cfg, cap, 0, &[]);
    out.op(text.clone(), "ok".into());
    let mut sent: Vec<Upd> = Vec::new();
    for i in 0..2u64 {
        let u = lww_upd(&format!("s{}", i), format!("v{}", i).as_bytes(), 20 + i, rid, false);
        sender.send(delta_of(&u, rid)).expect("bridge alive");
        let l = sd_line("ASEND", &u);
        text.push_str(&format!(";{}", l));
        out.op(l, "ok".into());
        sent.push(u);
    }
    // the bridge delivers the batch, the actor starts the flush (2 = max_deltas) and waits inside call `held_call`
    tokio::time::sleep(Duration::from_millis(25)).await;
    out.op("ADRAIN".into(), "ok".into());
    tokio::time::sleep(Duration::from_millis(stall_ms)).await;
    // the store answers
    store.inner.lock().unwrap().hold = None;
    sem.add_permits(1 << 20);
    tokio::time::sleep(Duration::from_millis(25)).await;
    out.op("ARUN".into(), format!("calls={} segs={}", store.calls(), segs_of(&store)));
    // one more batch after the stall
    for i in 2..4u64 {
        let u = lww_upd(&format!("s{}", i), format!("v{}", i).as_bytes(), 20 + i, rid, false);
        sender.send(delta_of(&u, rid)).expect("bridge alive");
        let l = sd_line("ASEND", &u);
        text.push_str(&format!(";{}", l));
        out.op(l, "ok".into());
        sent.push(u);
    }
    tokio::time::sleep(Duration::from_millis(25)).await;
    out.op("ADRAIN".into(), "ok".into());
    out.op("ARUN".into(), format!("calls={} segs={}", store.calls(), segs_of(&store)));
    handles.shutdown().await;
    out.op("ASTOPBRIDGE".into(), "ok".into());
    out.op("AREQSHUTDOWN".into(), "ok".into());
    out.op("ARUN".into(), format!("calls={} segs={}", store.calls(), segs_of(&store)));
    let (stored, miss) = missing_of(&store, &sent, rid).await;
    out.op("AMISSING".into(), format!("stored={} missing={} {}", stored, miss.len(), miss.join(" ")));
    if !miss.is_empty() {
        out.violation("C12:workers:update-lost-by-slow-store",
            &format!("store call {} of a flush took {} ms (no error, no fault, mailbox far below capacity, no back-pressure): after a clean shutdown {} update(s) handed to the sink are in no listed segment", held_call, stall_ms, miss.len()),
            json!({"workload": text, "stalled_store_call": held_call, "stall_ms": stall_ms, "missing": miss}));
    }
    out.count(&format!("x:stall:{}", if stall_ms < 1000 { "<1s" } else if stall_ms <= 5000 { "1s..5s" } else if stall_ms <= 30_000 { "5s..30s" } else { ">30s" }));
    out.count("x:case:workers:slow-store");
    out.case(&format!("stall:{}:{}", held_call, stall_ms), true);
}

pub async fn run_all(out: &mut Out, rng: &mut Rng, n: u64, paused: bool) {
    let cap = match source_channel_capacity() {
        Some(c) => c,
        None => {
            out.violation("C12:coverage:source-scan-failed:PERSISTENCE_CHANNEL_CAPACITY", "the mailbox capacity constant was not found in src/streaming/integration.rs", json!(null));
            10_000
        }
    };
    if !paused {
        out.op("XCAP".into(), cap.to_string());
        px_case(out, &mut Rng::new(0xC12), Some("thresholds-at-equality")).await;
        px_case(out, &mut Rng::new(0xC12), Some("failed-flush-then-interval")).await;
        write_buffer_case(out, &mut Rng::new(0xC12), true).await;
        for _ in 0..n {
            let mut r = rng.fork();
            px_case(out, &mut r, None).await;
            if r.chance(1, 3) {
                write_buffer_case(out, &mut r, false).await;
            }
            if r.chance(1, 8) {
                prefix_case(out, &mut r).await;
            }
        }
    } else {
        for c in ["count-threshold", "backpressure-in-batch", "failed-flush-retried", "interval-zero"] {
            actor_case(out, &mut Rng::new(0xC12), Some(c), cap).await;
        }
        capacity_case(out, cap).await;
        start_failure_case(out).await;
        stall_case(out, &mut Rng::new(0xC12), cap, Some(61_000)).await;
        lives_case(out, &mut Rng::new(0xC12), cap, true).await;
        for i in 0..n {
            if i % 4 == 0 {
                let mut r = rng.fork();
                with_compaction_worker_case(out, &mut r, cap).await;
            }
            let mut r = rng.fork();
            actor_case(out, &mut r, None, cap).await;
            if i % 3 == 0 {
                legacy_workers_case(out, &mut r).await;
            }
            if i % 2 == 0 {
                let mut r = rng.fork();
                lives_case(out, &mut r, cap, false).await;
            }
            if i % 5 == 1 {
                let mut r = rng.fork();
                stall_case(out, &mut r, cap, None).await;
            }
        }
    }
}
