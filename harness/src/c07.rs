//! C07 — CRDT merge laws.  Correspondence: real `ReplicatedValue::merge` vs model `RV.merge`
//! on generated pairs (incl. merges of merges).  Oracle: idempotence / commutativity /
//! associativity evaluated directly on the real values.
use crate::enc::{hex, show_crdt, smap_text, vclock_from, vclock_map, MCrdt, MLww, MRv};
use redis_sim::replication::lattice::{LamportClock, VectorClock};
use crate::out::Out;
use crate::rng::Rng;
use crate::Args;
use redis_sim::redis::SDS;
use redis_sim::replication::lattice::{GCounter, ORSet, PNCounter, ReplicaId};
use redis_sim::replication::state::{CrdtValue, ReplicatedValue, ShardReplicaState};
use redis_sim::replication::ConsistencyLevel;
use serde_json::json;
use std::collections::{BTreeMap, BTreeSet};

const KEYS: [&str; 3] = ["k", "h", "é"];
const FIELDS: [&str; 4] = ["f", "g", "ab", ""];
const ELEMS: [&str; 4] = ["a", "b", "zz", "ü"];

fn payload(rng: &mut Rng) -> Vec<u8> {
    match rng.below(6) {
        0 => vec![],
        1 => vec![0, 255, 10, 13],
        2 => b"v1".to_vec(),
        3 => b"v2".to_vec(),
        4 => (0..rng.range(1, 40)).map(|_| rng.below(256) as u8).collect(),
        _ => vec![rng.below(3) as u8 + b'a'],
    }
}

/// values replicas can produce: random local ops on 2..3 real `ShardReplicaState`s with random
/// delivery (reordering, duplication, loss) of the deltas; every delta value and every stored
/// value goes into the pool
pub fn reachable_pool(rng: &mut Rng, steps: usize, out: &mut Out) -> Vec<ReplicatedValue> {
    reachable_pool_keyed(rng, steps, out).into_iter().map(|(_, v)| v).collect()
}

/// the same pool, every value with the key it belongs to (what `C07.Reach c k` ranges over: the
/// deltas issued for `k` and the values stored under `k`, on any node)
pub fn reachable_pool_keyed(rng: &mut Rng, steps: usize, out: &mut Out) -> Vec<(String, ReplicatedValue)> {
    let n = rng.range(2, 3) as usize;
    let level = if rng.chance(1, 3) {
        ConsistencyLevel::Causal
    } else {
        ConsistencyLevel::Eventual
    };
    let mut nodes: Vec<ShardReplicaState> = (0..n)
        .map(|i| ShardReplicaState::new(ReplicaId::new(i as u64 + 1), level))
        .collect();
    let mut inflight: Vec<(usize, redis_sim::replication::state::ReplicationDelta)> = Vec::new();
    let mut pool = Vec::new();
    for _ in 0..steps {
        let i = rng.below(n as u64) as usize;
        let key = rng.pick(&KEYS).to_string();
        let d = match rng.below(10) {
            0..=2 => {
                out.count("gen:record_write");
                let exp = if rng.chance(1, 4) { Some(rng.range(1, 5) * 1000) } else { None };
                Some(nodes[i].record_write(key, SDS::new(payload(rng)), exp))
            }
            3 => {
                out.count("gen:record_delete");
                nodes[i].record_delete(key)
            }
            4..=5 => {
                out.count("gen:record_hash_write");
                let nf = rng.range(1, 2);
                let fields = (0..nf)
                    .map(|_| (rng.pick(&FIELDS[..3]).to_string(), SDS::new(payload(rng))))
                    .collect();
                Some(nodes[i].record_hash_write(key, fields))
            }
            6 => {
                out.count("gen:record_hash_delete");
                nodes[i].record_hash_delete(key, vec![rng.pick(&FIELDS[..3]).to_string()])
            }
            _ => {
                // deliver something
                if !inflight.is_empty() {
                    out.count("gen:deliver");
                    let j = rng.below(inflight.len() as u64) as usize;
                    let (to, delta) = if rng.chance(1, 4) {
                        inflight[j].clone() // duplicate delivery
                    } else {
                        inflight.swap_remove(j)
                    };
                    nodes[to].apply_remote_delta(delta);
                }
                None
            }
        };
        if let Some(d) = d {
            pool.push((d.key.clone(), d.value.clone()));
            for to in 0..n {
                if to != i && !rng.chance(1, 8) {
                    inflight.push((to, d.clone()));
                }
            }
        }
    }
    for nd in &nodes {
        // (sorted: the pool order decides later random picks, and a HashMap's order is per-process)
        let mut kv: Vec<(&String, &ReplicatedValue)> = nd.replicated_keys.iter().collect();
        kv.sort_by(|a, b| a.0.cmp(b.0));
        for (k, v) in kv {
            pool.push((k.clone(), v.clone()));
        }
    }
    pool
}

fn small_map(rng: &mut Rng) -> BTreeMap<u64, u64> {
    let mut m = BTreeMap::new();
    for _ in 0..rng.below(4) {
        m.insert(rng.range(1, 3), rng.below(4));
    }
    m
}

fn rand_lww(rng: &mut Rng) -> MLww {
    let tomb = rng.chance(1, 4);
    MLww {
        v: if tomb || rng.chance(1, 8) { None } else { Some(payload(rng)) },
        t: rng.below(4),
        r: rng.range(1, 3),
        tomb,
    }
}

/// structured random values with deliberately colliding stamps (boundary stream)
pub fn random_value(rng: &mut Rng) -> MRv {
    let crdt = match rng.below(8) {
        0..=2 => MCrdt::Lww(rand_lww(rng)),
        3 => MCrdt::G(small_map(rng)),
        4 => MCrdt::P(small_map(rng), small_map(rng)),
        5 => {
            let mut s = BTreeSet::new();
            for _ in 0..rng.below(4) {
                s.insert(rng.pick(&ELEMS).to_string());
            }
            MCrdt::S(s)
        }
        6 => {
            let mut e = BTreeMap::new();
            for _ in 0..rng.below(3) {
                let mut tags = BTreeSet::new();
                for _ in 0..rng.range(1, 3) {
                    tags.insert((rng.range(1, 3), rng.below(3)));
                }
                e.insert(rng.pick(&ELEMS).to_string(), tags);
            }
            MCrdt::O(e, small_map(rng))
        }
        _ => {
            let mut h = BTreeMap::new();
            for _ in 0..rng.below(4) {
                h.insert(rng.pick(&FIELDS).to_string(), rand_lww(rng));
            }
            MCrdt::H(h)
        }
    };
    MRv {
        crdt,
        vc: if rng.chance(1, 3) { Some(small_map(rng)) } else { None },
        exp: if rng.chance(1, 3) { Some(rng.below(3) * 1000) } else { None },
        t: rng.below(4),
        r: rng.range(1, 3),
        rf: if rng.chance(1, 4) { Some(rng.range(1, 5) as u8) } else { None },
    }
}

/// numbers at which a narrower integer type / a signed or float conversion would change a
/// comparison or a maximum (counts stay ≤ 2^53 so that `value()` sums cannot overflow u64)
const EDGE_COUNTS: [u64; 6] = [(1 << 31) - 1, 1 << 31, (1 << 32) - 1, 1 << 32, (1 << 32) + 1, 1 << 53];
const EDGE_TIMES: [u64; 8] = [(1 << 32) - 1, 1 << 32, (1 << 32) + 1, 1 << 53, (1 << 63) - 1, 1 << 63, u64::MAX - 1, u64::MAX];

fn widen_map(rng: &mut Rng, m: &mut BTreeMap<u64, u64>) {
    for v in m.values_mut() {
        if rng.chance(1, 2) {
            *v = *rng.pick(&EDGE_COUNTS);
        }
    }
}

/// `random_value` pushed to the edges: counts / Lamport times / expiries at integer-width
/// boundaries (two operands often draw the SAME edge or neighbours), hashes with more fields than
/// any small-collection fast path would hold (33..40)
pub fn random_value_wide(rng: &mut Rng) -> MRv {
    let mut m = random_value(rng);
    match &mut m.crdt {
        MCrdt::Lww(l) => {
            if rng.chance(1, 2) {
                l.t = *rng.pick(&EDGE_TIMES);
            }
        }
        MCrdt::G(c) => widen_map(rng, c),
        MCrdt::P(p, n) => {
            widen_map(rng, p);
            widen_map(rng, n);
        }
        MCrdt::S(_) => {}
        MCrdt::O(_, next) => widen_map(rng, next),
        MCrdt::H(h) => {
            if rng.chance(1, 2) {
                for i in 0..rng.range(33, 40) {
                    if rng.chance(5, 6) {
                        h.insert(format!("f{:02}", i), rand_lww(rng));
                    }
                }
            }
            for l in h.values_mut() {
                if rng.chance(1, 6) {
                    l.t = *rng.pick(&EDGE_TIMES);
                }
            }
        }
    }
    if let Some(vc) = &mut m.vc {
        widen_map(rng, vc);
    }
    if rng.chance(1, 3) {
        m.t = *rng.pick(&EDGE_TIMES);
    }
    if rng.chance(1, 4) {
        m.exp = Some(*rng.pick(&EDGE_TIMES));
    }
    if rng.chance(1, 6) {
        m.rf = Some(*rng.pick(&[0u8, 1, 127, 128, 255]));
    }
    m
}

/// counters / sets built through the public CRDT API
pub fn api_crdt_value(rng: &mut Rng) -> ReplicatedValue {
    let rid = ReplicaId::new(rng.range(1, 3));
    let crdt = match rng.below(3) {
        0 => {
            let mut g = GCounter::new();
            for _ in 0..rng.below(5) {
                g.increment_by(ReplicaId::new(rng.range(1, 3)), rng.below(5));
            }
            CrdtValue::GCounter(g)
        }
        1 => {
            let mut p = PNCounter::new();
            for _ in 0..rng.below(5) {
                if rng.chance(1, 2) {
                    p.increment_by(ReplicaId::new(rng.range(1, 3)), rng.below(5));
                } else {
                    p.decrement_by(ReplicaId::new(rng.range(1, 3)), rng.below(5));
                }
            }
            CrdtValue::PNCounter(p)
        }
        _ => {
            let mut o: ORSet<String> = ORSet::new();
            for _ in 0..rng.below(6) {
                let e = rng.pick(&ELEMS).to_string();
                if rng.chance(3, 4) {
                    o.add(e, ReplicaId::new(rng.range(1, 3)));
                } else {
                    o.remove(&e);
                }
            }
            CrdtValue::ORSet(o)
        }
    };
    let mut rv = ReplicatedValue::with_crdt(crdt, rid);
    rv.timestamp.time = rng.below(4);
    rv
}

fn diff_fields(x: &MRv, y: &MRv) -> String {
    let mut v = Vec::new();
    if x.crdt != y.crdt {
        v.push("crdt");
    }
    if x.vc != y.vc {
        v.push("vc");
    }
    if x.exp != y.exp {
        v.push("expiry");
    }
    if (x.t, x.r) != (y.t, y.r) {
        v.push("stamp");
    }
    if x.rf != y.rf {
        v.push("rf");
    }
    v.join("+")
}

fn emit_merge(out: &mut Out, a: &ReplicatedValue, b: &ReplicatedValue) -> ReplicatedValue {
    let m = a.merge(b);
    let (ma, mb, mm) = (MRv::from_real(a), MRv::from_real(b), MRv::from_real(&m));
    out.op(
        format!("M {} | {}", ma.show(), mb.show()),
        format!(
            "{} tie={} wf={}{}",
            mm.show(),
            ma.tie_ok(&mb) as u8,
            ma.wf() as u8,
            mb.wf() as u8
        ),
    );
    m
}

fn check_triple(out: &mut Out, a: &ReplicatedValue, b: &ReplicatedValue, c: &ReplicatedValue, src: &str) {
    check_triple_keyed(out, a, b, c, src, false)
}

/// `same_key_ab`: `a` and `b` are values one cluster produced for ONE key (deltas, stored values,
/// merges of those).  `C07.reachable_tie_consistent` proves that such a pair is tie-consistent, so
/// for them commutativity is checked with NO exclusion, and a tie-inconsistent pair is itself a
/// violation (the real replicas issued one stamp for two different writes / kinds).
fn check_triple_keyed(out: &mut Out, a: &ReplicatedValue, b: &ReplicatedValue, c: &ReplicatedValue, src: &str, same_key_ab: bool) {
    let (ma, mb, mc) = (MRv::from_real(a), MRv::from_real(b), MRv::from_real(c));
    let replay = |what: &str| json!({"law": what, "a": ma.show(), "b": mb.show(), "c": mc.show(), "source": src});
    // correspondence ops (incl. merges of merges)
    let ab = emit_merge(out, a, b);
    let ba = emit_merge(out, b, a);
    let aa = emit_merge(out, a, a);
    let bc = emit_merge(out, b, c);
    let ab_c = emit_merge(out, &ab, c);
    let a_bc = emit_merge(out, a, &bc);
    // every accessor of every operand / result (correspondence), and the laws once more through
    // the accessors alone
    let acc: Vec<String> = [a, &ab, &ba, &aa, &ab_c, &a_bc].iter().map(|v| emit_accessors(out, v)).collect();
    let (mab, mba, maa) = (MRv::from_real(&ab), MRv::from_real(&ba), MRv::from_real(&aa));
    let (mab_c, ma_bc) = (MRv::from_real(&ab_c), MRv::from_real(&a_bc));

    let kinds = format!("{},{},{}", ma.crdt.kind_name(), mb.crdt.kind_name(), mc.crdt.kind_name());
    out.count(&format!("kinds:{}", if ma.crdt.kind() == mb.crdt.kind() && mb.crdt.kind() == mc.crdt.kind() { "same" } else { "mixed" }));
    out.count(&format!("kind:{}", ma.crdt.kind_name()));
    if (ma.t, ma.r) == (mb.t, mb.r) {
        out.count("stamp-tie:full");
    } else if ma.t == mb.t {
        out.count("stamp-tie:time-only");
    }
    let nontrivial = ma != mb && (mab != ma || mab != mb);
    out.case(&format!("{}|{}|{}", ma.show(), mb.show(), mc.show()), nontrivial);
    out.sample(replay("sample"));

    // direct oracle on the real code
    if ma.wf() {
        if maa != ma {
            out.violation(&format!("C07:idem:{}:{}", ma.crdt.kind_name(), diff_fields(&maa, &ma)),
                "merge(a,a) != a on the real code", replay("idempotence"));
        }
    } else {
        out.count("excluded:not-wf");
    }
    if ma.wf() && mb.wf() {
        if ma.tie_ok(&mb) {
            if mab != mba {
                out.violation(&format!("C07:comm:{}:{}", if ma.crdt.kind() == mb.crdt.kind() { "same-kind" } else { "cross-kind" }, diff_fields(&mab, &mba)),
                    "merge(a,b) != merge(b,a) on the real code for a tie-consistent pair", replay("commutativity"));
            }
        } else if same_key_ab {
            out.violation(&format!("C07:reach:tie-inconsistent:{}", if ma.crdt.kind() == mb.crdt.kind() { "same-kind" } else { "cross-kind" }),
                "two values the real replicas produced for ONE key (deltas / stored values / merges) carry the same stamp with different contents or kinds — reachable_tie_consistent says this cannot happen", replay("reachable-tie-consistency"));
        } else {
            out.count("excluded:tie-inconsistent-pair");
        }
        if same_key_ab {
            out.count("reach:same-key-pair");
            if ma.crdt.kind() != mb.crdt.kind() {
                out.count("reach:same-key-pair:cross-kind");
            }
            if ma.t == mb.t && ma != mb {
                out.count("reach:same-key-pair:equal-time");
            }
        }
    }
    // … seen through the public accessors only (what a client or a peer can call)
    if ma.wf() && acc[3] != acc[0] && maa == ma {
        out.violation("C07:accessor:idem", "merge(a,a) shows something else than a through a public accessor although the values are equal", json!({"a": ma.show(), "accessors(a)": acc[0], "accessors(merge(a,a))": acc[3]}));
    }
    if ma.wf() && mb.wf() && ma.tie_ok(&mb) && acc[1] != acc[2] && mab == mba {
        out.violation("C07:accessor:comm", "merge(a,b) and merge(b,a) are equal values but differ through a public accessor", json!({"a": ma.show(), "b": mb.show()}));
    }
    if ma.wf() && mb.wf() && mc.wf() && mab_c != ma_bc {
        let same = ma.crdt.kind() == mb.crdt.kind() && mb.crdt.kind() == mc.crdt.kind();
        out.violation(&format!("C07:assoc:{}:{}", if same { "same-kind" } else { "cross-kind" }, diff_fields(&mab_c, &ma_bc)),
            &format!("merge(a,merge(b,c)) != merge(merge(a,b),c) on the real code, kinds {}", kinds), replay("associativity"));
    }
}

/// the cross-kind witness of DESIGN.md §6.1, produced through the public API of one replica
fn witness_cross_kind(out: &mut Out) {
    let mut s = ShardReplicaState::new(ReplicaId::new(1), ConsistencyLevel::Eventual);
    let d1 = s.record_hash_write("h".into(), vec![("f".into(), SDS::from_str("1"))]);
    let d2 = s.record_write("h".into(), SDS::from_str("v"), None);
    let d3 = s.record_hash_write("h".into(), vec![("g".into(), SDS::from_str("2"))]);
    check_triple(out, &d1.value, &d2.value, &d3.value, "corpus:HSET;SET;HSET on one replica");
}


// ---------------------------------------------------------------------------------------------
// everything the three files expose: accessors, stand-alone merges, comparisons, mutators
// ---------------------------------------------------------------------------------------------

/// every public accessor of the REAL value (replica universe 1..3, `FIELDS`, `ELEMS`) — the same
/// text the model's `Driver.C07.accessors` prints from its own definitions
fn accessors_real(rv: &ReplicatedValue) -> String {
    let ob = |o: Option<&SDS>| o.map(|s| hex(s.as_bytes())).unwrap_or("~".into());
    let lww = match rv.lww() {
        Some(r) => format!("{} {} {} {}", r.value.as_ref().map(|s| hex(s.as_bytes())).unwrap_or("~".into()), r.timestamp.time, r.timestamp.replica_id.0, r.tombstone as u8),
        None => "-".into(),
    };
    let hget = FIELDS.iter().map(|f| ob(rv.hash_get(f))).collect::<Vec<_>>().join(",");
    let hash = rv.get_hash().map(|h| h.len().to_string()).unwrap_or("-".into());
    let gc = match rv.crdt.as_gcounter() {
        Some(g) => format!("{},{},{};{};{}", g.get_replica_count(&ReplicaId(1)), g.get_replica_count(&ReplicaId(2)), g.get_replica_count(&ReplicaId(3)), g.value(), g.is_empty() as u8),
        None => "-".into(),
    };
    let pn = match rv.crdt.as_pncounter() {
        Some(p) => format!("{};{}", p.value(), p.is_empty() as u8),
        None => "-".into(),
    };
    let gs = match rv.crdt.as_gset() {
        Some(s) => format!("{};{};{}", s.len(), s.is_empty() as u8, ELEMS.iter().map(|e| (s.contains(&e.to_string()) as u8).to_string()).collect::<Vec<_>>().join(",")),
        None => "-".into(),
    };
    let os = match rv.crdt.as_orset() {
        Some(o) => format!(
            "{};{};{}",
            o.len(),
            o.is_empty() as u8,
            ELEMS
                .iter()
                .map(|e| {
                    let tags = match o.get_tags(&e.to_string()) {
                        Some(t) => {
                            let mut c: Vec<u128> = t.iter().map(|t| ((t.replica_id.0 as u128) << 64) | t.sequence as u128).collect();
                            c.sort();
                            c.iter().map(|x| x.to_string()).collect::<Vec<_>>().join("+")
                        }
                        None => "~".into(),
                    };
                    format!("{}:{}", o.contains(&e.to_string()) as u8, tags)
                })
                .collect::<Vec<_>>()
                .join(",")
        ),
        None => "-".into(),
    };
    let vc = match &rv.vector_clock {
        Some(v) => format!("{},{},{}", v.get(&ReplicaId(1)), v.get(&ReplicaId(2)), v.get(&ReplicaId(3))),
        None => "-".into(),
    };
    let on = |o: Option<u64>| o.map(|x| x.to_string()).unwrap_or("-".into());
    format!(
        "get={} tomb={} type={} islww={} ishash={} lww={} hget={} hash={} gc={} pn={} gs={} os={} vc={} exp={} stamp={}.{} rf={} rf3={}",
        ob(rv.get()),
        rv.is_tombstone() as u8,
        rv.crdt_type(),
        rv.crdt.is_lww() as u8,
        rv.is_hash() as u8,
        lww,
        hget,
        hash,
        gc,
        pn,
        gs,
        os,
        vc,
        on(rv.expiry_ms),
        rv.timestamp.time,
        rv.timestamp.replica_id.0,
        on(rv.replication_factor.map(|x| x as u64)),
        rv.get_replication_factor(3)
    )
}

fn emit_accessors(out: &mut Out, rv: &ReplicatedValue) -> String {
    let a = accessors_real(rv);
    out.op(format!("A {}", MRv::from_real(rv).show()), a.clone());
    // internal consistency of the accessors of ONE value (no model involved)
    if let Some(s) = rv.crdt.as_gset() {
        if s.elements().count() != s.len() || s.is_empty() != (s.len() == 0) {
            out.violation("C07:accessor:gset-inconsistent", "GSet::elements / len / is_empty disagree on one value", json!({"value": MRv::from_real(rv).show()}));
        }
    }
    if let Some(o) = rv.crdt.as_orset() {
        if o.elements().count() != o.len() || o.elements().any(|e| !o.contains(e)) {
            out.violation("C07:accessor:orset-inconsistent", "ORSet::elements / len / contains disagree on one value", json!({"value": MRv::from_real(rv).show()}));
        }
    }
    a
}

fn stamp_text(c: &LamportClock) -> String {
    format!("{} {}", c.time, c.replica_id.0)
}

/// CrdtValue level, vector clocks, Lamport clocks, mutators, constructors
#[allow(deprecated)]
fn lattice_api(out: &mut Out, rng: &mut Rng, pool: &[(ReplicatedValue, &'static str)]) {
    // C: try_merge / deprecated merge / merge_with_timestamps / the lattice's own ==
    for _ in 0..6 {
        let a = &pool[rng.below(pool.len() as u64) as usize].0;
        let same: Vec<usize> = (0..pool.len()).filter(|j| MRv::from_real(&pool[*j].0).crdt.kind() == MRv::from_real(a).crdt.kind()).collect();
        let b = if rng.chance(2, 3) { &pool[*rng.pick(&same)].0 } else { &pool[rng.below(pool.len() as u64) as usize].0 };
        for (x, y) in [(a, b), (b, a)] {
            let t = match x.crdt.try_merge(&y.crdt) {
                Ok(m) => format!("ok {}", show_crdt(&m)),
                Err(e) => format!("err {} {}", e.self_type, e.other_type),
            };
            let dep = x.crdt.merge(&y.crdt);
            let mwt = x.crdt.merge_with_timestamps(&y.crdt, &x.timestamp, &y.timestamp);
            let eq = match (&x.crdt, &y.crdt) {
                (CrdtValue::GCounter(p), CrdtValue::GCounter(q)) => ((p == q) as u8).to_string(),
                (CrdtValue::PNCounter(p), CrdtValue::PNCounter(q)) => ((p == q) as u8).to_string(),
                (CrdtValue::GSet(p), CrdtValue::GSet(q)) => ((p == q) as u8).to_string(),
                (CrdtValue::ORSet(p), CrdtValue::ORSet(q)) => ((p == q) as u8).to_string(),
                _ => "-".into(),
            };
            out.op(format!("C {} | {}", MRv::from_real(x).show(), MRv::from_real(y).show()), format!("try={} | dep={} | mwt={} | eq={}", t, show_crdt(&dep), show_crdt(&mwt), eq));
            out.count("api:crdt-level");
        }
        // oracle: the deprecated merge is commutative in what it exposes only within one kind
        let (ma, mb) = (MRv::from_real(a), MRv::from_real(b));
        if ma.wf() && mb.wf() && ma.tie_ok(&mb) {
            let (d1, d2) = (show_crdt(&a.crdt.merge(&b.crdt)), show_crdt(&b.crdt.merge(&a.crdt)));
            if d1 != d2 {
                let same = ma.crdt.kind() == mb.crdt.kind();
                out.violation(
                    &format!("C07:comm:deprecated-crdt-merge:{}", if same { "same-kind" } else { "cross-kind" }),
                    "the deprecated CrdtValue::merge(a,b) != merge(b,a) (on a type mismatch it keeps self)",
                    json!({"a": ma.show(), "b": mb.show(), "merge(a,b)": d1, "merge(b,a)": d2}),
                );
            }
            // try_merge of one kind is commutative
            if ma.crdt.kind() == mb.crdt.kind() {
                let t1 = a.crdt.try_merge(&b.crdt).ok().map(|m| show_crdt(&m));
                let t2 = b.crdt.try_merge(&a.crdt).ok().map(|m| show_crdt(&m));
                if t1 != t2 || t1.is_none() {
                    out.violation("C07:comm:try-merge:same-kind", "try_merge(a,b) != try_merge(b,a) for two tie-consistent values of one kind", json!({"a": ma.show(), "b": mb.show()}));
                }
            }
        }
    }
    // V: vector clocks (zero entries, disjoint replicas, equal, dominated)
    for _ in 0..4 {
        let ma = small_map(rng);
        let mb = match rng.below(4) {
            0 => ma.clone(),
            1 => {
                let mut m = ma.clone();
                m.insert(rng.range(1, 3), rng.below(5));
                m
            }
            _ => small_map(rng),
        };
        let (Some(a), Some(b)) = (vclock_from(&ma), vclock_from(&mb)) else { continue };
        let m = a.merge(&b);
        let ans = format!(
            "{} hb={}{} conc={} eq={} get={},{},{}",
            vclock_map(&m).map(|x| smap_text(&x)).unwrap_or("?".into()),
            a.happens_before(&b) as u8,
            b.happens_before(&a) as u8,
            a.concurrent_with(&b) as u8,
            (a == b) as u8,
            m.get(&ReplicaId(1)),
            m.get(&ReplicaId(2)),
            m.get(&ReplicaId(3))
        );
        out.op(format!("V {} | {}", smap_text(&ma), smap_text(&mb)), ans);
        out.count("api:vclock");
        // oracle: merge laws and order laws on the real clocks
        let c = vclock_from(&small_map(rng)).unwrap_or_default();
        let vm = |x: &VectorClock| vclock_map(x);
        if vm(&a.merge(&b)) != vm(&b.merge(&a)) || vm(&a.merge(&a)) != vm(&a) || vm(&a.merge(&b.merge(&c))) != vm(&a.merge(&b).merge(&c)) {
            out.violation("C07:vclock:merge-law", "VectorClock::merge is not idempotent / commutative / associative on these clocks", json!({"a": smap_text(&ma), "b": smap_text(&mb)}));
        }
        // an operand happens before the merge or equals it (ties comparison to merge)
        let le = |x: &VectorClock, y: &VectorClock| x == y || x.happens_before(y);
        if (a.happens_before(&b) && b.happens_before(&a)) || a.happens_before(&a) || a.concurrent_with(&b) != b.concurrent_with(&a) || m.happens_before(&a) || m.happens_before(&b) || !le(&a, &m) || !le(&b, &m) {
            out.violation("C07:vclock:order-law", "happens_before / concurrent_with violate irreflexivity, asymmetry, symmetry or 'an operand never exceeds the merge'", json!({"a": smap_text(&ma), "b": smap_text(&mb)}));
        }
    }
    // K: Lamport clocks incl. ties and equal stamps
    for _ in 0..3 {
        let a = LamportClock { time: rng.below(4), replica_id: ReplicaId(rng.range(1, 3)) };
        let b = if rng.chance(1, 4) { a } else { LamportClock { time: rng.below(4), replica_id: ReplicaId(rng.range(1, 3)) } };
        let cmp = match a.cmp(&b) {
            std::cmp::Ordering::Less => 0,
            std::cmp::Ordering::Equal => 1,
            std::cmp::Ordering::Greater => 2,
        };
        let mut u = a;
        u.update(&b);
        let mut t = a;
        let ticked = t.tick();
        out.op(
            format!("K {} | {}", stamp_text(&a), stamp_text(&b)),
            format!("cmp={} merge={} update={} tick={} max={}", cmp, stamp_text(&a.merge(&b)), stamp_text(&u), stamp_text(&ticked), stamp_text(&std::cmp::max(a, b))),
        );
        out.count("api:clock");
        if a.partial_cmp(&b) != Some(a.cmp(&b)) || (a == b) != (cmp == 1) || t != ticked {
            out.violation("C07:clock:ord-inconsistent", "PartialOrd / Ord / PartialEq of LamportClock disagree, or tick() does not return the ticked clock", json!({"a": stamp_text(&a), "b": stamp_text(&b)}));
        }
    }
    // U: mutators on pool values of the matching kind; value-level mutators on any value
    for _ in 0..8 {
        let base = pool[rng.below(pool.len() as u64) as usize].0.clone();
        let text = MRv::from_real(&base).show();
        let r = rng.range(1, 3);
        let e = rng.pick(&ELEMS).to_string();
        let he = hex(e.as_bytes());
        let mut v = base.clone();
        let done: Option<(String, String)> = match (&mut v.crdt, rng.below(3)) {
            (CrdtValue::GCounter(g), _) => {
                let n = rng.below(4);
                if n == 1 { g.increment(ReplicaId(r)) } else { g.increment_by(ReplicaId(r), n) }
                Some((format!("U ginc {} {} {}", text, r, n), String::new()))
            }
            (CrdtValue::PNCounter(p), k) => {
                let n = rng.below(4);
                if k == 0 {
                    if n == 1 { p.decrement(ReplicaId(r)) } else { p.decrement_by(ReplicaId(r), n) }
                    Some((format!("U pdec {} {} {}", text, r, n), String::new()))
                } else {
                    if n == 1 { p.increment(ReplicaId(r)) } else { p.increment_by(ReplicaId(r), n) }
                    Some((format!("U pinc {} {} {}", text, r, n), String::new()))
                }
            }
            (CrdtValue::GSet(s), _) => {
                let new = s.add(e.clone());
                Some((format!("U sadd {} {}", text, he), format!(" new={}", new as u8)))
            }
            (CrdtValue::ORSet(o), 0) => {
                let t = o.add(e.clone(), ReplicaId(r));
                Some((format!("U oadd {} {} {}", text, he, r), format!(" tag={}", ((t.replica_id.0 as u128) << 64) | t.sequence as u128)))
            }
            (CrdtValue::ORSet(o), 1) => {
                let t = o.remove(&e);
                let mut c: Vec<u128> = t.iter().map(|t| ((t.replica_id.0 as u128) << 64) | t.sequence as u128).collect();
                c.sort();
                Some((format!("U orem {} {}", text, he), format!(" tags={}", c.iter().map(|x| x.to_string()).collect::<Vec<_>>().join("+"))))
            }
            (CrdtValue::ORSet(o), _) => {
                // remove some of the element's tags (and one it does not have)
                let have: Vec<redis_sim::replication::lattice::UniqueTag> = o.get_tags(&e).map(|t| t.iter().cloned().collect()).unwrap_or_default();
                let mut rm: std::collections::HashSet<redis_sim::replication::lattice::UniqueTag> = have.iter().filter(|_| rng.chance(2, 3)).cloned().collect();
                rm.insert(redis_sim::replication::lattice::UniqueTag::new(ReplicaId(3), 77));
                o.apply_remove(&e, &rm);
                let mut c: Vec<u128> = rm.iter().map(|t| ((t.replica_id.0 as u128) << 64) | t.sequence as u128).collect();
                c.sort();
                Some((format!("U oapp {} {} {} {}", text, he, c.len(), c.iter().map(|x| x.to_string()).collect::<Vec<_>>().join(" ")), String::new()))
            }
            _ => None,
        };
        if let Some((line, extra)) = done {
            out.op(line, format!("{}{}", MRv::from_real(&v).show(), extra));
            out.count("api:lattice-mutator");
            // a counter / set mutator is inflationary for the state merge — except ORSet::remove / apply_remove
            let grown = MRv::from_real(&base.merge(&v));
            let is_removal = matches!(base.crdt, CrdtValue::ORSet(_)) && MRv::from_real(&v) != grown;
            if MRv::from_real(&v).wf() && MRv::from_real(&base).wf() && grown != MRv::from_real(&v) && !is_removal {
                out.violation("C07:mutator:not-inflationary", "merge(old, op(old)) != op(old) for a counter / set mutator (other than an OR-set removal)", json!({"old": text, "new": MRv::from_real(&v).show()}));
            }
            if is_removal {
                out.count("api:orset-removal-undone-by-state-merge");
            }
        }
        // value-level mutators
        let mut v = base.clone();
        let mut clock = LamportClock { time: rng.below(6), replica_id: ReplicaId(r) };
        let c0 = stamp_text(&clock);
        let f = rng.pick(&FIELDS[..3]).to_string();
        let pv = payload(rng);
        let (line, extra) = match rng.below(5) {
            0 => {
                let mut vc = if rng.chance(1, 2) { vclock_from(&small_map(rng)) } else { None };
                let vct = vc.as_ref().and_then(vclock_map).map(|m| format!("V {}", smap_text(&m))).unwrap_or("-".into());
                v.set(SDS::new(pv.clone()), &mut clock, vc.as_mut());
                (format!("U set {} {} {} {}", text, hex(&pv), c0, vct), format!(" clock={} vc={}", stamp_text(&clock), vc.as_ref().and_then(vclock_map).map(|m| smap_text(&m)).unwrap_or("-".into())))
            }
            1 => {
                v.delete(&mut clock);
                (format!("U del {} {}", text, c0), format!(" clock={}", stamp_text(&clock)))
            }
            2 => {
                v.hash_set(f.clone(), SDS::new(pv.clone()), &mut clock);
                (format!("U hset {} {} {} {}", text, hex(f.as_bytes()), hex(&pv), c0), format!(" clock={}", stamp_text(&clock)))
            }
            3 => {
                v.hash_delete(&f, &mut clock);
                (format!("U hdel {} {} {}", text, hex(f.as_bytes()), c0), format!(" clock={}", stamp_text(&clock)))
            }
            _ => {
                let n = rng.range(0, 7) as u8;
                v = v.with_replication_factor(n);
                (format!("U rf {} {}", text, n), String::new())
            }
        };
        out.op(line, format!("{}{}", MRv::from_real(&v).show(), extra));
        out.count("api:value-mutator");
        emit_accessors(out, &v);
    }
    // vector clock increment, constructors
    {
        let m = small_map(rng);
        if let Some(mut v) = vclock_from(&m) {
            let r = rng.range(1, 3);
            v.increment(ReplicaId(r));
            out.op(format!("U vinc {} {}", smap_text(&m), r), vclock_map(&v).map(|x| smap_text(&x)).unwrap_or("?".into()));
        }
        let r = rng.range(1, 3);
        let rid = ReplicaId(r);
        let ctor: Vec<(&str, ReplicatedValue)> = vec![
            ("rv", ReplicatedValue::new(rid)),
            ("lww", ReplicatedValue::with_crdt(CrdtValue::new_lww(rid), rid)),
            ("gcounter", ReplicatedValue::with_crdt(CrdtValue::new_gcounter(), rid)),
            ("pncounter", ReplicatedValue::with_crdt(CrdtValue::new_pncounter(), rid)),
            ("gset", ReplicatedValue::with_crdt(CrdtValue::new_gset(), rid)),
            ("orset", ReplicatedValue::with_crdt(CrdtValue::new_orset(), rid)),
            ("hash", ReplicatedValue::with_crdt(CrdtValue::new_hash(), rid)),
        ];
        for (k, v) in ctor {
            out.op(format!("U new {} {}", k, r), MRv::from_real(&v).show());
            emit_accessors(out, &v);
        }
        out.count("api:constructors");
    }
}

/// every `pub fn` / trait impl of the three anchored files, from the source the binary was built
/// against, and how this harness drives it
fn coverage(out: &mut Out) {
    use crate::c06msg::{non_test, read_src, repo_dir, scan_pub_fns};
    let mut table: BTreeMap<String, String> = BTreeMap::new();
    let files: [(&str, &[&str]); 3] = [
        ("src/replication/lattice.rs", &["ReplicaId", "LamportClock", "LwwRegister", "VectorClock", "GCounter", "PNCounter", "GSet", "UniqueTag", "ORSet"]),
        ("src/replication/state/crdt_value.rs", &["CrdtValue"]),
        ("src/replication/state/replicated_value.rs", &["ReplicatedValue"]),
    ];
    let how = |ty: &str, f: &str| -> Option<&'static str> {
        Some(match (ty, f) {
            (_, "verify_invariants") | (_, "verify_hash_invariants") => "debug-only (empty in release builds)",
            ("ReplicaId", "new") | ("UniqueTag", "new") => "constructor used by every generator",
            ("LamportClock", "new") => "driven: U new (the stamp of a fresh value)",
            ("LamportClock", "tick") | ("LamportClock", "update") | ("LamportClock", "merge") => "driven: K lines (model Stamp.tick / update / mergeClock)",
            ("LamportClock", "Ord") | ("LamportClock", "PartialOrd") => "driven: K lines (cmp, max) incl. ties and equal stamps",
            ("LwwRegister", "new") | ("LwwRegister", "with_value") => "driven: U new / RV.withValue; register fields read by every A line",
            ("LwwRegister", "set") | ("LwwRegister", "delete") => "driven: U set / del / hset / hdel (through ReplicatedValue) and every reachable pool",
            ("LwwRegister", "merge") => "driven: M and C lines on Lww / Hash values (model Lww.merge)",
            ("LwwRegister", "get") => "driven: A lines (get=, hget=)",
            ("VectorClock", "new") => "Default / new: driven through U set with a fresh clock",
            ("VectorClock", "increment") => "driven: U vinc, U set with a vector clock",
            ("VectorClock", "get") => "driven: A lines (vc=), V lines (get=)",
            ("VectorClock", "merge") | ("VectorClock", "happens_before") | ("VectorClock", "concurrent_with") | ("VectorClock", "PartialEq") => "driven: V lines (model VClock.merge / happensBefore / concurrentWith / eq) + order-law oracle",
            ("GCounter", "new") | ("PNCounter", "new") | ("GSet", "new") | ("ORSet", "new") => "driven: U new <kind>",
            ("GCounter", "increment") | ("GCounter", "increment_by") => "driven: U ginc (n = 1 → increment)",
            ("GCounter", "value") | ("GCounter", "get_replica_count") | ("GCounter", "is_empty") => "driven: A lines (gc=)",
            ("GCounter", "merge") | ("PNCounter", "merge") | ("GSet", "merge") | ("ORSet", "merge") => "driven: M and C lines on values of that kind",
            ("GCounter", "PartialEq") | ("PNCounter", "PartialEq") | ("GSet", "PartialEq") | ("ORSet", "PartialEq") => "driven: C lines (eq=)",
            ("GCounter", "Eq") | ("PNCounter", "Eq") | ("GSet", "Eq") | ("ORSet", "Eq") => "marker trait",
            ("PNCounter", "increment") | ("PNCounter", "increment_by") => "driven: U pinc",
            ("PNCounter", "decrement") | ("PNCounter", "decrement_by") => "driven: U pdec",
            ("PNCounter", "value") | ("PNCounter", "is_empty") => "driven: A lines (pn=)",
            ("GSet", "add") => "driven: U sadd (return value compared)",
            ("GSet", "contains") | ("GSet", "len") | ("GSet", "is_empty") => "driven: A lines (gs=)",
            ("GSet", "elements") | ("ORSet", "elements") => "driven: accessor-consistency oracle (elements vs len vs contains) on every A line",
            ("GSet", "Default") | ("ORSet", "Default") | ("VectorClock", "Default") | ("GCounter", "Default") | ("PNCounter", "Default") => "= new()",
            ("ORSet", "add") => "driven: U oadd (tag compared)",
            ("ORSet", "remove") => "driven: U orem (returned tags compared)",
            ("ORSet", "apply_remove") => "driven: U oapp",
            ("ORSet", "contains") | ("ORSet", "len") | ("ORSet", "is_empty") | ("ORSet", "get_tags") => "driven: A lines (os=)",
            ("CrdtValue", "new_lww") | ("CrdtValue", "new_gcounter") | ("CrdtValue", "new_pncounter") | ("CrdtValue", "new_gset") | ("CrdtValue", "new_orset") | ("CrdtValue", "new_hash") => "driven: U new <kind>",
            ("CrdtValue", "try_merge") | ("CrdtValue", "merge_with_timestamps") | ("CrdtValue", "merge") => "driven: C lines (try= / mwt= / dep=); the deprecated merge is a known finding across kinds",
            ("CrdtValue", "type_name") | ("CrdtValue", "is_lww") => "driven: A lines (type=, islww=)",
            ("CrdtValue", "as_lww") | ("CrdtValue", "as_gcounter") | ("CrdtValue", "as_pncounter") | ("CrdtValue", "as_gset") | ("CrdtValue", "as_orset") | ("CrdtValue", "as_hash") => "driven: A lines read the value through it",
            ("CrdtValue", "as_lww_mut") | ("CrdtValue", "as_hash_mut") => "mutable view: same match as the shared accessor; used by nothing in the crate",
            ("CrdtValue", "as_gcounter_mut") | ("CrdtValue", "as_pncounter_mut") | ("CrdtValue", "as_gset_mut") | ("CrdtValue", "as_orset_mut") => "mutable view: same match as the shared accessor (the U lines mutate through the enum directly)",
            ("ReplicatedValue", "new") | ("ReplicatedValue", "with_crdt") | ("ReplicatedValue", "with_value") => "driven: U new; with_value through record_write of every reachable pool",
            ("ReplicatedValue", "with_replication_factor") | ("ReplicatedValue", "get_replication_factor") => "driven: U rf, A lines (rf=, rf3=)",
            ("ReplicatedValue", "set") | ("ReplicatedValue", "delete") | ("ReplicatedValue", "hash_set") | ("ReplicatedValue", "hash_delete") => "driven: U set / del / hset / hdel on values of EVERY kind (type changes incl.), and through the shard ops of the reachable pools",
            ("ReplicatedValue", "merge") => "driven: M lines + the three laws on the real values",
            ("ReplicatedValue", "get") | ("ReplicatedValue", "is_tombstone") | ("ReplicatedValue", "crdt_type") | ("ReplicatedValue", "lww") | ("ReplicatedValue", "is_hash") | ("ReplicatedValue", "get_hash") | ("ReplicatedValue", "hash_get") => "driven: A lines",
            ("ReplicatedValue", "crdt_mut") | ("ReplicatedValue", "lww_mut") | ("ReplicatedValue", "get_hash_mut") => "mutable views of the same fields",
            _ => return None,
        })
    };
    for (file, types) in files {
        let Some(src) = read_src(file) else {
            out.violation("C07:coverage:source-scan-failed", "an anchored source file could not be read from the tree the harness was built against", json!({"file": file, "tree": repo_dir()}));
            continue;
        };
        let src = non_test(&src).to_string();
        // kani / test sections of lattice.rs come after the library part
        let src = match src.find("#[cfg(kani)]") { Some(i) => src[..i].to_string(), None => src };
        let mut names: Vec<(String, String)> = Vec::new();
        for ty in types.iter() {
            for f in scan_pub_fns(&src, ty) {
                names.push((ty.to_string(), f));
            }
        }
        // trait impls: `impl<..> Trait for Type<..>`
        for l in src.lines() {
            if l.starts_with("impl") && l.contains(" for ") {
                let head = l.split('{').next().unwrap_or("");
                let toks: Vec<&str> = head.split(|c: char| !(c.is_alphanumeric() || c == '_')).filter(|s| !s.is_empty()).collect();
                if let Some(p) = toks.iter().position(|t| *t == "for") {
                    if let (Some(tr), Some(ty)) = (toks[..p].iter().rev().find(|t| t.chars().next().unwrap().is_uppercase() && t.len() > 1 && !["Clone", "Hash"].contains(t) || **t == "Eq"), toks.get(p + 1)) {
                        names.push((ty.to_string(), tr.to_string()));
                    }
                }
            }
        }
        if names.len() < types.len() * 2 {
            out.violation("C07:coverage:source-scan-failed", "the source scan found implausibly few functions", json!({"file": file, "found": names.len()}));
        }
        for (ty, f) in names {
            let key = format!("{}::{}", ty, f);
            match how(&ty, &f) {
                Some(h) => {
                    table.insert(key, h.to_string());
                }
                None => {
                    table.insert(key.clone(), "UNACCOUNTED".into());
                    out.violation(&format!("C07:coverage:fn-not-driven:{}", key), "a public function / trait impl of the replicated value lattice exists in the source the harness was built against, but the harness neither drives it nor says why not", json!({"name": key, "file": file}));
                }
            }
        }
    }
    out.extra.insert("api_coverage(derived from lattice.rs, crdt_value.rs, replicated_value.rs)".into(), json!(table));
}

/// the deprecated merge across kinds (known finding, must be re-found on every run)
#[allow(deprecated)]
fn witness_deprecated_merge(out: &mut Out) {
    let a = ReplicatedValue::with_value(SDS::from_str("v"), LamportClock { time: 1, replica_id: ReplicaId(1) });
    let mut g = GCounter::new();
    g.increment(ReplicaId(1));
    let b = ReplicatedValue::with_crdt(CrdtValue::GCounter(g), ReplicaId(2));
    let (d1, d2) = (show_crdt(&a.crdt.merge(&b.crdt)), show_crdt(&b.crdt.merge(&a.crdt)));
    if d1 != d2 {
        out.violation("C07:comm:deprecated-crdt-merge:cross-kind", "the deprecated CrdtValue::merge(a,b) != merge(b,a) (on a type mismatch it keeps self)", json!({"a": MRv::from_real(&a).show(), "b": MRv::from_real(&b).show(), "merge(a,b)": d1, "merge(b,a)": d2}));
    }
}


/// the coverage self-audit of C07 against the eleven classes (DESIGN.md §4 C07)
fn audit() -> serde_json::Value {
    json!([
      {"class": 1, "topic": "entry path / variant never driven",
       "covered": "every pub fn and trait impl (PartialEq, Ord, Default) of lattice.rs, crdt_value.rs, replicated_value.rs is enumerated from the source the binary was built against and accounted for (C07:coverage:fn-not-driven:*): the stand-alone merge of every lattice, try_merge / merge_with_timestamps / the deprecated merge, vector-clock comparison, LamportClock merge / update / tick / cmp, the mutators of counters and sets, set / delete / hash_set / hash_delete on values of every kind, every constructor, every accessor. Before: only ReplicatedValue::merge was called (59 % / 41 % of the lines of lattice.rs / crdt_value.rs never ran)",
       "open": "the *_mut accessors are the same match as their shared twins; verify_invariants is empty in release builds"},
      {"class": 2, "topic": "input alphabet",
       "covered": "payloads empty / binary / random up to 40 bytes; set elements and hash fields incl. non-ASCII and the empty field name; zero entries in counters and vector clocks; tombstones with and without value; all six kinds in every operand position; values built through the public API, by local ops + delivery on real shards, structurally with colliding stamps, and by merging merges",
       "open": ""},
      {"class": 3, "topic": "comparison at equality",
       "covered": "equal full stamps, equal times from different replicas, equal counts, equal / dominated / disjoint vector clocks, cmp on equal clocks, an element added twice, a removal of tags the set does not hold",
       "open": ""},
      {"class": 4, "topic": "configuration", "covered": "n/a: no function of the three files reads configuration", "open": ""},
      {"class": 5, "topic": "capacity thresholds", "covered": "n/a: no internal limit",
       "open": "u64 overflow of counter increments / totals and the `as i64` of PNCounter::value are outside the Nat model (listed assumption); the Lamport time's boundary is C08's (known finding C08:clock:u64-overflow)"},
      {"class": 6, "topic": "fault kinds", "covered": "try_merge's Err (both type names compared); a mirror that cannot read a value back is a named case (…:mirror:shape-changed)", "open": "no I/O in scope"},
      {"class": 7, "topic": "history shapes", "covered": "values reached by 5..30 local ops with reordered / duplicated / lost deliveries, nested merges fed back into the pool, removal-then-state-merge on OR-sets (counted: the element comes back)", "open": ""},
      {"class": 8, "topic": "node-global state", "covered": "n/a (pure functions); next_sequence of an OR-set is carried through merges and compared", "open": ""},
      {"class": 9, "topic": "observations",
       "covered": "the full value (crdt, vector clock, expiry, stamp, rf) AND every public accessor of every operand and result (A lines: get, is_tombstone, crdt_type, is_lww, is_hash, lww, get_hash, hash_get, get_replica_count, value, is_empty, contains, len, get_tags, VectorClock::get, get_replication_factor); the three laws are evaluated on the values and once more through the accessors; Lean: obs_all_idem / comm / assoc_partial",
       "open": ""},
      {"class": 10, "topic": "finding signatures", "covered": "C07:assoc:cross-kind:crdt (kinds mixed, field 'crdt' differs) and C07:comm:deprecated-crdt-merge:cross-kind (only across kinds: the same-kind variant is a violation) are disjoint from every other failure of the laws", "open": ""},
      {"class": 11, "topic": "harness fragility", "covered": "the function list comes from the source the binary was built against; a failed or implausibly short scan is a violation; a value the mirror cannot read is a named case, not a panic", "open": ""},
      {"class": "session-4", "topic": "what session 4 added",
       "covered": "observations: every value of the reachable pools carries its key; pairs of ONE key (deltas, stored values, merges of those — what C07.Reach ranges over, over-sampled) must be tie-consistent (C07:reach:tie-inconsistent:*; theorem reachable_tie_consistent) and commute with no exclusion; comparisons: counts / Lamport times / expiries / rf at integer-width boundaries (2^31, 2^32±1, 2^53, 2^63, u64::MAX), both operands often on the same edge; capacity: hashes with 33..40 fields",
       "open": "counts above 2^53 (value() sums would overflow u64 under overflow-checks: Nat model)"},
      {"class": "session-4-selftest", "topic": "mutations / harmless rewrites tried on a private clone",
       "covered": "MISSED BEFORE, caught now: GCounter::merge comparing counts truncated to 32 bits (C07:mutator:not-inflationary on 4294967295 → 4294967297), Hash arm of try_merge returning `other` when it has more than 32 fields (C07:assoc / comm:same-kind:crdt). Caught before and now: rf merge keeps self's (C07:comm:*:rf), a merged tombstone drops the expiry (C07:idem:lww:expiry), SET in causal mode does not tick (new: C07:reach:tie-inconsistent:same-kind). Harmless rewrites: quiet before and after",
       "open": ""}
    ])
}

pub fn run(a: &Args) {
    let mut out = Out::new(&a.out);
    let mut rng = Rng::new(a.seed);
    coverage(&mut out);
    witness_cross_kind(&mut out);
    witness_deprecated_merge(&mut out);
    let mut done = 0u64;
    while done < a.n {
        // one pool per round
        let mut pool: Vec<(ReplicatedValue, &'static str)> = Vec::new();
        // the key a reachable value (or a merge of reachable values of one key) belongs to
        let mut keyof: Vec<Option<String>> = Vec::new();
        let steps = rng.range(5, 30) as usize;
        for (k, v) in reachable_pool_keyed(&mut rng, steps, &mut out) {
            pool.push((v, "reachable"));
            keyof.push(Some(k));
        }
        for i in 0..6 {
            if i < 4 {
                pool.push((random_value(&mut rng).to_real(), "random"));
            } else {
                out.count("gen:random-value-at-integer-width-boundaries/big-hash");
                pool.push((random_value_wide(&mut rng).to_real(), "random-wide"));
            }
            keyof.push(None);
        }
        for _ in 0..4 {
            pool.push((api_crdt_value(&mut rng), "crdt-api"));
            keyof.push(None);
        }
        lattice_api(&mut out, &mut rng, &pool);
        let rounds = 12;
        for _ in 0..rounds {
            let mode = rng.below(4);
            let i = rng.below(pool.len() as u64) as usize;
            let pick_same_kind = |rng: &mut Rng, pool: &Vec<(ReplicatedValue, &'static str)>| -> usize {
                let k = MRv::from_real(&pool[i].0).crdt.kind();
                let c: Vec<usize> = (0..pool.len()).filter(|j| MRv::from_real(&pool[*j].0).crdt.kind() == k).collect();
                *rng.pick(&c)
            };
            let (j, k) = if mode < 2 {
                (pick_same_kind(&mut rng, &pool), pick_same_kind(&mut rng, &pool))
            } else {
                (rng.below(pool.len() as u64) as usize, rng.below(pool.len() as u64) as usize)
            };
            // over-sample pairs of ONE key (the domain of the `reachable_*` theorems)
            let j = if keyof[i].is_some() && rng.chance(1, 2) {
                let c: Vec<usize> = (0..pool.len()).filter(|x| keyof[*x] == keyof[i]).collect();
                *rng.pick(&c)
            } else {
                j
            };
            let src = format!("{}/{}/{}", pool[i].1, pool[j].1, pool[k].1);
            out.count(&format!("source:{}", pool[i].1));
            let same_key = keyof[i].is_some() && keyof[i] == keyof[j];
            check_triple_keyed(&mut out, &pool[i].0.clone(), &pool[j].0.clone(), &pool[k].0.clone(), &src, same_key);
            done += 1;
            // feed merges back so nested merge results are inputs too
            if rng.chance(1, 3) {
                let m = pool[i].0.merge(&pool[j].0);
                pool.push((m, "merged"));
                keyof.push(if same_key { keyof[i].clone() } else { None });
            }
        }
    }
    out.extra.insert("audit".into(), audit());
    out.finish("case = triple (a,b,c) of real ReplicatedValues drawn from (i) values produced by random local ops + random delta delivery on real ShardReplicaStates, (ii) structured random values with colliding stamps, (iii) counters/sets built through the CRDT API, (iv) merges of those; distinct by canonical text of the triple; non-trivial iff a != b and merge(a,b) differs from a or from b");
}
