//! C07 — CRDT merge laws.  Correspondence: real `ReplicatedValue::merge` vs model `RV.merge`
//! on generated pairs (incl. merges of merges).  Oracle: idempotence / commutativity /
//! associativity evaluated directly on the real values.
use crate::enc::{MCrdt, MLww, MRv};
use crate::out::Out;
use crate::rng::Rng;
use crate::Args;
use redis_sim::redis::SDS;
use redis_sim::replication::lattice::{GCounter, ORSet, PNCounter, ReplicaId};
use redis_sim::replication::state::{CrdtValue, ReplicatedValue, ShardReplicaState};
use redis_sim::replication::ConsistencyLevel;
use serde_json::json;
use std::collections::{BTreeMap, BTreeSet};

const KEYS: [&str; 3] = ["k", "h", "é"];
const FIELDS: [&str; 4] = ["f", "g", "ab", ""];
const ELEMS: [&str; 4] = ["a", "b", "zz", "ü"];

fn payload(rng: &mut Rng) -> Vec<u8> {
    match rng.below(6) {
        0 => vec![],
        1 => vec![0, 255, 10, 13],
        2 => b"v1".to_vec(),
        3 => b"v2".to_vec(),
        4 => (0..rng.range(1, 40)).map(|_| rng.below(256) as u8).collect(),
        _ => vec![rng.below(3) as u8 + b'a'],
    }
}

/// values replicas can produce: random local ops on 2..3 real `ShardReplicaState`s with random
/// delivery (reordering, duplication, loss) of the deltas; every delta value and every stored
/// value goes into the pool
pub fn reachable_pool(rng: &mut Rng, steps: usize, out: &mut Out) -> Vec<ReplicatedValue> {
    let n = rng.range(2, 3) as usize;
    let level = if rng.chance(1, 3) {
        ConsistencyLevel::Causal
    } else {
        ConsistencyLevel::Eventual
    };
    let mut nodes: Vec<ShardReplicaState> = (0..n)
        .map(|i| ShardReplicaState::new(ReplicaId::new(i as u64 + 1), level))
        .collect();
    let mut inflight: Vec<(usize, redis_sim::replication::state::ReplicationDelta)> = Vec::new();
    let mut pool = Vec::new();
    for _ in 0..steps {
        let i = rng.below(n as u64) as usize;
        let key = rng.pick(&KEYS).to_string();
        let d = match rng.below(10) {
            0..=2 => {
                out.count("gen:record_write");
                let exp = if rng.chance(1, 4) { Some(rng.range(1, 5) * 1000) } else { None };
                Some(nodes[i].record_write(key, SDS::new(payload(rng)), exp))
            }
            3 => {
                out.count("gen:record_delete");
                nodes[i].record_delete(key)
            }
            4..=5 => {
                out.count("gen:record_hash_write");
                let nf = rng.range(1, 2);
                let fields = (0..nf)
                    .map(|_| (rng.pick(&FIELDS[..3]).to_string(), SDS::new(payload(rng))))
                    .collect();
                Some(nodes[i].record_hash_write(key, fields))
            }
            6 => {
                out.count("gen:record_hash_delete");
                nodes[i].record_hash_delete(key, vec![rng.pick(&FIELDS[..3]).to_string()])
            }
            _ => {
                // deliver something
                if !inflight.is_empty() {
                    out.count("gen:deliver");
                    let j = rng.below(inflight.len() as u64) as usize;
                    let (to, delta) = if rng.chance(1, 4) {
                        inflight[j].clone() // duplicate delivery
                    } else {
                        inflight.swap_remove(j)
                    };
                    nodes[to].apply_remote_delta(delta);
                }
                None
            }
        };
        if let Some(d) = d {
            pool.push(d.value.clone());
            for to in 0..n {
                if to != i && !rng.chance(1, 8) {
                    inflight.push((to, d.clone()));
                }
            }
        }
    }
    for nd in &nodes {
        for v in nd.replicated_keys.values() {
            pool.push(v.clone());
        }
    }
    pool
}

fn small_map(rng: &mut Rng) -> BTreeMap<u64, u64> {
    let mut m = BTreeMap::new();
    for _ in 0..rng.below(4) {
        m.insert(rng.range(1, 3), rng.below(4));
    }
    m
}

fn rand_lww(rng: &mut Rng) -> MLww {
    let tomb = rng.chance(1, 4);
    MLww {
        v: if tomb || rng.chance(1, 8) { None } else { Some(payload(rng)) },
        t: rng.below(4),
        r: rng.range(1, 3),
        tomb,
    }
}

/// structured random values with deliberately colliding stamps (boundary stream)
pub fn random_value(rng: &mut Rng) -> MRv {
    let crdt = match rng.below(8) {
        0..=2 => MCrdt::Lww(rand_lww(rng)),
        3 => MCrdt::G(small_map(rng)),
        4 => MCrdt::P(small_map(rng), small_map(rng)),
        5 => {
            let mut s = BTreeSet::new();
            for _ in 0..rng.below(4) {
                s.insert(rng.pick(&ELEMS).to_string());
            }
            MCrdt::S(s)
        }
        6 => {
            let mut e = BTreeMap::new();
            for _ in 0..rng.below(3) {
                let mut tags = BTreeSet::new();
                for _ in 0..rng.range(1, 3) {
                    tags.insert((rng.range(1, 3), rng.below(3)));
                }
                e.insert(rng.pick(&ELEMS).to_string(), tags);
            }
            MCrdt::O(e, small_map(rng))
        }
        _ => {
            let mut h = BTreeMap::new();
            for _ in 0..rng.below(4) {
                h.insert(rng.pick(&FIELDS).to_string(), rand_lww(rng));
            }
            MCrdt::H(h)
        }
    };
    MRv {
        crdt,
        vc: if rng.chance(1, 3) { Some(small_map(rng)) } else { None },
        exp: if rng.chance(1, 3) { Some(rng.below(3) * 1000) } else { None },
        t: rng.below(4),
        r: rng.range(1, 3),
        rf: if rng.chance(1, 4) { Some(rng.range(1, 5) as u8) } else { None },
    }
}

/// counters / sets built through the public CRDT API
pub fn api_crdt_value(rng: &mut Rng) -> ReplicatedValue {
    let rid = ReplicaId::new(rng.range(1, 3));
    let crdt = match rng.below(3) {
        0 => {
            let mut g = GCounter::new();
            for _ in 0..rng.below(5) {
                g.increment_by(ReplicaId::new(rng.range(1, 3)), rng.below(5));
            }
            CrdtValue::GCounter(g)
        }
        1 => {
            let mut p = PNCounter::new();
            for _ in 0..rng.below(5) {
                if rng.chance(1, 2) {
                    p.increment_by(ReplicaId::new(rng.range(1, 3)), rng.below(5));
                } else {
                    p.decrement_by(ReplicaId::new(rng.range(1, 3)), rng.below(5));
                }
            }
            CrdtValue::PNCounter(p)
        }
        _ => {
            let mut o: ORSet<String> = ORSet::new();
            for _ in 0..rng.below(6) {
                let e = rng.pick(&ELEMS).to_string();
                if rng.chance(3, 4) {
                    o.add(e, ReplicaId::new(rng.range(1, 3)));
                } else {
                    o.remove(&e);
                }
            }
            CrdtValue::ORSet(o)
        }
    };
    let mut rv = ReplicatedValue::with_crdt(crdt, rid);
    rv.timestamp.time = rng.below(4);
    rv
}

fn diff_fields(x: &MRv, y: &MRv) -> String {
    let mut v = Vec::new();
    if x.crdt != y.crdt {
        v.push("crdt");
    }
    if x.vc != y.vc {
        v.push("vc");
    }
    if x.exp != y.exp {
        v.push("expiry");
    }
    if (x.t, x.r) != (y.t, y.r) {
        v.push("stamp");
    }
    if x.rf != y.rf {
        v.push("rf");
    }
    v.join("+")
}

fn emit_merge(out: &mut Out, a: &ReplicatedValue, b: &ReplicatedValue) -> ReplicatedValue {
    let m = a.merge(b);
    let (ma, mb, mm) = (MRv::from_real(a), MRv::from_real(b), MRv::from_real(&m));
    out.op(
        format!("M {} | {}", ma.show(), mb.show()),
        format!(
            "{} tie={} wf={}{}",
            mm.show(),
            ma.tie_ok(&mb) as u8,
            ma.wf() as u8,
            mb.wf() as u8
        ),
    );
    m
}

fn check_triple(out: &mut Out, a: &ReplicatedValue, b: &ReplicatedValue, c: &ReplicatedValue, src: &str) {
    let (ma, mb, mc) = (MRv::from_real(a), MRv::from_real(b), MRv::from_real(c));
    let replay = |what: &str| json!({"law": what, "a": ma.show(), "b": mb.show(), "c": mc.show(), "source": src});
    // correspondence ops (incl. merges of merges)
    let ab = emit_merge(out, a, b);
    let ba = emit_merge(out, b, a);
    let aa = emit_merge(out, a, a);
    let bc = emit_merge(out, b, c);
    let ab_c = emit_merge(out, &ab, c);
    let a_bc = emit_merge(out, a, &bc);
    let (mab, mba, maa) = (MRv::from_real(&ab), MRv::from_real(&ba), MRv::from_real(&aa));
    let (mab_c, ma_bc) = (MRv::from_real(&ab_c), MRv::from_real(&a_bc));

    let kinds = format!("{},{},{}", ma.crdt.kind_name(), mb.crdt.kind_name(), mc.crdt.kind_name());
    out.count(&format!("kinds:{}", if ma.crdt.kind() == mb.crdt.kind() && mb.crdt.kind() == mc.crdt.kind() { "same" } else { "mixed" }));
    out.count(&format!("kind:{}", ma.crdt.kind_name()));
    if (ma.t, ma.r) == (mb.t, mb.r) {
        out.count("stamp-tie:full");
    } else if ma.t == mb.t {
        out.count("stamp-tie:time-only");
    }
    let nontrivial = ma != mb && (mab != ma || mab != mb);
    out.case(&format!("{}|{}|{}", ma.show(), mb.show(), mc.show()), nontrivial);
    out.sample(replay("sample"));

    // direct oracle on the real code
    if ma.wf() {
        if maa != ma {
            out.violation(&format!("C07:idem:{}:{}", ma.crdt.kind_name(), diff_fields(&maa, &ma)),
                "merge(a,a) != a on the real code", replay("idempotence"));
        }
    } else {
        out.count("excluded:not-wf");
    }
    if ma.wf() && mb.wf() {
        if ma.tie_ok(&mb) {
            if mab != mba {
                out.violation(&format!("C07:comm:{}:{}", if ma.crdt.kind() == mb.crdt.kind() { "same-kind" } else { "cross-kind" }, diff_fields(&mab, &mba)),
                    "merge(a,b) != merge(b,a) on the real code for a tie-consistent pair", replay("commutativity"));
            }
        } else {
            out.count("excluded:tie-inconsistent-pair");
        }
    }
    if ma.wf() && mb.wf() && mc.wf() && mab_c != ma_bc {
        let same = ma.crdt.kind() == mb.crdt.kind() && mb.crdt.kind() == mc.crdt.kind();
        out.violation(&format!("C07:assoc:{}:{}", if same { "same-kind" } else { "cross-kind" }, diff_fields(&mab_c, &ma_bc)),
            &format!("merge(a,merge(b,c)) != merge(merge(a,b),c) on the real code, kinds {}", kinds), replay("associativity"));
    }
}

/// the cross-kind witness of DESIGN.md §6.1, produced through the public API of one replica
fn witness_cross_kind(out: &mut Out) {
    let mut s = ShardReplicaState::new(ReplicaId::new(1), ConsistencyLevel::Eventual);
    let d1 = s.record_hash_write("h".into(), vec![("f".into(), SDS::from_str("1"))]);
    let d2 = s.record_write("h".into(), SDS::from_str("v"), None);
    let d3 = s.record_hash_write("h".into(), vec![("g".into(), SDS::from_str("2"))]);
    check_triple(out, &d1.value, &d2.value, &d3.value, "corpus:HSET;SET;HSET on one replica");
}

pub fn run(a: &Args) {
    let mut out = Out::new(&a.out);
    let mut rng = Rng::new(a.seed);
    witness_cross_kind(&mut out);
    let mut done = 0u64;
    while done < a.n {
        // one pool per round
        let mut pool: Vec<(ReplicatedValue, &'static str)> = Vec::new();
        let steps = rng.range(5, 30) as usize;
        for v in reachable_pool(&mut rng, steps, &mut out) {
            pool.push((v, "reachable"));
        }
        for _ in 0..6 {
            pool.push((random_value(&mut rng).to_real(), "random"));
        }
        for _ in 0..4 {
            pool.push((api_crdt_value(&mut rng), "crdt-api"));
        }
        let rounds = 12;
        for _ in 0..rounds {
            let mode = rng.below(4);
            let i = rng.below(pool.len() as u64) as usize;
            let pick_same_kind = |rng: &mut Rng, pool: &Vec<(ReplicatedValue, &'static str)>| -> usize {
                let k = MRv::from_real(&pool[i].0).crdt.kind();
                let c: Vec<usize> = (0..pool.len()).filter(|j| MRv::from_real(&pool[*j].0).crdt.kind() == k).collect();
                *rng.pick(&c)
            };
            let (j, k) = if mode < 2 {
                (pick_same_kind(&mut rng, &pool), pick_same_kind(&mut rng, &pool))
            } else {
                (rng.below(pool.len() as u64) as usize, rng.below(pool.len() as u64) as usize)
            };
            let src = format!("{}/{}/{}", pool[i].1, pool[j].1, pool[k].1);
            out.count(&format!("source:{}", pool[i].1));
            check_triple(&mut out, &pool[i].0.clone(), &pool[j].0.clone(), &pool[k].0.clone(), &src);
            done += 1;
            // feed merges back so nested merge results are inputs too
            if rng.chance(1, 3) {
                let m = pool[i].0.merge(&pool[j].0);
                pool.push((m, "merged"));
            }
        }
    }
    out.finish("case = triple (a,b,c) of real ReplicatedValues drawn from (i) values produced by random local ops + random delta delivery on real ShardReplicaStates, (ii) structured random values with colliding stamps, (iii) counters/sets built through the CRDT API, (iv) merges of those; distinct by canonical text of the triple; non-trivial iff a != b and merge(a,b) differs from a or from b");
}
