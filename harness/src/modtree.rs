//! Source reading that follows the MODULE TREE of the dependency under test instead of a fixed
//! file (C07 / C08 source scans).  A module `foo.rs` may have file children `foo/*.rs` declared
//! by `mod x;` (any visibility, re-exported or not, `#[path = ".."]` honoured): an item moved
//! into a child module is the same item, an `impl` block may be split over several blocks or
//! files.  What a scan sees is the LIBRARY CODE of every file of the tree: comments removed,
//! items gated by `#[cfg(test)]` / `#[cfg(kani)]` blanked (line numbers are kept).
//! A `mod x;` whose file cannot be found is reported by the caller (`unresolved`): a scan never
//! silently reads less than the tree.
use std::path::{Path, PathBuf};

pub struct ModFile {
    /// path relative to the root of the dependency (`src/replication/lattice/clock.rs`)
    pub rel: String,
    /// library code, one entry per source line (blank where a comment / gated item was)
    pub lines: Vec<String>,
}

pub struct Tree {
    pub files: Vec<ModFile>,
    pub unresolved: Vec<String>,
}

impl Tree {
    /// the library code of the whole tree as one text (root first, children in declaration order)
    pub fn text(&self) -> String {
        let mut s = String::new();
        for f in &self.files {
            for l in &f.lines {
                s.push_str(l);
                s.push('\n');
            }
        }
        s
    }
    pub fn file_list(&self) -> Vec<String> {
        self.files.iter().map(|f| f.rel.clone()).collect()
    }
}

fn is_gate(t: &str) -> bool {
    // `#[cfg(test)]`, `#[cfg(kani)]`, `#[cfg(any(test, kani))]`: only these hide code from a scan
    // (anything else — a feature, a `not(..)` — stays visible: over-counting is the safe side)
    let t: String = t.chars().filter(|c| !c.is_whitespace()).collect();
    let Some(inner) = t.strip_prefix("#[cfg(").and_then(|r| r.strip_suffix(")]")) else { return false };
    let toks: Vec<&str> = inner.split(|c: char| !(c.is_alphanumeric() || c == '_')).filter(|s| !s.is_empty()).collect();
    !toks.is_empty() && toks.iter().all(|k| ["any", "all", "test", "kani"].contains(k)) && toks.iter().any(|k| *k == "test" || *k == "kani") && !inner.contains('=')
}

/// comments out, test / kani items out; line structure kept
pub fn library_lines(src: &str) -> Vec<String> {
    // 1. comments (`//` to end of line outside string literals, `/* .. */` over lines)
    let mut no_comments: Vec<String> = Vec::new();
    let mut in_block = false;
    for line in src.lines() {
        let b: Vec<char> = line.chars().collect();
        let mut o = String::new();
        let mut i = 0;
        let mut in_str = false;
        while i < b.len() {
            if in_block {
                if b[i] == '*' && i + 1 < b.len() && b[i + 1] == '/' {
                    in_block = false;
                    i += 2;
                } else {
                    i += 1;
                }
                continue;
            }
            if in_str {
                o.push(b[i]);
                if b[i] == '\\' && i + 1 < b.len() {
                    o.push(b[i + 1]);
                    i += 2;
                    continue;
                }
                if b[i] == '"' {
                    in_str = false;
                }
                i += 1;
                continue;
            }
            if b[i] == '"' {
                in_str = true;
                o.push('"');
                i += 1;
                continue;
            }
            if b[i] == '/' && i + 1 < b.len() && b[i + 1] == '/' {
                break;
            }
            if b[i] == '/' && i + 1 < b.len() && b[i + 1] == '*' {
                in_block = true;
                i += 2;
                continue;
            }
            o.push(b[i]);
            i += 1;
        }
        no_comments.push(o.trim_end().to_string());
    }
    // 2. gated items: the attribute line, further attribute lines, then either a `;`-terminated
    //    item or a block that ends at the first line `}` of the attribute's own indentation
    let mut out: Vec<String> = Vec::with_capacity(no_comments.len());
    let mut i = 0;
    while i < no_comments.len() {
        let l = &no_comments[i];
        let t = l.trim_start();
        if is_gate(t) {
            let indent = l.len() - t.len();
            out.push(String::new());
            i += 1;
            // more attributes / blank lines
            while i < no_comments.len() && (no_comments[i].trim_start().starts_with("#[") || no_comments[i].trim().is_empty()) {
                out.push(String::new());
                i += 1;
            }
            // the item
            let mut opened = false;
            while i < no_comments.len() {
                let cur = no_comments[i].clone();
                out.push(String::new());
                i += 1;
                if !opened {
                    let semi = cur.find(';');
                    let brace = cur.find('{');
                    match (semi, brace) {
                        (Some(s), Some(b)) if s < b => break,
                        (Some(_), None) => break,
                        (_, Some(_)) => {
                            opened = true;
                            // `mod x {}` / one-line block
                            let opens = cur.matches('{').count();
                            let closes = cur.matches('}').count();
                            if opens == closes {
                                break;
                            }
                        }
                        _ => {}
                    }
                } else {
                    let ct = cur.trim_start();
                    if cur.len() - ct.len() == indent && (ct == "}" || ct == "};" || ct == "})" || ct == "});") {
                        break;
                    }
                }
            }
            continue;
        }
        out.push(l.clone());
        i += 1;
    }
    out
}

/// `mod x;` declarations of library code: (name, optional #[path])
fn mod_decls(lines: &[String]) -> Vec<(String, Option<String>)> {
    let mut v = Vec::new();
    let mut path_attr: Option<String> = None;
    for l in lines {
        let t = l.trim();
        if t.is_empty() {
            continue;
        }
        if t.starts_with("#[") {
            let c: String = t.chars().filter(|c| !c.is_whitespace()).collect();
            if let Some(r) = c.strip_prefix("#[path=\"") {
                if let Some(e) = r.find('"') {
                    path_attr = Some(r[..e].to_string());
                }
            }
            continue;
        }
        let mut r = t;
        if let Some(x) = r.strip_prefix("pub") {
            let x = x.trim_start();
            r = if x.starts_with('(') {
                match x.find(')') {
                    Some(p) => x[p + 1..].trim_start(),
                    None => x,
                }
            } else {
                x
            };
        }
        if let Some(x) = r.strip_prefix("mod ") {
            let name: String = x.trim_start().chars().take_while(|c| c.is_alphanumeric() || *c == '_').collect();
            let rest = x.trim_start()[name.len()..].trim_start();
            if !name.is_empty() && rest.starts_with(';') {
                v.push((name, path_attr.take()));
                continue;
            }
        }
        path_attr = None;
    }
    v
}

fn walk(root: &Path, rel: &str, tree: &mut Tree, depth: usize) {
    let Ok(src) = std::fs::read_to_string(root.join(rel)) else {
        tree.unresolved.push(rel.to_string());
        return;
    };
    let lines = library_lines(&src);
    let decls = mod_decls(&lines);
    tree.files.push(ModFile { rel: rel.to_string(), lines });
    if depth > 8 {
        return;
    }
    let p = PathBuf::from(rel);
    let dir = p.parent().map(|d| d.to_path_buf()).unwrap_or_default();
    let stem = p.file_stem().and_then(|s| s.to_str()).unwrap_or("").to_string();
    let child_dir = if ["mod", "lib", "main"].contains(&stem.as_str()) { dir.clone() } else { dir.join(&stem) };
    for (name, path_attr) in decls {
        let cands: Vec<PathBuf> = match path_attr {
            Some(pa) => vec![dir.join(&pa), child_dir.join(&pa)],
            None => vec![child_dir.join(format!("{}.rs", name)), child_dir.join(&name).join("mod.rs")],
        };
        match cands.iter().find(|c| root.join(c).is_file()) {
            Some(c) => {
                let c = c.to_string_lossy().to_string();
                if !tree.files.iter().any(|f| f.rel == c) {
                    walk(root, &c, tree, depth + 1);
                }
            }
            None => tree.unresolved.push(format!("{}: mod {};", rel, name)),
        }
    }
}

/// the module tree rooted at the file `rel` of the dependency at `root`
pub fn tree(root: &str, rel: &str) -> Tree {
    let mut t = Tree { files: Vec::new(), unresolved: Vec::new() };
    walk(Path::new(root), rel, &mut t, 0);
    t
}

/// `Type::fn` (or `fn`) that encloses line `idx` of a file
pub fn enclosing(lines: &[String], idx: usize) -> String {
    let ident = |s: &str| -> String { s.chars().take_while(|c| c.is_alphanumeric() || *c == '_').collect() };
    let site_indent = lines[idx].len() - lines[idx].trim_start().len();
    let mut f = String::new();
    let mut ty = String::new();
    for j in (0..=idx).rev() {
        let l = &lines[j];
        let t = l.trim_start();
        let ind = l.len() - t.len();
        if f.is_empty() && ind < site_indent.max(1) || (f.is_empty() && j == idx) {
            if let Some(p) = t.find("fn ") {
                let before = &t[..p];
                if before.split_whitespace().all(|w| w.starts_with("pub") || ["async", "const", "unsafe", "extern"].contains(&w)) {
                    f = ident(&t[p + 3..]);
                }
            }
        }
        if ind == 0 && t.starts_with("impl") {
            let head = t.split('{').next().unwrap_or("");
            let head = match head.find(" for ") {
                Some(p) => &head[p + 5..],
                None => head.trim_start_matches("impl").trim_start(),
            };
            // skip the generics of `impl<T: X> Name<T>`
            let head = if head.starts_with('<') {
                let mut d = 0;
                let mut cut = 0;
                for (k, c) in head.char_indices() {
                    if c == '<' {
                        d += 1;
                    }
                    if c == '>' {
                        d -= 1;
                        if d == 0 {
                            cut = k + 1;
                            break;
                        }
                    }
                }
                head[cut..].trim_start()
            } else {
                head
            };
            ty = ident(head);
            break;
        }
        if ind == 0 && t == "}" && j != idx {
            break;
        }
    }
    match (ty.is_empty(), f.is_empty()) {
        (false, false) => format!("{}::{}", ty, f),
        (true, false) => f,
        (false, true) => format!("impl {}", ty),
        _ => "top level".into(),
    }
}

/// every `.rs` file under `src/` of the dependency (library code), for "is this name used anywhere"
pub fn crate_files(root: &str) -> Vec<ModFile> {
    let mut v = Vec::new();
    let mut stack = vec![PathBuf::from("src")];
    while let Some(d) = stack.pop() {
        let Ok(rd) = std::fs::read_dir(Path::new(root).join(&d)) else { continue };
        let mut entries: Vec<_> = rd.filter_map(|e| e.ok()).collect();
        entries.sort_by_key(|e| e.file_name());
        for e in entries {
            let p = d.join(e.file_name());
            if e.path().is_dir() {
                stack.push(p);
            } else if p.extension().and_then(|x| x.to_str()) == Some("rs") {
                if let Ok(src) = std::fs::read_to_string(e.path()) {
                    v.push(ModFile { rel: p.to_string_lossy().to_string(), lines: library_lines(&src) });
                }
            }
        }
    }
    v.sort_by(|a, b| a.rel.cmp(&b.rel));
    v
}

/// uses of the identifier `name` in the crate's library code, other than its own `fn name` line:
/// `file:line` of each (empty = nothing in the crate calls / names it)
pub fn uses_of(files: &[ModFile], name: &str) -> Vec<String> {
    let mut v = Vec::new();
    for f in files {
        for (i, l) in f.lines.iter().enumerate() {
            let mut from = 0;
            while let Some(p) = l[from..].find(name) {
                let s = from + p;
                let e = s + name.len();
                let before_ok = s == 0 || !l[..s].chars().next_back().map(|c| c.is_alphanumeric() || c == '_').unwrap_or(false);
                let after_ok = !l[e..].chars().next().map(|c| c.is_alphanumeric() || c == '_').unwrap_or(false);
                let is_def = l[..s].trim_end().ends_with("fn");
                if before_ok && after_ok && !is_def {
                    v.push(format!("{}:{}", f.rel, i + 1));
                    break;
                }
                from = e;
            }
        }
    }
    v
}
