//! C05 — MULTI/EXEC is all-or-nothing and equals the sequential run; WATCH aborts on change.
//!
//! Part A (connection level, what production runs): the REAL private `OptimizedConnectionHandler`
//! is run through hook H1 (`verif_hooks::run_connection`) on in-memory duplex streams; two
//! connections (the modelled client and "the other client") share one `ShardedActorState`
//! (1 shard or 4 shards).  Every input of the modelled client and every command of the other
//! client is one op line for the model (`Txn.step` over the tiny KV store) and the real reply is
//! the implementation's answer.  The other client's writes are placed before WATCH, between WATCH
//! and MULTI, between MULTI and EXEC (all exact), and *during* EXEC: a pipeline written to the
//! second connection together with the EXEC frame.  On the current-thread runtime the two
//! connection tasks proceed in lock step (one store access each per round), so the j-th pipelined
//! command is served right after EXEC's j-th store access — a SAMPLED schedule (one foreign command
//! per await slot, this one scheduler), not all schedules; the model is told the schedule and must
//! reproduce the replies and the store, which is how the placement itself is validated.
//! A twin server (fresh 1-shard state, plain connection) executes everything outside MULTI.
//!
//! Oracle (independent of the model): EXEC result count = queue length; results and store =
//! the twin's consecutive run; DISCARD / EXECABORT / failed WATCH leave the store unchanged;
//! EXEC answers nil iff the TYPED value (not the GET reply) of some watched key differs from its
//! value at WATCH time; EXECABORT iff a queued input was refused; a concurrent EXEC must equal
//! an atomic EXEC at some point of the other client's command sequence.
//!
//! Part B (executor level): `CommandExecutor::execute` directly (MULTI/EXEC/DISCARD/WATCH/UNWATCH
//! of `transaction_ops.rs`) vs `Txn.xstep`, with the same oracle against a twin executor.
use crate::enc::{hex, key_cmp};
use crate::out::Out;
use crate::rng::Rng;
use crate::Args;
use bytes::BytesMut;
use redis_sim::production::verif_hooks::run_connection;
use redis_sim::production::{ConnectionConfig, ShardedActorState};
use redis_sim::redis::{Command, CommandExecutor, RespCodec, RespValue, Value};
use serde_json::json;
use tokio::io::{AsyncReadExt, AsyncWriteExt, DuplexStream};

/// Which variant of the connection handler /repo currently has: true since the `fix:` commit
/// 6b9d6a7 "a protocol error between MULTI and EXEC discards the transaction" — the model follows
/// `Txn.stepFixed`, the oracle expects EXECABORT, the former finding
/// C05:execabort:missing:protocol-error-not-flagged is listed under `fixed` and its witness must
/// PASS (audit corpus fault:protocol-error-in-multi). false = the pinned behaviour (`Txn.step`).
pub const CODE_PROTO_ERROR_FLAGS: bool = true;

pub(crate) const KEYS: [&str; 6] = ["k", "n", "l", "w", "ab", "x"];
/// never written: target of the no-op fillers that keep the second connection in lock step
const FILLER_KEY: &str = "zz";

// ---------------------------------------------------------------- replies

#[derive(Clone, Debug, PartialEq, Eq)]
pub enum Rv {
    Simple(String),
    Err(String),
    Int(i64),
    Bulk(Option<Vec<u8>>),
    Arr(Option<Vec<Rv>>),
}

impl Rv {
    pub(crate) fn from_resp(v: &RespValue) -> Rv {
        match v {
            RespValue::SimpleString(s) => Rv::Simple(s.to_string()),
            RespValue::Error(s) => Rv::Err(s.to_string()),
            RespValue::Integer(n) => Rv::Int(*n),
            RespValue::BulkString(b) => Rv::Bulk(b.clone()),
            RespValue::Array(a) => Rv::Arr(a.as_ref().map(|v| v.iter().map(Rv::from_resp).collect())),
        }
    }
    fn is_err(&self) -> bool {
        matches!(self, Rv::Err(_))
    }
    pub(crate) fn is_err_pub(&self) -> bool {
        self.is_err()
    }
}

/// error text → the model's error classes; `perr` = the harness sent a frame that
/// `Command::from_resp_zero_copy` must reject (any other ERR text is then the parse error)
fn err_class(t: &str, perr: bool) -> String {
    match t {
        "WRONGTYPE Operation against a key holding the wrong kind of value" => "-wrongtype".into(),
        "ERR value is not an integer or out of range" => "-notint".into(),
        "ERR increment or decrement would overflow" => "-overflow".into(),
        "ERR no such key" => "-nosuchkey".into(),
        "ERR unknown command 'FOO'" | "ERR unknown command 'RESET'" => "-unknown".into(),
        "ERR unknown command 'foo', with args beginning with: " => "-unknown-args".into(),
        "ERR AUTH is handled at connection level, not executor"
        | "ERR ACL WHOAMI is handled at connection level, not executor" => "-connlevel".into(),
        "EXECABORT Transaction discarded because of previous errors." => "-execabort".into(),
        "ERR MULTI calls can not be nested" => "-nested-multi".into(),
        "ERR WATCH inside MULTI is not allowed" => "-watch-in-multi".into(),
        "ERR EXEC without MULTI" => "-exec-without-multi".into(),
        "ERR DISCARD without MULTI" => "-discard-without-multi".into(),
        "NOPERM this user has no permissions to access the channel used as argument" => "-noperm".into(),
        "ERR protocol error" => "-protocol".into(),
        "ERR buffer overflow" => "-buffer-overflow".into(),
        "ERR unknown command" => "-unknown-global".into(),
        _ if perr && t.starts_with("ERR ") => "-parse".into(),
        _ => format!("-other:{}", hex(t.as_bytes())),
    }
}

pub(crate) fn show(v: &Rv, perr: bool) -> String {
    match v {
        Rv::Simple(s) => format!("+{}", s),
        Rv::Err(t) => err_class(t, perr),
        Rv::Int(n) => format!(":{}", n),
        Rv::Bulk(None) => "$-".into(),
        Rv::Bulk(Some(b)) => format!("${}", hex(b)),
        Rv::Arr(None) => "*-".into(),
        Rv::Arr(Some(v)) => {
            let mut s = format!("*{}", v.len());
            for x in v {
                s.push(' ');
                s.push_str(&show(x, false));
            }
            s
        }
    }
}

/// parse one RESP reply from the front of `b`; None = incomplete
fn parse_reply(b: &[u8]) -> Option<(Rv, usize)> {
    let nl = b.windows(2).position(|w| w == b"\r\n")?;
    let line = String::from_utf8_lossy(&b[1..nl]).to_string();
    let after = nl + 2;
    match b[0] {
        b'+' => Some((Rv::Simple(line), after)),
        b'-' => Some((Rv::Err(line), after)),
        b':' => Some((Rv::Int(line.parse().ok()?), after)),
        b'$' => {
            let n: i64 = line.parse().ok()?;
            if n < 0 {
                return Some((Rv::Bulk(None), after));
            }
            let n = n as usize;
            if b.len() < after + n + 2 {
                return None;
            }
            Some((Rv::Bulk(Some(b[after..after + n].to_vec())), after + n + 2))
        }
        b'*' => {
            let n: i64 = line.parse().ok()?;
            if n < 0 {
                return Some((Rv::Arr(None), after));
            }
            let mut pos = after;
            let mut v = Vec::new();
            for _ in 0..n {
                let (x, used) = parse_reply(&b[pos..])?;
                v.push(x);
                pos += used;
            }
            Some((Rv::Arr(Some(v)), pos))
        }
        _ => Some((Rv::Err(format!("?unparsable {}", hex(b))), b.len())),
    }
}

// ---------------------------------------------------------------- commands

#[derive(Clone, Debug, PartialEq, Eq)]
pub(crate) enum Cmd {
    Get(String),
    Set(String, Vec<u8>),
    Incr(String),
    Append(String, Vec<u8>),
    Del(String),
    Rpush(String, Vec<Vec<u8>>),
    Lrange(String),
    Llen(String),
    /// LSET k 0 v
    Lset(String, Vec<u8>),
    Lpop(String),
    Hset(String, Vec<u8>, Vec<u8>),
    Hdel(String, Vec<u8>),
    Sadd(String, Vec<u8>),
    Srem(String, Vec<u8>),
    Zadd(String, i64, Vec<u8>),
    Zrem(String, Vec<u8>),
    /// EXPIRE k 100000 (never reached in a session): a TTL-only change
    Expire(String),
    /// PERSIST k; the flag (did the key carry a deadline?) is observed right before sending
    Persist(String, bool),
    /// MSET k v [k v …] (fanned out per shard)
    Mset(Vec<(String, Vec<u8>)>),
    /// MGET k [k …]
    Mget(Vec<String>),
    /// DEL k k' [k'' …] with two or more keys (fanned out per shard)
    Delm(Vec<String>),
    Ping,
    Unwatch,
    Unk,
    /// 0 AUTH x, 1 ACL WHOAMI, 2 RESET, 3 CLIENT SETNAME a, 4 PUBLISH c m
    Local(u8),
}

pub(crate) fn b(s: &str) -> Vec<u8> {
    s.as_bytes().to_vec()
}

/// the key U+FFFD travels as the single byte 0xFF (not UTF-8): the server's lossy conversion must
/// land on the same key in WATCH, in the data commands and in the store
pub const FFFD_KEY: &str = "\u{FFFD}";
fn kb(k: &str) -> Vec<u8> {
    if k == FFFD_KEY {
        vec![0xff]
    } else {
        k.as_bytes().to_vec()
    }
}

impl Cmd {
    pub(crate) fn args(&self) -> Vec<Vec<u8>> {
        match self {
            Cmd::Get(k) => vec![b("GET"), kb(k)],
            Cmd::Set(k, v) => vec![b("SET"), kb(k), v.clone()],
            Cmd::Incr(k) => vec![b("INCR"), kb(k)],
            Cmd::Append(k, v) => vec![b("APPEND"), kb(k), v.clone()],
            Cmd::Del(k) => vec![b("DEL"), kb(k)],
            Cmd::Rpush(k, vs) => {
                let mut a = vec![b("RPUSH"), kb(k)];
                a.extend(vs.iter().cloned());
                a
            }
            Cmd::Lrange(k) => vec![b("LRANGE"), kb(k), b("0"), b("-1")],
            Cmd::Llen(k) => vec![b("LLEN"), kb(k)],
            Cmd::Lset(k, v) => vec![b("LSET"), kb(k), b("0"), v.clone()],
            Cmd::Lpop(k) => vec![b("LPOP"), kb(k)],
            Cmd::Hset(k, f, v) => vec![b("HSET"), kb(k), f.clone(), v.clone()],
            Cmd::Hdel(k, f) => vec![b("HDEL"), kb(k), f.clone()],
            Cmd::Sadd(k, m) => vec![b("SADD"), kb(k), m.clone()],
            Cmd::Srem(k, m) => vec![b("SREM"), kb(k), m.clone()],
            Cmd::Zadd(k, sc, m) => vec![b("ZADD"), kb(k), b(&sc.to_string()), m.clone()],
            Cmd::Zrem(k, m) => vec![b("ZREM"), kb(k), m.clone()],
            Cmd::Expire(k) => vec![b("EXPIRE"), kb(k), b("100000")],
            Cmd::Persist(k, _) => vec![b("PERSIST"), kb(k)],
            Cmd::Mset(ps) => {
                let mut a = vec![b("MSET")];
                for (k, v) in ps {
                    a.push(kb(k));
                    a.push(v.clone());
                }
                a
            }
            Cmd::Mget(ks) => {
                let mut a = vec![b("MGET")];
                a.extend(ks.iter().map(|k| kb(k)));
                a
            }
            Cmd::Delm(ks) => {
                let mut a = vec![b("DEL")];
                a.extend(ks.iter().map(|k| kb(k)));
                a
            }
            Cmd::Ping => vec![b("PING")],
            Cmd::Unwatch => vec![b("UNWATCH")],
            Cmd::Unk => vec![b("FOO"), b("a")],
            Cmd::Local(0) => vec![b("AUTH"), b("x")],
            Cmd::Local(1) => vec![b("ACL"), b("WHOAMI")],
            Cmd::Local(2) => vec![b("RESET")],
            Cmd::Local(3) => vec![b("CLIENT"), b("SETNAME"), b("a")],
            Cmd::Local(_) => vec![b("PUBLISH"), b("c"), b("m")],
        }
    }
    pub(crate) fn line(&self) -> String {
        let hk = |k: &String| hex(k.as_bytes());
        match self {
            Cmd::Get(k) => format!("GET {}", hk(k)),
            Cmd::Set(k, v) => format!("SET {} {}", hk(k), hex(v)),
            Cmd::Incr(k) => format!("INCR {}", hk(k)),
            Cmd::Append(k, v) => format!("APPEND {} {}", hk(k), hex(v)),
            Cmd::Del(k) => format!("DEL {}", hk(k)),
            Cmd::Rpush(k, vs) => {
                let mut s = format!("RPUSH {} {}", hk(k), vs.len());
                for v in vs {
                    s.push(' ');
                    s.push_str(&hex(v));
                }
                s
            }
            Cmd::Lrange(k) => format!("LRANGE {}", hk(k)),
            Cmd::Llen(k) => format!("LLEN {}", hk(k)),
            Cmd::Lset(k, v) => format!("LSET {} {}", hk(k), hex(v)),
            Cmd::Lpop(k) => format!("LPOP {}", hk(k)),
            Cmd::Hset(k, f, v) => format!("HSET {} {} {}", hk(k), hex(f), hex(v)),
            Cmd::Hdel(k, f) => format!("HDEL {} {}", hk(k), hex(f)),
            Cmd::Sadd(k, m) => format!("SADD {} {}", hk(k), hex(m)),
            Cmd::Srem(k, m) => format!("SREM {} {}", hk(k), hex(m)),
            Cmd::Zadd(k, sc, m) => format!("ZADD {} {} {}", hk(k), sc, hex(m)),
            Cmd::Zrem(k, m) => format!("ZREM {} {}", hk(k), hex(m)),
            Cmd::Expire(k) => format!("EXPIRE {}", hk(k)),
            Cmd::Persist(k, had) => format!("PERSIST {} {}", hk(k), *had as u8),
            Cmd::Mset(ps) => {
                let mut s = format!("MSET {}", ps.len());
                for (k, v) in ps {
                    s.push_str(&format!(" {} {}", hk(k), hex(v)));
                }
                s
            }
            Cmd::Mget(ks) => format!("MGET {} {}", ks.len(), ks.iter().map(|k| hk(k)).collect::<Vec<_>>().join(" ")),
            Cmd::Delm(ks) => format!("DELM {} {}", ks.len(), ks.iter().map(|k| hk(k)).collect::<Vec<_>>().join(" ")),
            Cmd::Ping => "PING".into(),
            Cmd::Unwatch => "UNWATCH".into(),
            Cmd::Unk => "UNK".into(),
            Cmd::Local(i) => format!("LOCAL {}", i),
        }
    }
    /// every key the command reads or writes
    fn keys(&self) -> Vec<&str> {
        match self {
            Cmd::Mset(ps) => ps.iter().map(|(k, _)| k.as_str()).collect(),
            Cmd::Mget(ks) | Cmd::Delm(ks) => ks.iter().map(|k| k.as_str()).collect(),
            c => c.key().into_iter().collect(),
        }
    }
    /// every key the command may write
    fn written_keys(&self) -> Vec<&str> {
        match self {
            Cmd::Mset(ps) => ps.iter().map(|(k, _)| k.as_str()).collect(),
            Cmd::Delm(ks) => ks.iter().map(|k| k.as_str()).collect(),
            c => c.written_key().into_iter().collect(),
        }
    }
    fn key(&self) -> Option<&str> {
        match self {
            Cmd::Get(k) | Cmd::Set(k, _) | Cmd::Incr(k) | Cmd::Append(k, _) | Cmd::Del(k) | Cmd::Rpush(k, _) | Cmd::Lrange(k) | Cmd::Llen(k) => Some(k),
            Cmd::Lset(k, _) | Cmd::Lpop(k) | Cmd::Hset(k, _, _) | Cmd::Hdel(k, _) | Cmd::Sadd(k, _) | Cmd::Srem(k, _) | Cmd::Zadd(k, _, _) | Cmd::Zrem(k, _) | Cmd::Expire(k) | Cmd::Persist(k, _) => Some(k),
            _ => None,
        }
    }
    fn written_key(&self) -> Option<&str> {
        match self {
            Cmd::Set(k, _) | Cmd::Incr(k) | Cmd::Append(k, _) | Cmd::Del(k) | Cmd::Rpush(k, _) => Some(k),
            Cmd::Lset(k, _) | Cmd::Lpop(k) | Cmd::Hset(k, _, _) | Cmd::Hdel(k, _) | Cmd::Sadd(k, _) | Cmd::Srem(k, _) | Cmd::Zadd(k, _, _) | Cmd::Zrem(k, _) => Some(k),
            _ => None,
        }
    }
    pub(crate) fn text(&self) -> String {
        self.args().iter().map(|a| String::from_utf8_lossy(a).to_string()).collect::<Vec<_>>().join(" ")
    }
}

pub fn frame(args: &[Vec<u8>]) -> Vec<u8> {
    let mut f = format!("*{}\r\n", args.len()).into_bytes();
    for a in args {
        f.extend_from_slice(format!("${}\r\n", a.len()).as_bytes());
        f.extend_from_slice(a);
        f.extend_from_slice(b"\r\n");
    }
    f
}

/// frames `Command::from_resp_zero_copy` rejects
fn perr_frame(i: u64) -> Vec<Vec<u8>> {
    match i % 6 {
        0 => vec![b("GET")],
        1 => vec![b("INCR"), b("k"), b("y")],
        2 => vec![b("SET"), b("k")],
        3 => vec![b("WATCH")],
        4 => vec![b("RPUSH"), b("l")],
        _ => vec![b("LRANGE"), b("l"), b("0")],
    }
}

#[derive(Clone, Debug)]
enum Inp {
    Multi,
    /// sched[i] = the other client's commands served right before EXEC's (i+1)-th store access
    Exec(Vec<Vec<Cmd>>),
    Discard,
    Unwatch,
    Watch(Vec<String>),
    Cmd(Cmd),
    Unk,
    Perr(u64),
    Chan,
    Local(u8),
    /// a byte `RespCodec::parse` rejects (an unknown RESP type byte), sent in a write of its own.
    /// ONE byte: the handler answers one protocol error per READ that starts with garbage (it drops
    /// its buffer and goes on), so longer garbage gives as many errors as reads it is split into —
    /// reply counting under segmentation is C04's subject, not this property's
    Proto,
}

impl Inp {
    /// the bytes on the wire
    fn wire(&self) -> Vec<u8> {
        match self {
            Inp::Proto => b"!".to_vec(),
            i => frame(&i.args()),
        }
    }
    fn args(&self) -> Vec<Vec<u8>> {
        match self {
            Inp::Proto => vec![b("!")],
            Inp::Multi => vec![b("MULTI")],
            Inp::Exec(_) => vec![b("EXEC")],
            Inp::Discard => vec![b("DISCARD")],
            Inp::Unwatch => vec![b("UNWATCH")],
            Inp::Watch(ks) => {
                let mut a = vec![b("WATCH")];
                a.extend(ks.iter().map(|k| kb(k)));
                a
            }
            Inp::Cmd(c) => c.args(),
            Inp::Unk => Cmd::Unk.args(),
            Inp::Perr(i) => perr_frame(*i),
            Inp::Chan => Cmd::Local(4).args(),
            Inp::Local(i) => Cmd::Local(*i).args(),
        }
    }
    fn line(&self) -> String {
        match self {
            Inp::Multi => "C MULTI".into(),
            Inp::Exec(sc) => {
                let mut s = format!("C EXEC {}", sc.len());
                for slot in sc {
                    s.push_str(&format!(" {}", slot.len()));
                    for c in slot {
                        s.push(' ');
                        s.push_str(&c.line());
                    }
                }
                s
            }
            Inp::Discard => "C DISCARD".into(),
            Inp::Unwatch => "C UNWATCH".into(),
            Inp::Watch(ks) => {
                let mut s = format!("C WATCH {}", ks.len());
                for k in ks {
                    s.push(' ');
                    s.push_str(&hex(k.as_bytes()));
                }
                s
            }
            Inp::Cmd(c) => format!("C CMD {}", c.line()),
            Inp::Unk => "C UNK".into(),
            Inp::Perr(_) => "C PERR".into(),
            Inp::Chan => "C CHAN".into(),
            Inp::Local(i) => format!("C LOCAL {}", i),
            Inp::Proto => "C PROTO".into(),
        }
    }
    fn text(&self) -> String {
        let mut t = self.args().iter().map(|a| String::from_utf8_lossy(a).to_string()).collect::<Vec<_>>().join(" ");
        if let Inp::Exec(sc) = self {
            for (i, slot) in sc.iter().enumerate() {
                for c in slot {
                    t.push_str(&format!(" [other client at await {}: {}]", i, c.text()));
                }
            }
        }
        t
    }
}

// ---------------------------------------------------------------- real connections

pub struct Conn {
    cli: DuplexStream,
    buf: Vec<u8>,
}

/// configuration of the OTHER clients' connections whose pipelines are placed between EXEC's store
/// accesses: the batch collectors off (`min_pipeline_buffer` out of reach).  Since fix de38a13 the
/// collectors are alive: a run of SET / GET frames at the head of a read would be taken as ONE batch
/// and served in one round, which is a different schedule from the one the model is told (one store
/// access per connection per round).  The per-command fast path stays on — it IS one access.
pub fn lockstep_cfg() -> ConnectionConfig {
    ConnectionConfig { min_pipeline_buffer: usize::MAX / 2, ..ConnectionConfig::default() }
}

impl Conn {
    pub fn open(state: &ShardedActorState) -> Conn {
        Conn::open_cfg(state, ConnectionConfig::default())
    }
    pub fn open_cfg(state: &ShardedActorState, cfg: ConnectionConfig) -> Conn {
        let (cli, srv) = tokio::io::duplex(1 << 16);
        tokio::spawn(run_connection(srv, state.clone(), cfg));
        Conn { cli, buf: Vec::new() }
    }
    pub async fn write(&mut self, bytes: &[u8]) {
        self.cli.write_all(bytes).await.expect("write");
    }
    pub async fn recv(&mut self) -> Rv {
        loop {
            if !self.buf.is_empty() {
                if let Some((v, used)) = parse_reply(&self.buf) {
                    self.buf.drain(..used);
                    return v;
                }
            }
            let mut tmp = [0u8; 4096];
            // a reply that never comes is a named outcome, not a hung check
            let n = match tokio::time::timeout(std::time::Duration::from_secs(20), self.cli.read(&mut tmp)).await {
                Ok(r) => r.unwrap_or(0),
                Err(_) => return Rv::Err("?timeout: no reply within 20 s".into()),
            };
            if n == 0 {
                return Rv::Err("?connection closed".into());
            }
            self.buf.extend_from_slice(&tmp[..n]);
        }
    }
    pub async fn call(&mut self, args: &[Vec<u8>]) -> Rv {
        self.write(&frame(args)).await;
        self.recv().await
    }
}

/// typed value of a key, read from the store directly (the oracle's notion of "value")
#[derive(Clone, Debug, PartialEq, Eq)]
enum Typed {
    Missing,
    Str(Vec<u8>),
    List(Vec<Vec<u8>>),
    /// fields sorted by (length, bytes)
    Hash(Vec<(Vec<u8>, Vec<u8>)>),
    /// members sorted by (length, bytes)
    Set(Vec<Vec<u8>>),
    /// (member, score) sorted by member — the SCORE is part of the value
    Zset(Vec<(Vec<u8>, i64)>),
    Other(String),
}

fn bkey(a: &[u8], b: &[u8]) -> std::cmp::Ordering {
    (a.len(), a).cmp(&(b.len(), b))
}

fn bulks(r: Rv) -> Option<Vec<Vec<u8>>> {
    match r {
        Rv::Arr(Some(v)) => v.into_iter().map(|x| if let Rv::Bulk(Some(b)) = x { Some(b) } else { None }).collect(),
        _ => None,
    }
}

fn cmd_of(parts: &[&str]) -> Command {
    to_command(&parts.iter().map(|p| b(p)).collect::<Vec<_>>())
}

/// typed value of a key, read from the store directly (the oracle's notion of "value")
async fn typed(st: &ShardedActorState, k: &str) -> Typed {
    match Rv::from_resp(&st.execute(&cmd_of(&["GET", k])).await) {
        Rv::Bulk(None) => Typed::Missing,
        Rv::Bulk(Some(v)) => Typed::Str(v),
        Rv::Err(_) => {
            let ty = Rv::from_resp(&st.execute(&cmd_of(&["TYPE", k])).await);
            let bad = |o: &dyn std::fmt::Debug| Typed::Other(format!("{:?}", o));
            match ty {
                Rv::Simple(ref t) if t == "list" => match bulks(Rv::from_resp(&st.execute(&cmd_of(&["LRANGE", k, "0", "-1"])).await)) {
                    Some(v) => Typed::List(v),
                    None => bad(&"lrange"),
                },
                Rv::Simple(ref t) if t == "hash" => match bulks(Rv::from_resp(&st.execute(&cmd_of(&["HGETALL", k])).await)) {
                    Some(v) if v.len() % 2 == 0 => {
                        let mut h: Vec<(Vec<u8>, Vec<u8>)> = v.chunks(2).map(|c| (c[0].clone(), c[1].clone())).collect();
                        h.sort_by(|a, b| bkey(&a.0, &b.0));
                        Typed::Hash(h)
                    }
                    _ => bad(&"hgetall"),
                },
                Rv::Simple(ref t) if t == "set" => match bulks(Rv::from_resp(&st.execute(&cmd_of(&["SMEMBERS", k])).await)) {
                    Some(mut v) => {
                        v.sort_by(|a, b| bkey(a, b));
                        Typed::Set(v)
                    }
                    None => bad(&"smembers"),
                },
                Rv::Simple(ref t) if t == "zset" => match bulks(Rv::from_resp(&st.execute(&cmd_of(&["ZRANGE", k, "0", "-1", "WITHSCORES"])).await)) {
                    Some(v) if v.len() % 2 == 0 => {
                        let mut z = Vec::new();
                        for c in v.chunks(2) {
                            match String::from_utf8_lossy(&c[1]).parse::<i64>() {
                                Ok(sc) => z.push((c[0].clone(), sc)),
                                Err(_) => return bad(&c[1]),
                            }
                        }
                        z.sort_by(|a, b| bkey(&a.0, &b.0));
                        Typed::Zset(z)
                    }
                    _ => bad(&"zrange"),
                },
                o => bad(&o),
            }
        }
        o => Typed::Other(format!("{:?}", o)),
    }
}

/// the snapshot function of the model of the CURRENT code (`KV.backend.getReply`): what the
/// connection remembers of a key at WATCH time is the reply of GET — `$-` for a missing key, the
/// bytes of a string, and the constant WRONGTYPE error for every non-string value
fn model_snapshot(t: &Typed) -> String {
    match t {
        Typed::Missing => "$-".into(),
        Typed::Str(v) => format!("${}", hex(v)),
        // every non-string value: the constant WRONGTYPE error
        Typed::List(_) | Typed::Hash(_) | Typed::Set(_) | Typed::Zset(_) | Typed::Other(_) => "-wrongtype".into(),
    }
}

fn kind(t: &Typed) -> &'static str {
    match t {
        Typed::Missing => "missing",
        Typed::Str(_) => "string",
        Typed::List(_) => "list",
        Typed::Hash(_) => "hash",
        Typed::Set(_) => "set",
        Typed::Zset(_) => "zset",
        Typed::Other(_) => "other",
    }
}

fn non_string(t: &Typed) -> bool {
    matches!(t, Typed::List(_) | Typed::Hash(_) | Typed::Set(_) | Typed::Zset(_))
}

/// commands that recreate a value
fn rebuild_frames(k: &str, t: &Typed) -> Vec<Vec<Vec<u8>>> {
    match t {
        Typed::Str(v) => vec![vec![b("SET"), b(k), v.clone()]],
        Typed::List(l) => {
            let mut a = vec![b("RPUSH"), b(k)];
            a.extend(l.iter().cloned());
            vec![a]
        }
        Typed::Hash(h) => h.iter().map(|(f, v)| vec![b("HSET"), b(k), f.clone(), v.clone()]).collect(),
        Typed::Set(m) => m.iter().map(|x| vec![b("SADD"), b(k), x.clone()]).collect(),
        Typed::Zset(z) => z.iter().map(|(m, sc)| vec![b("ZADD"), b(k), b(&sc.to_string()), m.clone()]).collect(),
        _ => vec![],
    }
}

fn lookup(view: &[(String, Typed)], k: &str) -> Typed {
    view.iter().find(|(x, _)| x == k).map(|(_, t)| t.clone()).unwrap_or(Typed::Missing)
}

fn show_dump(d: &[(String, Typed)]) -> String {
    let live: Vec<&(String, Typed)> = d.iter().filter(|(_, t)| *t != Typed::Missing).collect();
    let mut s = live.len().to_string();
    for (k, t) in live {
        match t {
            Typed::Str(v) => s.push_str(&format!(" {} S {}", hex(k.as_bytes()), hex(v))),
            Typed::List(l) => {
                s.push_str(&format!(" {} L {}", hex(k.as_bytes()), l.len()));
                for v in l {
                    s.push(' ');
                    s.push_str(&hex(v));
                }
            }
            Typed::Hash(h) => {
                s.push_str(&format!(" {} H {}", hex(k.as_bytes()), h.len()));
                for (f, v) in h {
                    s.push_str(&format!(" {} {}", hex(f), hex(v)));
                }
            }
            Typed::Set(m) => {
                s.push_str(&format!(" {} T {}", hex(k.as_bytes()), m.len()));
                for v in m {
                    s.push(' ');
                    s.push_str(&hex(v));
                }
            }
            Typed::Zset(z) => {
                s.push_str(&format!(" {} Z {}", hex(k.as_bytes()), z.len()));
                for (m, sc) in z {
                    s.push_str(&format!(" {} {}", hex(m), sc));
                }
            }
            Typed::Other(o) => s.push_str(&format!(" {} ? {}", hex(k.as_bytes()), hex(o.as_bytes()))),
            Typed::Missing => {}
        }
    }
    s
}

async fn dump(st: &ShardedActorState) -> Vec<(String, Typed)> {
    let keys: Vec<String> = KEYS.iter().map(|k| k.to_string()).collect();
    dump_keys(st, &keys).await
}

async fn dump_keys(st: &ShardedActorState, keys: &[String]) -> Vec<(String, Typed)> {
    let mut keys: Vec<&str> = keys.iter().map(|k| k.as_str()).collect();
    keys.push(FILLER_KEY);
    keys.sort_by(|a, b| key_cmp(a, b));
    keys.dedup();
    let mut v = Vec::new();
    for k in keys {
        v.push((k.to_string(), typed(st, k).await));
    }
    v
}

/// which keys carry a deadline (TTL >= 0): compared between the server under test and the twin
/// after an EXEC (the model's store has no deadlines)
async fn ttl_flags(st: &ShardedActorState, keys: &[String]) -> Vec<(String, bool)> {
    let mut v = Vec::new();
    for k in keys {
        let has = matches!(Rv::from_resp(&st.execute(&cmd_of(&["TTL", k])).await), Rv::Int(n) if n >= 0);
        v.push((k.clone(), has));
    }
    v
}

// ---------------------------------------------------------------- part A: one session

struct World {
    shards: usize,
    st: ShardedActorState,
    c1: Conn,
    c2: Conn,
    /// a second foreign connection, opened when a schedule puts two commands into one await slot
    c3: Option<Conn>,
    twin: ShardedActorState,
    tw: Conn,
    /// frames applied to the twin since its creation (to clone it)
    log: Vec<Vec<Vec<u8>>>,
    in_multi: bool,
    /// inputs sent since MULTI with their replies
    body: Vec<(Inp, Rv)>,
    /// the oracle's own snapshots: typed value at WATCH time
    watched: Vec<(String, Typed)>,
    text: Vec<String>,
    nontrivial: bool,
    /// canonical reply of the last EXEC inside MULTI
    last_exec: Option<String>,
    /// did the oracle see a value change of a watched key at that EXEC?
    last_changed: bool,
    /// canonical reply of the last input of the modelled client
    last_reply: String,
    /// canonical replies of all inputs of the modelled client, in order
    replies: Vec<String>,
    /// configuration of the modelled client's connection
    cfg: ConnectionConfig,
    cfg_text: String,
    /// keys of the dumps
    keys: Vec<String>,
}

fn cfg_text(c: &ConnectionConfig) -> String {
    let d = ConnectionConfig::default();
    if c.max_buffer_size == d.max_buffer_size && c.read_buffer_size == d.read_buffer_size && c.min_pipeline_buffer == d.min_pipeline_buffer && c.batch_threshold == d.batch_threshold {
        "default".into()
    } else {
        format!("max_buffer_size={} read_buffer_size={} min_pipeline_buffer={} batch_threshold={}", c.max_buffer_size, c.read_buffer_size, c.min_pipeline_buffer, c.batch_threshold)
    }
}

impl World {
    fn new(shards: usize) -> World {
        World::new_cfg(shards, ConnectionConfig::default())
    }

    fn new_cfg(shards: usize, cfg: ConnectionConfig) -> World {
        let st = ShardedActorState::with_shards(shards);
        let twin = ShardedActorState::with_shards(1);
        World {
            shards,
            c1: Conn::open_cfg(&st, cfg.clone()),
            c2: Conn::open_cfg(&st, lockstep_cfg()),
            c3: None,
            tw: Conn::open(&twin),
            st,
            twin,
            log: Vec::new(),
            in_multi: false,
            body: Vec::new(),
            watched: Vec::new(),
            text: Vec::new(),
            nontrivial: false,
            last_exec: None,
            last_changed: false,
            last_reply: String::new(),
            replies: Vec::new(),
            cfg_text: cfg_text(&cfg),
            cfg,
            keys: KEYS.iter().map(|k| k.to_string()).collect(),
        }
    }

    fn replay_json(&self) -> serde_json::Value {
        json!({"shards": self.shards, "connection_config": self.cfg_text, "session": self.text})
    }

    /// the modelled client's connection is dropped (queued commands and watches go with it) and a
    /// new one is opened on the same server
    async fn reconnect(&mut self, out: &mut Out, how: &str) {
        out.count(&format!("fault:connection-closed:{}", if self.in_multi { "in-multi" } else { "outside" }));
        let before = self.dump_now().await;
        self.c1 = Conn::open_cfg(&self.st, self.cfg.clone());
        // let the old handler task see EOF
        tokio::task::yield_now().await;
        tokio::task::yield_now().await;
        self.text.push(format!("(connection closed{}; new connection)", how));
        out.op("RECONNECT".into(), "ok".into());
        let after = self.dump_now().await;
        if after != before {
            out.violation("C05:close:store-changed", &format!("closing the connection {} changed the store: {} -> {}", if self.in_multi { "between MULTI and EXEC" } else { "outside MULTI" }, show_dump(&before), show_dump(&after)), self.replay_json());
        }
        self.in_multi = false;
        self.body.clear();
        self.watched.clear();
        out.op("DUMP".into(), show_dump(&after));
    }

    async fn dump_now(&self) -> Vec<(String, Typed)> {
        dump_keys(&self.st, &self.keys).await
    }

    async fn twin_apply(&mut self, args: Vec<Vec<u8>>) -> Rv {
        let r = self.tw.call(&args).await;
        self.log.push(args);
        r
    }

    /// a command of the other client, between two inputs of the modelled client
    async fn foreign(&mut self, out: &mut Out, c: Cmd) {
        let pos = if self.in_multi {
            "between-multi-and-exec"
        } else if !self.watched.is_empty() {
            "between-watch-and-multi"
        } else {
            "before-watch"
        };
        out.count(&format!("foreign:{}", pos));
        let c = match c {
            Cmd::Persist(k, _) => {
                // deadlines are not modelled: observe whether the key carries one
                let had = matches!(Rv::from_resp(&self.st.execute(&cmd_of(&["TTL", &k])).await), Rv::Int(n) if n >= 0);
                Cmd::Persist(k, had)
            }
            c => c,
        };
        let r = self.c2.call(&c.args()).await;
        self.text.push(format!("other client: {}", c.text()));
        out.op(format!("F {}", c.line()), show(&r, false));
        self.twin_apply(c.args()).await;
    }

    /// the other client gives `k` a deadline of 1 ms and the deadline passes: the shard evicts the
    /// key before its next command (`set_time`).  Model: EXPIRE (reply only), then EVICT.
    async fn expire_now(&mut self, out: &mut Out, k: &str) {
        out.count("foreign:expiry-passes");
        let r = self.c2.call(&[b("PEXPIRE"), b(k), b("1")]).await;
        self.text.push(format!("other client: PEXPIRE {} 1; (5 ms pass)", k));
        out.op(format!("F EXPIRE {}", hex(k.as_bytes())), show(&r, false));
        tokio::time::sleep(std::time::Duration::from_millis(5)).await;
        let gone = typed(&self.st, k).await == Typed::Missing;
        out.op(format!("F EVICT {}", hex(k.as_bytes())), if gone { "+OK".into() } else { "not-evicted".into() });
        self.twin_apply(vec![b("DEL"), b(k)]).await;
    }

    async fn dump_op(&mut self, out: &mut Out) {
        let d = dump_keys(&self.st, &self.keys).await;
        out.op("DUMP".into(), show_dump(&d));
    }

    /// observations of the store taken before an input is sent (`view` = a dump taken earlier,
    /// valid as long as nothing has changed the store since: pipelined blocks)
    async fn pre(&self, inp: &Inp, view: Option<&Vec<(String, Typed)>>) -> (Option<Vec<(String, Typed)>>, Vec<(String, Typed, Typed, bool)>) {
        let before = if self.in_multi && matches!(inp, Inp::Exec(_) | Inp::Discard) {
            Some(match view {
                Some(v) => v.clone(),
                None => dump_keys(&self.st, &self.keys).await,
            })
        } else {
            None
        };
        // `changed`: watched keys whose value differs from SOME snapshot (EXEC may answer nil);
        // entries whose FIRST snapshot differs come first and carry `true` (EXEC must answer nil).
        // A repeated WATCH of a watched key is a no-op in Redis (executor level, since the fix) and
        // an additional snapshot at the connection level: both are admitted.
        let mut changed: Vec<(String, Typed, Typed, bool)> = Vec::new();
        if self.in_multi && matches!(inp, Inp::Exec(_)) {
            let mut seen: Vec<&String> = Vec::new();
            for (k, t0) in &self.watched {
                let first = !seen.contains(&k);
                seen.push(k);
                let now = match view {
                    Some(v) => lookup(v, k),
                    None => typed(&self.st, k).await,
                };
                if now != *t0 {
                    changed.push((k.clone(), t0.clone(), now, first));
                }
            }
            changed.sort_by_key(|c| !c.3);
        }
        (before, changed)
    }

    /// one input of the modelled client (not a concurrent EXEC)
    async fn input(&mut self, out: &mut Out, inp: Inp) {
        let pre = self.pre(&inp, None).await;
        self.c1.write(&inp.wire()).await;
        let r = self.c1.recv().await;
        self.post(out, inp, r, pre, None).await;
    }

    /// `[WATCH] MULTI body EXEC|DISCARD` written to the socket in ONE write (how clients usually
    /// send a transaction); replies read afterwards.  Nothing in the block but its final EXEC
    /// changes the store, so the observations taken before the write are valid for every element.
    async fn pipelined(&mut self, out: &mut Out, inps: Vec<Inp>) {
        out.count("pipelined-block");
        let view = dump_keys(&self.st, &self.keys).await;
        let mut buf = Vec::new();
        for i in &inps {
            buf.extend(i.wire());
        }
        self.c1.write(&buf).await;
        let mut rs = Vec::new();
        for _ in &inps {
            rs.push(self.c1.recv().await);
        }
        self.text.push("(next block sent in one write)".into());
        for (i, r) in inps.into_iter().zip(rs) {
            let pre = self.pre(&i, Some(&view)).await;
            self.post(out, i, r, pre, Some(&view)).await;
        }
    }

    /// a long run of inputs that do not touch the store until a final EXEC / DISCARD (a queue being
    /// filled): `per_write` frames per write, replies read after each write
    async fn chunked(&mut self, out: &mut Out, inps: Vec<Inp>, per_write: usize) {
        out.count("chunked-block");
        out.count_n("chunked-block:inputs", inps.len() as u64);
        let view = self.dump_now().await;
        self.text.push(format!("(next {} inputs sent {} per write)", inps.len(), per_write));
        let mut it = inps.into_iter().peekable();
        while it.peek().is_some() {
            let chunk: Vec<Inp> = it.by_ref().take(per_write.max(1)).collect();
            let mut buf = Vec::new();
            for i in &chunk {
                buf.extend(i.wire());
            }
            self.c1.write(&buf).await;
            let mut rs = Vec::new();
            for _ in &chunk {
                rs.push(self.c1.recv().await);
            }
            for (i, r) in chunk.into_iter().zip(rs) {
                let pre = self.pre(&i, Some(&view)).await;
                self.post(out, i, r, pre, Some(&view)).await;
            }
        }
    }

    async fn post(&mut self, out: &mut Out, inp: Inp, r: Rv, pre: (Option<Vec<(String, Typed)>>, Vec<(String, Typed, Typed, bool)>), view: Option<&Vec<(String, Typed)>>) {
        let perr = matches!(inp, Inp::Perr(_));
        let (before, changed) = pre;
        self.text.push(inp.text());
        out.op(inp.line(), show(&r, perr));
        self.last_reply = show(&r, perr);
        self.replies.push(self.last_reply.clone());
        out.count(&format!(
            "input:{}:{}",
            if self.in_multi { "in-multi" } else { "outside" },
            inp.line().split(' ').nth(1).unwrap_or("?")
        ));
        if !self.in_multi {
            match &inp {
                Inp::Multi => {
                    if r == Rv::Simple("OK".into()) {
                        self.in_multi = true;
                        self.body.clear();
                    }
                }
                Inp::Watch(ks) => {
                    for k in ks {
                        let t = match view {
                            Some(v) => lookup(v, k),
                            None => typed(&self.st, k).await,
                        };
                        out.count(&format!("watch:type:{}", kind(&t)));
                        self.watched.push((k.clone(), t));
                    }
                }
                Inp::Unwatch => self.watched.clear(),
                Inp::Exec(_) | Inp::Discard | Inp::Proto => {}
                // everything else is executed (or answered) right away: mirror on the twin
                _ => {
                    let tr = self.twin_apply(inp.args()).await;
                    if show(&tr, perr) != show(&r, perr) {
                        out.violation(
                            "C05:twin:plain-command-differs",
                            &format!("outside MULTI, `{}` answered {} on the server under test and {} on the 1-shard twin", inp.text(), show(&r, perr), show(&tr, perr)),
                            self.replay_json(),
                        );
                    }
                }
            }
            return;
        }
        // inside MULTI
        match &inp {
            Inp::Exec(_) => {
                self.in_multi = false;
                self.last_exec = Some(show(&r, false));
                self.last_changed = changed.iter().any(|c| c.3);
                let body = std::mem::take(&mut self.body);
                let watched = std::mem::take(&mut self.watched);
                let queued: Vec<&Inp> = body.iter().filter(|(_, r)| *r == Rv::Simple("QUEUED".into())).map(|(i, _)| i).collect();
                let cls = |r: &Rv| err_class(match r { Rv::Err(t) => t, _ => "" }, false);
                let refused = body.iter().any(|(_, r)| r.is_err() && !matches!(cls(r).as_str(), "-nested-multi" | "-watch-in-multi"));
                // the only refused inputs were protocol errors (which the current handler does not flag)
                let refused_proto_only = refused && body.iter().all(|(_, r)| !r.is_err() || matches!(cls(r).as_str(), "-nested-multi" | "-watch-in-multi" | "-protocol"));
                let missing_sig = if refused_proto_only && !CODE_PROTO_ERROR_FLAGS { "C05:execabort:missing:protocol-error-not-flagged" } else { "C05:execabort:missing" };
                let any_err = body.iter().any(|(_, r)| r.is_err());
                let after = dump_keys(&self.st, &self.keys).await;
                let before = before.unwrap();
                self.nontrivial |= !queued.is_empty() || !watched.is_empty();
                match &r {
                    Rv::Err(t) if err_class(t, false) == "-execabort" => {
                        out.count("exec:execabort");
                        if !any_err {
                            out.violation("C05:execabort:spurious", "EXECABORT although every input between MULTI and EXEC was answered QUEUED", self.replay_json());
                        }
                        if after != before {
                            out.violation("C05:execabort:store-changed", &format!("EXECABORT changed the store: {} -> {}", show_dump(&before), show_dump(&after)), self.replay_json());
                        }
                    }
                    Rv::Arr(None) => {
                        out.count("exec:nil");
                        if refused {
                            out.violation(missing_sig, "an input was refused at queue time but EXEC did not answer EXECABORT", self.replay_json());
                        }
                        if changed.is_empty() {
                            out.violation("C05:watch:spurious-abort", "EXEC answered nil although no watched key changed its value since WATCH", self.replay_json());
                        }
                        if after != before {
                            out.violation("C05:watchfail:store-changed", &format!("EXEC aborted by WATCH changed the store: {} -> {}", show_dump(&before), show_dump(&after)), self.replay_json());
                        }
                    }
                    Rv::Arr(Some(results)) => {
                        out.count("exec:results");
                        out.count(&format!("exec:queue-len:{}", queued.len().min(6)));
                        if refused {
                            out.violation(missing_sig, "an input was refused at queue time (answered with an error) but EXEC executed the queue instead of answering EXECABORT", self.replay_json());
                        }
                        if let Some((k, t0, now, _)) = changed.iter().find(|c| c.3) {
                            // KNOWN cause, exactly: the key held a NON-STRING value (list, hash, set,
                            // zset) at WATCH time and holds a different non-string value now (the
                            // GET-reply snapshot is the constant WRONGTYPE error), and the model of the current code predicts
                            // "EXEC proceeds" (every GET-reply snapshot still matches).  Anything
                            // else that is missed is a different defect.
                            let model_aborts = changed.iter().any(|c| model_snapshot(&c.1) != model_snapshot(&c.2));
                            let all_list_to_list = changed.iter().all(|c| non_string(&c.1) && non_string(&c.2));
                            let sig = if all_list_to_list && !model_aborts {
                                "C05:watch:non-string-key-change-undetected".to_string()
                            } else {
                                format!("C05:watch:change-undetected:{}-to-{}{}", kind(t0), kind(now), if model_aborts { ":current-code-model-predicts-abort" } else { "" })
                            };
                            out.violation(
                                &sig,
                                &format!("EXEC succeeded ({}) although watched key '{}' changed from {:?} (at WATCH) to {:?} (at EXEC)", show(&r, false), k, t0, now),
                                self.replay_json(),
                            );
                        }
                        if results.len() != queued.len() {
                            out.violation("C05:exec:result-count", &format!("EXEC returned {} results for {} queued commands", results.len(), queued.len()), self.replay_json());
                        }
                        // the twin runs the queued inputs outside MULTI, consecutively
                        let mut tres = Vec::new();
                        for q in &queued {
                            tres.push(self.twin_apply(q.args()).await);
                        }
                        for (i, q) in queued.iter().enumerate() {
                            let a = results.get(i).map(|x| show(x, false)).unwrap_or("<none>".into());
                            let e = show(&tres[i], false);
                            if a != e {
                                let sig = if matches!(q, Inp::Local(_)) { "C05:exec:connection-level-command-differs" } else { "C05:exec:result-differs-from-sequential" };
                                out.violation(sig, &format!("queued `{}`: EXEC result {} but {} when sent outside MULTI (twin server)", q.text(), a, e), self.replay_json());
                            }
                        }
                        let td = dump_keys(&self.twin, &self.keys).await;
                        let (tf, sf) = (ttl_flags(&self.twin, &self.keys).await, ttl_flags(&self.st, &self.keys).await);
                        if tf != sf {
                            out.violation("C05:exec:ttl-differs-from-sequential", &format!("which keys carry a deadline after EXEC {:?} differs from the consecutive run on the twin {:?}", sf, tf), self.replay_json());
                        }
                        if td != after {
                            out.violation("C05:exec:store-differs-from-sequential", &format!("store after EXEC {} but {} after the consecutive run on the twin", show_dump(&after), show_dump(&td)), self.replay_json());
                        }
                    }
                    other => {
                        out.violation("C05:exec:unexpected-reply", &format!("EXEC inside MULTI answered {}", show(other, false)), self.replay_json());
                    }
                }
                out.op("DUMP".into(), show_dump(&after));
            }
            Inp::Discard => {
                self.in_multi = false;
                self.body.clear();
                self.watched.clear();
                out.count("discard");
                let after = dump_keys(&self.st, &self.keys).await;
                if Some(&after) != before.as_ref() {
                    out.violation("C05:discard:store-changed", "DISCARD changed the store", self.replay_json());
                }
                if r != Rv::Simple("OK".into()) {
                    out.violation("C05:discard:unexpected-reply", &format!("DISCARD inside MULTI answered {}", show(&r, false)), self.replay_json());
                }
                out.op("DUMP".into(), show_dump(&after));
            }
            _ => {
                // "no effect and no result until EXEC"
                let ok = r == Rv::Simple("QUEUED".into()) || r.is_err();
                if !ok {
                    out.violation("C05:queued:has-result", &format!("`{}` between MULTI and EXEC was answered {}", inp.text(), show(&r, perr)), self.replay_json());
                }
                self.body.push((inp, r));
            }
        }
    }

    /// EXEC with the other client's pipeline written at the same time
    async fn concurrent_exec(&mut self, out: &mut Out, sched: Vec<Vec<Cmd>>) {
        debug_assert!(self.in_multi);
        // the known WATCH defect is classified by the sequential path: if a watched key already
        // differs, run this EXEC without concurrency
        for (k, t0) in &self.watched.clone() {
            if typed(&self.st, k).await != *t0 {
                self.input(out, Inp::Exec(vec![])).await;
                return;
            }
        }
        // … and so is the unflagged protocol error: a body that contains one runs its EXEC alone
        if self.body.iter().any(|(_, r)| matches!(r, Rv::Err(t) if err_class(t, false) == "-protocol")) {
            self.input(out, Inp::Exec(vec![])).await;
            return;
        }
        out.count("exec:concurrent");
        let foreign: Vec<Cmd> = sched.iter().flatten().cloned().collect();
        // EXEC's store accesses: one GET per watched snapshot, then the queued commands; PING is
        // answered by `ShardedActorState::execute` without a message to a shard (no yield), and
        // connection-level commands (AUTH, ACL WHOAMI, RESET) are answered by the connection itself
        // (since the fix), so neither is a point where the other connection gets a turn.
        // CLIENT SETNAME parses to `Command::ClientSetName`, which the shard-0 executor answers
        // (+OK, same as the model's local reply): it IS a store access.
        let mut real: Vec<bool> = self.watched.iter().map(|_| true).collect();
        for (i, r) in &self.body {
            if *r == Rv::Simple("QUEUED".into()) {
                real.push(!matches!(i, Inp::Cmd(Cmd::Ping) | Inp::Local(0..=2)));
            }
        }
        // two commands in one slot: the second travels on a third connection, which is in lock step
        // as well (one store access per connection per round, in the order the tasks were woken:
        // the modelled client, the second connection, the third)
        let two = sched.iter().any(|s| s.len() > 1);
        if two && self.c3.is_none() {
            self.c3 = Some(Conn::open_cfg(&self.st, lockstep_cfg()));
            tokio::task::yield_now().await;
            tokio::task::yield_now().await;
        }
        let mut pipeline = Vec::new();
        let mut pipeline3 = Vec::new();
        let mut n_pipe = 0;
        for (i, slot) in sched.iter().enumerate() {
            if i == 0 {
                assert!(slot.is_empty()); // before the first access = an `F` op before EXEC
                continue;
            }
            // slot i = right after access i
            if i <= real.len() && !real[i - 1] {
                assert!(slot.is_empty());
                continue;
            }
            assert!(slot.len() <= 2);
            match slot.first() {
                Some(c) => pipeline.extend(frame(&c.args())),
                None => pipeline.extend(frame(&[b("LLEN"), b(FILLER_KEY)])),
            }
            match slot.get(1) {
                Some(c) => pipeline3.extend(frame(&c.args())),
                None => pipeline3.extend(frame(&[b("LLEN"), b(FILLER_KEY)])),
            }
            n_pipe += 1;
        }
        let inp = Inp::Exec(sched.clone());
        self.c1.write(&frame(&inp.args())).await;
        self.c2.write(&pipeline).await;
        if two {
            self.c3.as_mut().expect("third connection").write(&pipeline3).await;
        }
        let r = self.c1.recv().await;
        for _ in 0..n_pipe {
            self.c2.recv().await;
        }
        if two {
            for _ in 0..n_pipe {
                self.c3.as_mut().expect("third connection").recv().await;
            }
        }
        self.in_multi = false;
        let body = std::mem::take(&mut self.body);
        let watched = std::mem::take(&mut self.watched);
        self.text.push(inp.text());
        out.op(inp.line(), show(&r, false));
        self.last_exec = Some(show(&r, false));
        self.last_reply = show(&r, false);
        self.replies.push(self.last_reply.clone());
        let after = dump_keys(&self.st, &self.keys).await;
        out.op("DUMP".into(), show_dump(&after));
        self.nontrivial = true;
        // serial outcomes: an atomic EXEC after foreign[..j], before foreign[j..]
        let queued: Vec<Inp> = body.iter().filter(|(_, r)| *r == Rv::Simple("QUEUED".into())).map(|(i, _)| i.clone()).collect();
        let refused = body.iter().any(|(_, r)| r.is_err() && !matches!(err_class(match r { Rv::Err(t) => t, _ => "" }, false).as_str(), "-nested-multi" | "-watch-in-multi"));
        let observed = (show(&r, false), show_dump(&after));
        let mut allowed = Vec::new();
        for j in 0..=foreign.len() {
            let t = ShardedActorState::with_shards(1);
            let mut tc = Conn::open(&t);
            for f in &self.log {
                tc.call(f).await;
            }
            for c in &foreign[..j] {
                tc.call(&c.args()).await;
            }
            let reply = if refused {
                "-execabort".to_string()
            } else {
                let mut ch = false;
                for (k, t0) in &watched {
                    if typed(&t, k).await != *t0 {
                        ch = true;
                    }
                }
                if ch {
                    "*-".to_string()
                } else {
                    let mut s = format!("*{}", queued.len());
                    for q in &queued {
                        s.push(' ');
                        s.push_str(&show(&tc.call(&q.args()).await, false));
                    }
                    s
                }
            };
            for c in &foreign[j..] {
                tc.call(&c.args()).await;
            }
            allowed.push((reply, show_dump(&dump(&t).await)));
        }
        // what the model of the CURRENT code predicts for exactly this schedule (`Txn.checkWatch`
        // / `Txn.runQueue` transcribed over a twin executor): slot i is served right before
        // EXEC's (i+1)-th store access, the watch comparison uses the GET-reply snapshot, stops
        // at the first mismatch, the queue runs one command at a time
        let predicted;
        let mut compared: Vec<&String> = Vec::new(); // watched keys in comparison order (performed)
        let mut invisible: Vec<String> = Vec::new(); // typed change the snapshot cannot see
        let mut watch_failed = false;
        {
            let t = ShardedActorState::with_shards(1);
            let mut tc = Conn::open(&t);
            for f in &self.log {
                tc.call(f).await;
            }
            let mut idx = 0usize;
            let reply = if refused {
                "-execabort".to_string()
            } else {
                for (k, t0) in &watched {
                    for c in sched.get(idx).map(|v| v.as_slice()).unwrap_or(&[]) {
                        tc.call(&c.args()).await;
                    }
                    idx += 1;
                    compared.push(k);
                    let now = typed(&t, k).await;
                    if model_snapshot(&now) != model_snapshot(t0) {
                        watch_failed = true;
                        break;
                    }
                    if now != *t0 {
                        invisible.push(k.clone());
                    }
                }
                if watch_failed {
                    "*-".to_string()
                } else {
                    let mut s = format!("*{}", queued.len());
                    for q in &queued {
                        for c in sched.get(idx).map(|v| v.as_slice()).unwrap_or(&[]) {
                            tc.call(&c.args()).await;
                        }
                        idx += 1;
                        s.push(' ');
                        s.push_str(&show(&tc.call(&q.args()).await, false));
                    }
                    s
                }
            };
            for slot in sched.iter().skip(idx) {
                for c in slot {
                    tc.call(&c.args()).await;
                }
            }
            predicted = (reply, show_dump(&dump(&t).await));
        }
        let n_watch = compared.len();
        let n_access = if refused { 0 } else if watch_failed { n_watch } else { n_watch + queued.len() };
        if observed != predicted {
            // NOT one of the listed causes, whatever it looks like
            out.violation(
                "C05:exec:concurrent-outcome-differs-from-current-code-model",
                &format!("EXEC with the other client's commands served between its store accesses: reply {} store {}, but the connection state machine as modelled (watch comparison on GET replies first, then the queue one command at a time, foreign commands at the given slots) gives reply {} store {}", observed.0, observed.1, predicted.0, predicted.1),
                self.replay_json(),
            );
        } else if !allowed.contains(&observed) {
            // non-serializable AND exactly what the current code is known to do: name the cause
            let qkeys: Vec<&str> = queued.iter().flat_map(|q| if let Inp::Cmd(c) = q { c.keys() } else { Vec::new() }).collect();
            let mut cause_watched = false;
            let mut cause_queue = false;
            for (i, slot) in sched.iter().enumerate() {
                for f in slot {
                    for k in f.written_keys() {
                        // served after the comparison of watched key k and before the last queued command
                        if let Some(c) = compared.iter().position(|w| w.as_str() == k) {
                            if !watch_failed && i >= c + 1 && i < n_access {
                                cause_watched = true;
                            }
                        }
                        // served between two queued commands, on a key the queue touches
                        if !watch_failed && i >= n_watch + 1 && i + 1 <= n_access && qkeys.contains(&k) {
                            cause_queue = true;
                        }
                    }
                }
            }
            let sig = if cause_watched {
                "C05:exec:not-isolated:watched-key-changed-during-exec"
            } else if cause_queue {
                "C05:exec:not-isolated"
            } else if !invisible.is_empty() {
                // a foreign write to a watched LIST key served before its comparison: same cause
                // as the sequential finding (the snapshot is the constant WRONGTYPE error)
                "C05:watch:non-string-key-change-undetected"
            } else {
                "C05:exec:not-serializable:no-modelled-cause"
            };
            out.violation(
                sig,
                &format!("EXEC with the other client's commands served between its store accesses: reply {} store {} — no atomic EXEC at any point of the other client's sequence gives that (serial outcomes: {:?}); the model of the current code predicts exactly this outcome", observed.0, observed.1, allowed),
                self.replay_json(),
            );
        } else {
            out.count("exec:concurrent:serializable");
        }
        // re-synchronise the twin with whatever the server under test holds now
        self.twin = ShardedActorState::with_shards(1);
        self.tw = Conn::open(&self.twin);
        self.log.clear();
        for (k, t) in after {
            for a in rebuild_frames(&k, &t) {
                self.twin_apply(a).await;
            }
        }
        for (k, has) in ttl_flags(&self.st, &self.keys).await {
            if has {
                self.twin_apply(vec![b("EXPIRE"), kb(&k), b("100000")]).await;
            }
        }
    }
}

const VALS: [&str; 9] = ["0", "5", "41", "-3", "abc", "", "007", "9223372036854775807", "F"];
const ELEMS: [&str; 3] = ["a", "b", "1"];

fn val(rng: &mut Rng) -> Vec<u8> {
    b(*rng.pick(&VALS))
}

fn key(rng: &mut Rng) -> String {
    rng.pick(&KEYS).to_string()
}

const FIELDS: [&str; 3] = ["f", "g", "ab"];
const MEMBERS: [&str; 3] = ["alice", "bob", "c"];
const SCORES: [i64; 5] = [10, 15, 20, 25, -5];

pub(crate) fn gen_cmd(rng: &mut Rng, writes_only: bool) -> Cmd {
    let k = key(rng);
    // fan-out commands (one message per shard involved) and a TTL-only write
    if rng.chance(1, 9) {
        let n = rng.range(2, 3);
        return match rng.below(if writes_only { 3 } else { 4 }) {
            0 => Cmd::Mset((0..n).map(|_| (key(rng), val(rng))).collect()),
            1 => Cmd::Delm((0..n).map(|_| key(rng)).collect()),
            2 => Cmd::Expire(k),
            _ => Cmd::Mget((0..n).map(|_| key(rng)).collect()),
        };
    }
    let n = if writes_only { 13 } else { 17 };
    match rng.below(n) {
        0 => Cmd::Set(k, val(rng)),
        1 => Cmd::Incr(k),
        2 => Cmd::Append(k, val(rng)),
        3 => Cmd::Del(k),
        4 => Cmd::Rpush(k, (0..rng.range(1, 2)).map(|_| b(*rng.pick(&ELEMS))).collect()),
        5 => Cmd::Lset(k, b(*rng.pick(&ELEMS))),
        6 => Cmd::Lpop(k),
        7 => Cmd::Hset(k, b(*rng.pick(&FIELDS)), b(*rng.pick(&ELEMS))),
        8 => Cmd::Hdel(k, b(*rng.pick(&FIELDS))),
        9 => Cmd::Sadd(k, b(*rng.pick(&MEMBERS))),
        10 => Cmd::Srem(k, b(*rng.pick(&MEMBERS))),
        11 => Cmd::Zadd(k, *rng.pick(&SCORES), b(*rng.pick(&MEMBERS))),
        12 => Cmd::Zrem(k, b(*rng.pick(&MEMBERS))),
        13 => Cmd::Get(k),
        14 => Cmd::Lrange(k),
        15 => Cmd::Llen(k),
        _ => Cmd::Ping,
    }
}

/// a value of every type
fn gen_populate(rng: &mut Rng) -> Cmd {
    let k = key(rng);
    match rng.below(8) {
        0..=2 => Cmd::Set(k, val(rng)),
        3 => Cmd::Rpush(k, vec![b("a")]),
        4 => Cmd::Hset(k, b(*rng.pick(&FIELDS)), b("1")),
        5 => Cmd::Sadd(k, b(*rng.pick(&MEMBERS))),
        _ => Cmd::Zadd(k, *rng.pick(&SCORES), b(*rng.pick(&MEMBERS))),
    }
}

// ---------------------------------------------------------------- the WATCH matrix

#[derive(Clone)]
enum Mod {
    C(Cmd),
    /// the key gets a 1 ms deadline and the deadline passes
    ExpireNow,
}

/// (type of the watched key `w`, setup, modification label, modification)
fn matrix() -> Vec<(&'static str, Vec<Cmd>, &'static str, Vec<Mod>)> {
    let w = || "w".to_string();
    let setups: Vec<(&'static str, Vec<Cmd>)> = vec![
        ("missing", vec![]),
        ("string", vec![Cmd::Set(w(), b("5"))]),
        ("list", vec![Cmd::Rpush(w(), vec![b("a"), b("b")])]),
        ("hash", vec![Cmd::Hset(w(), b("f"), b("1")), Cmd::Hset(w(), b("g"), b("2"))]),
        ("set", vec![Cmd::Sadd(w(), b("alice")), Cmd::Sadd(w(), b("bob"))]),
        ("zset", vec![Cmd::Zadd(w(), 10, b("alice")), Cmd::Zadd(w(), 20, b("bob"))]),
        ("zset1", vec![Cmd::Zadd(w(), 10, b("alice"))]),
    ];
    let c = |x: Cmd| Mod::C(x);
    let mut v = Vec::new();
    for (i, (ty, setup)) in setups.iter().enumerate() {
        let mut mods: Vec<(&'static str, Vec<Mod>)> = vec![
            ("none", vec![]),
            ("ttl-set", vec![c(Cmd::Expire(w()))]),
            ("ttl-set-then-persist", vec![c(Cmd::Expire(w())), c(Cmd::Persist(w(), false))]),
            ("overwrite-with-string", vec![c(Cmd::Set(w(), b("zz")))]),
        ];
        if *ty != "missing" {
            mods.push(("delete", vec![c(Cmd::Del(w()))]));
            let mut rec = vec![c(Cmd::Del(w()))];
            rec.extend(setup.iter().cloned().map(Mod::C));
            mods.push(("delete-recreate-same-value", rec));
            mods.push(("expiry-passed", vec![Mod::ExpireNow]));
            // type change to the next non-string type (and to a list for strings)
            let next = &setups[if i + 1 < setups.len() - 1 { (i + 1).max(2) } else { 2 }];
            if next.0 != *ty {
                let mut tc = vec![c(Cmd::Del(w()))];
                tc.extend(next.1.iter().cloned().map(Mod::C));
                mods.push(("type-change-to-non-string", tc));
            }
        }
        match *ty {
            "missing" => {
                mods.push(("create-string", vec![c(Cmd::Set(w(), b("1")))]));
                mods.push(("create-list", vec![c(Cmd::Rpush(w(), vec![b("a")]))]));
                mods.push(("create-hash", vec![c(Cmd::Hset(w(), b("f"), b("1")))]));
                mods.push(("create-set", vec![c(Cmd::Sadd(w(), b("a")))]));
                mods.push(("create-zset", vec![c(Cmd::Zadd(w(), 1, b("a")))]));
                mods.push(("create-then-delete", vec![c(Cmd::Set(w(), b("1"))), c(Cmd::Del(w()))]));
            }
            "string" => {
                mods.push(("value-change", vec![c(Cmd::Set(w(), b("6")))]));
                mods.push(("same-length-replacement", vec![c(Cmd::Set(w(), b("7")))]));
                mods.push(("append", vec![c(Cmd::Append(w(), b("x")))]));
                mods.push(("incr", vec![c(Cmd::Incr(w()))]));
                mods.push(("same-value-rewrite", vec![c(Cmd::Set(w(), b("5")))]));
                mods.push(("change-and-change-back", vec![c(Cmd::Set(w(), b("6"))), c(Cmd::Set(w(), b("5")))]));
            }
            "list" => {
                mods.push(("element-add", vec![c(Cmd::Rpush(w(), vec![b("c")]))]));
                mods.push(("element-remove", vec![c(Cmd::Lpop(w()))]));
                mods.push(("same-length-replacement", vec![c(Cmd::Lset(w(), b("z")))]));
                mods.push(("same-value-rewrite", vec![c(Cmd::Lset(w(), b("a")))]));
            }
            "hash" => {
                mods.push(("field-add", vec![c(Cmd::Hset(w(), b("h"), b("3")))]));
                mods.push(("field-remove", vec![c(Cmd::Hdel(w(), b("f")))]));
                mods.push(("field-value-change", vec![c(Cmd::Hset(w(), b("f"), b("9")))]));
                mods.push(("same-value-rewrite", vec![c(Cmd::Hset(w(), b("f"), b("1")))]));
                mods.push(("same-cardinality-replacement", vec![c(Cmd::Hdel(w(), b("f"))), c(Cmd::Hset(w(), b("h"), b("1")))]));
            }
            "set" => {
                mods.push(("member-add", vec![c(Cmd::Sadd(w(), b("c")))]));
                mods.push(("member-remove", vec![c(Cmd::Srem(w(), b("alice")))]));
                mods.push(("same-cardinality-replacement", vec![c(Cmd::Srem(w(), b("alice"))), c(Cmd::Sadd(w(), b("c")))]));
                mods.push(("same-value-rewrite", vec![c(Cmd::Sadd(w(), b("alice")))]));
            }
            "zset" => {
                mods.push(("member-add", vec![c(Cmd::Zadd(w(), 30, b("c")))]));
                mods.push(("member-remove", vec![c(Cmd::Zrem(w(), b("alice")))]));
                mods.push(("score-change-same-rank-order", vec![c(Cmd::Zadd(w(), 15, b("alice")))]));
                mods.push(("score-change-reorder", vec![c(Cmd::Zadd(w(), 25, b("alice")))]));
                mods.push(("score-change-to-tie", vec![c(Cmd::Zadd(w(), 20, b("alice")))]));
                mods.push(("same-value-rewrite", vec![c(Cmd::Zadd(w(), 10, b("alice")))]));
                mods.push(("same-cardinality-replacement", vec![c(Cmd::Zrem(w(), b("alice"))), c(Cmd::Zadd(w(), 10, b("c")))]));
                mods.push(("score-change-and-back", vec![c(Cmd::Zadd(w(), 15, b("alice"))), c(Cmd::Zadd(w(), 10, b("alice")))]));
            }
            _ => {
                mods.push(("score-change-one-member", vec![c(Cmd::Zadd(w(), 11, b("alice")))]));
                mods.push(("score-change-negative", vec![c(Cmd::Zadd(w(), -5, b("alice")))]));
            }
        }
        for (label, m) in mods {
            v.push((*ty, setup.clone(), label, m));
        }
    }
    v
}

async fn session(out: &mut Out, rng: &mut Rng, script: Option<(usize, Vec<Step>)>) {
    session_labelled(out, rng, script, None).await
}

async fn session_labelled(out: &mut Out, rng: &mut Rng, script: Option<(usize, Vec<Step>)>, matrix_label: Option<String>) {
    session_full(out, rng, script, matrix_label, None, None).await;
}

/// legal extremes of every `ConnectionConfig` field the handler reads
fn gen_cfg(rng: &mut Rng) -> ConnectionConfig {
    let read = *rng.pick(&[1usize, 2, 7, 13, 14, 16, 64, 8192]);
    ConnectionConfig {
        max_buffer_size: *rng.pick(&[1usize << 20, 512 * 1024 * 1024]),
        read_buffer_size: read,
        min_pipeline_buffer: *rng.pick(&[0usize, 1, 13, 14, 60, 1 << 20]),
        batch_threshold: *rng.pick(&[0usize, 1, 2, 3, 64]),
    }
}

/// returns the canonical replies of all inputs of the modelled client
async fn session_full(out: &mut Out, rng: &mut Rng, script: Option<(usize, Vec<Step>)>, matrix_label: Option<String>, cfg: Option<ConnectionConfig>, keys: Option<Vec<String>>) -> Vec<String> {
    let (shards, fixed) = match script {
        Some((s, v)) => (s, Some(v)),
        None => (if rng.chance(1, 2) { 1 } else { 4 }, None),
    };
    out.count(&format!("shards:{}", shards));
    let cfg = match cfg {
        Some(c) => c,
        None if fixed.is_none() && rng.chance(1, 4) => gen_cfg(rng),
        None => ConnectionConfig::default(),
    };
    let mut w = World::new_cfg(shards, cfg);
    if let Some(k) = keys {
        w.keys = k;
    }
    out.count(&format!("connection-config:{}", if w.cfg_text == "default" { "default" } else { "generated" }));
    if w.cfg_text != "default" {
        out.count(&format!("connection-config:read_buffer_size:{}", w.cfg.read_buffer_size));
        out.count(&format!("connection-config:min_pipeline_buffer:{}", w.cfg.min_pipeline_buffer));
        out.count(&format!("connection-config:batch_threshold:{}", w.cfg.batch_threshold));
    }
    out.op("NEW".into(), "ok".into());
    if let Some(steps) = fixed {
        for s in steps {
            match s {
                Step::In(i) => w.input(out, i).await,
                Step::Other(c) => w.foreign(out, c).await,
                Step::ConcExec(sc) => w.concurrent_exec(out, sc).await,
                Step::Block(b) => w.pipelined(out, b).await,
                Step::ExpireNow(k) => w.expire_now(out, &k).await,
                Step::Reconnect(how) => w.reconnect(out, how).await,
                Step::RawThenClose(bytes, how) => {
                    w.c1.write(&bytes).await;
                    tokio::task::yield_now().await;
                    w.reconnect(out, how).await
                }
                Step::Chunked(inps, per_write) => w.chunked(out, inps, per_write).await,
                Step::Overflow(val) => {
                    out.count("fault:buffer-overflow");
                    let before = w.dump_now().await;
                    w.c1.write(&frame(&[b("SET"), b("n"), val])).await;
                    let r = w.c1.recv().await;
                    let closed = w.c1.recv().await;
                    w.text.push("SET n <value larger than max_buffer_size>".into());
                    if show(&r, false) != "-buffer-overflow" || closed != Rv::Err("?connection closed".into()) {
                        out.violation("C05:overflow:unexpected", &format!("a frame beyond max_buffer_size was answered {} then {:?} (expected the buffer-overflow error and a closed connection)", show(&r, false), closed), w.replay_json());
                    }
                    let after = w.dump_now().await;
                    if after != before {
                        out.violation("C05:overflow:store-changed", "a connection closed for buffer overflow between MULTI and EXEC changed the store", w.replay_json());
                    }
                    w.reconnect(out, " by the server: buffer overflow").await
                }
                Step::ExpectExec(sig, want) => {
                    // a repaired defect: its witness must now PASS
                    if w.last_exec.as_deref() == Some(want) {
                        out.count(&format!("corpus:fixed-defect-passes:{}", sig));
                    } else {
                        out.violation(
                            &format!("C05:fixed-defect-regressed:{}", sig),
                            &format!("the witness of the repaired defect {} fails again: EXEC answered {:?}, expected {}", sig, w.last_exec, want),
                            w.replay_json(),
                        );
                    }
                }
            }
        }
    } else {
        // populate: strings and lists
        for _ in 0..rng.range(1, 7) {
            let c = gen_populate(rng);
            w.foreign(out, c).await;
        }
        let steps = rng.range(6, 24);
        for _ in 0..steps {
            if !w.in_multi {
                match rng.below(100) {
                    0..=21 => {
                        let n = rng.range(1, 2);
                        let ks = (0..n).map(|_| key(rng)).collect();
                        w.input(out, Inp::Watch(ks)).await
                    }
                    22..=29 => {
                        let mut blk = Vec::new();
                        // since fix de38a13 the batch collectors and the fast path are alive: a run of
                        // GET frames at the head of the write is taken by `collect_get_keys`
                        // (`fast_batch_get_pipeline`) right before the transaction in the same read
                        let lead = if rng.chance(1, 2) { rng.range(2, 4) } else { 0 };
                        for _ in 0..lead {
                            blk.push(Inp::Cmd(Cmd::Get(key(rng))));
                        }
                        if lead > 0 {
                            out.count("pipelined-block:get-run-before-the-transaction");
                        }
                        if rng.chance(1, 2) {
                            blk.push(Inp::Watch(vec![key(rng)]));
                        }
                        blk.push(Inp::Multi);
                        for _ in 0..rng.range(0, 6) {
                            blk.push(match rng.below(20) {
                                0 => Inp::Multi,
                                1 => Inp::Watch(vec![key(rng)]),
                                2 => Inp::Unk,
                                3 => Inp::Perr(rng.next()),
                                4 => Inp::Unwatch,
                                5 => Inp::Local(rng.below(4) as u8),
                                _ => Inp::Cmd(gen_cmd(rng, false)),
                            });
                        }
                        blk.push(if rng.chance(1, 8) { Inp::Discard } else { Inp::Exec(vec![]) });
                        // … and a run of GET frames right after EXEC / DISCARD in the same write (the generic
                        // loop hands them to `try_fast_path` one by one: the flag is down again; they must
                        // see what the transaction wrote).  Reads only: the block's store dump is taken
                        // after the whole write has been served.
                        if rng.chance(1, 2) {
                            out.count("pipelined-block:get-run-after-the-transaction");
                            for _ in 0..rng.range(2, 4) {
                                blk.push(Inp::Cmd(Cmd::Get(key(rng))));
                            }
                        }
                        w.pipelined(out, blk).await
                    }
                    30..=46 => w.input(out, Inp::Multi).await,
                    47..=61 => w.input(out, Inp::Cmd(gen_cmd(rng, false))).await,
                    62..=66 => w.input(out, Inp::Unwatch).await,
                    67..=69 => w.input(out, Inp::Exec(vec![])).await,
                    70..=72 => w.input(out, Inp::Discard).await,
                    73..=75 => w.input(out, Inp::Unk).await,
                    76..=78 => w.input(out, Inp::Perr(rng.next())).await,
                    79..=80 => w.input(out, Inp::Local(rng.below(4) as u8)).await,
                    81 => match rng.below(3) {
                        0 => w.input(out, Inp::Chan).await,
                        1 => w.input(out, Inp::Proto).await,
                        _ => w.reconnect(out, "").await,
                    },
                    82 => w.foreign(out, Cmd::Expire(key(rng))).await,
                    83 => w.foreign(out, Cmd::Persist(key(rng), false)).await,
                    84 if rng.chance(1, 4) => {
                        let k = key(rng);
                        w.expire_now(out, &k).await
                    }
                    _ => w.foreign(out, gen_cmd(rng, true)).await,
                }
            } else {
                let mut choice = rng.below(100);
                if w.body.is_empty() && (63..=82).contains(&choice) && rng.chance(3, 4) {
                    choice = 0; // mostly non-empty transactions
                }
                match choice {
                    0..=47 => w.input(out, Inp::Cmd(gen_cmd(rng, false))).await,
                    48..=62 => w.foreign(out, gen_cmd(rng, true)).await,
                    63..=70 => w.input(out, Inp::Exec(vec![])).await,
                    71..=78 => {
                        let sc = gen_sched(rng, &w);
                        w.concurrent_exec(out, sc).await
                    }
                    79..=82 => w.input(out, Inp::Discard).await,
                    83..=85 => w.input(out, Inp::Multi).await,
                    86..=88 => w.input(out, Inp::Watch(vec![key(rng)])).await,
                    89..=91 => w.input(out, Inp::Unk).await,
                    92..=94 => w.input(out, Inp::Perr(rng.next())).await,
                    95..=96 => w.input(out, Inp::Unwatch).await,
                    97..=98 => w.input(out, Inp::Local(rng.below(4) as u8)).await,
                    _ => match rng.below(3) {
                        0 => w.input(out, Inp::Chan).await,
                        1 => w.input(out, Inp::Proto).await,
                        _ => w.reconnect(out, " between MULTI and EXEC").await,
                    },
                }
            }
        }
        if w.in_multi {
            if rng.chance(1, 3) {
                let sc = gen_sched(rng, &w);
                w.concurrent_exec(out, sc).await
            } else {
                w.input(out, Inp::Exec(vec![])).await
            }
        }
    }
    w.dump_op(out).await;
    if let Some(l) = matrix_label {
        let outcome = match w.last_exec.as_deref() {
            Some("*-") => "aborted",
            Some(r) if r.starts_with('*') => "proceeded",
            _ => "other",
        };
        out.count(&format!("watchmatrix:connection-{}shard:{}:{}:value-{}", shards, l, outcome, if w.last_changed { "changed" } else { "same" }));
    }
    let text = format!("{}|{}|{}", shards, w.cfg_text, w.text.join(";"));
    out.case(&text, w.nontrivial);
    out.sample(json!({"shards": shards, "connection_config": w.cfg_text, "session": w.text}));
    w.replies.clone()
}


// ---------------------------------------------------------------- the decision table, cell by cell

/// a state class of the connection-level machine: in_transaction, transaction_errors, the watch
/// list (0 nothing watched, 1 key `w` watched and unchanged, 2 watched and changed since), queue length
#[derive(Clone, Copy)]
struct CellState {
    a: bool,
    e: bool,
    w: u8,
    q: usize,
}

/// every REACHABLE state class (outside MULTI the queue is empty and the flag is down:
/// theorem `reachable_outside_clean`)
fn cell_states() -> Vec<CellState> {
    let mut v = Vec::new();
    for w in 0..3u8 {
        v.push(CellState { a: false, e: false, w, q: 0 });
    }
    for e in [false, true] {
        for w in 0..3u8 {
            for q in [0usize, 2] {
                v.push(CellState { a: true, e, w, q });
            }
        }
    }
    v
}

fn cell_prefix(s: &CellState) -> Vec<Step> {
    let mut v = vec![Step::Other(Cmd::Rpush("l".into(), vec![b("a")])), Step::Other(Cmd::Set("k".into(), b("5")))];
    if s.w >= 1 {
        v.push(Step::Other(Cmd::Set("w".into(), b("5"))));
        v.push(Step::In(Inp::Watch(vec!["w".into()])));
    }
    if s.w == 2 {
        v.push(Step::Other(Cmd::Set("w".into(), b("6"))));
    }
    if s.a {
        v.push(Step::In(Inp::Multi));
        if s.q >= 1 {
            v.push(Step::In(Inp::Cmd(Cmd::Set("x".into(), b("1")))));
        }
        if s.q >= 2 {
            v.push(Step::In(Inp::Cmd(Cmd::Incr("n".into()))));
        }
        if s.e {
            v.push(Step::In(Inp::Unk));
        }
    }
    v
}

/// number of `Step::In` inputs in a prefix
fn n_inputs(steps: &[Step]) -> usize {
    steps.iter().filter(|s| matches!(s, Step::In(_))).count()
}

/// (input class of the model's table, label, concrete input): several representatives per class
fn cell_inputs() -> Vec<(&'static str, String, Inp)> {
    let mut v: Vec<(&'static str, String, Inp)> = vec![
        ("MULTI", "MULTI".into(), Inp::Multi),
        ("EXEC", "EXEC".into(), Inp::Exec(vec![])),
        ("DISCARD", "DISCARD".into(), Inp::Discard),
        ("UNWATCH", "UNWATCH".into(), Inp::Unwatch),
        ("WATCH", "WATCH k".into(), Inp::Watch(vec!["k".into()])),
        ("WATCH", "WATCH k n".into(), Inp::Watch(vec!["k".into(), "n".into()])),
        ("CMD", "GET k".into(), Inp::Cmd(Cmd::Get("k".into()))),
        ("CMD", "SET k 9".into(), Inp::Cmd(Cmd::Set("k".into(), b("9")))),
        ("CMD", "INCR l (fails at run time)".into(), Inp::Cmd(Cmd::Incr("l".into()))),
        ("CMD", "MSET k 1 n 2".into(), Inp::Cmd(Cmd::Mset(vec![("k".into(), b("1")), ("n".into(), b("2"))]))),
        ("CMD", "MGET k l zz".into(), Inp::Cmd(Cmd::Mget(vec!["k".into(), "l".into(), "x".into()]))),
        ("CMD", "DEL k n".into(), Inp::Cmd(Cmd::Delm(vec!["k".into(), "n".into()]))),
        ("CMD", "PING".into(), Inp::Cmd(Cmd::Ping)),
        ("UNK", "FOO a".into(), Inp::Unk),
        ("CHAN", "PUBLISH c m".into(), Inp::Chan),
        ("PROTO", "protocol error".into(), Inp::Proto),
    ];
    for i in 0..4u8 {
        v.push(("LOCAL", Inp::Local(i).text(), Inp::Local(i)));
    }
    for i in 0..6u64 {
        v.push(("PERR", format!("arity error: {}", Inp::Perr(i).text()), Inp::Perr(i)));
    }
    v
}

/// class of the reply of a cell's input, as the model's `rcls`
fn reply_class(icls: &str, in_txn: bool, r: &str) -> String {
    if r == "+QUEUED" {
        return "queued".into();
    }
    if r == "*-" {
        return "nil".into();
    }
    let conn_err = ["-execabort", "-nested-multi", "-watch-in-multi", "-exec-without-multi", "-discard-without-multi", "-unknown-args", "-noperm", "-parse", "-protocol"];
    if conn_err.contains(&r) {
        return r.to_string();
    }
    match icls {
        "EXEC" if in_txn && r.starts_with('*') => format!("results:{}", r[1..].split(' ').next().unwrap_or("?")),
        "MULTI" | "DISCARD" | "UNWATCH" | "WATCH" if r == "+OK" => "ok".into(),
        "CMD" | "UNK" | "CHAN" | "LOCAL" if !in_txn => "plain".into(),
        _ => format!("?{}", r),
    }
}

/// One cell of the decision table, extracted from the REAL handler by driving it: the state is
/// reached by a prefix, the input is sent, and the next state is observed through probes (EXEC;
/// a change of the watched key followed by [MULTI] EXEC; for WATCH a change of the newly named
/// key).  Every run is an ordinary session (all its ops go through the model and the oracles);
/// the observed cell is one more op line (`TBL …`) answered by the model's table.
async fn table_cell(out: &mut Out, shards: usize, st: &CellState, icls: &'static str, label: &str, inp: &Inp) {
    let mut rng = Rng::new(0xC05);
    let np = n_inputs(&cell_prefix(st));
    // run A: prefix, input, EXEC
    let mut a = cell_prefix(st);
    a.push(Step::In(inp.clone()));
    a.push(Step::In(Inp::Exec(vec![])));
    let ra = session_full(out, &mut rng, Some((shards, a)), None, None, None).await;
    let (r, pa) = match (ra.get(np), ra.get(np + 1)) {
        (Some(r), Some(pa)) => (r.clone(), pa.clone()),
        _ => {
            out.violation("C05:table:empty-cell", &format!("driving the cell ({}) produced {} replies instead of {}", label, ra.len(), np + 2), json!({"cell": label}));
            return;
        }
    };
    let rc = reply_class(icls, st.a, &r);
    let (a2, e2) = match pa.as_str() {
        "-exec-without-multi" => (false, false),
        "-execabort" => (true, true),
        p if p.starts_with('*') => (true, false),
        p => {
            out.violation("C05:table:probe-unreadable", &format!("the probe EXEC after ({}) answered {}", label, p), json!({"cell": label}));
            return;
        }
    };
    let q2 = if a2 && !e2 && st.w != 2 && pa.starts_with('*') && pa != "*-" { pa[1..].split(' ').next().unwrap_or("?").to_string() } else { "-".to_string() };
    // run B: is the key watched before the input still armed afterwards?
    let armed = if a2 && e2 {
        "-".to_string()
    } else if st.w == 0 {
        "0".to_string()
    } else {
        let mut bsteps = cell_prefix(st);
        bsteps.push(Step::In(inp.clone()));
        if st.w == 1 {
            bsteps.push(Step::Other(Cmd::Set("w".into(), b("7"))));
        }
        if !a2 {
            bsteps.push(Step::In(Inp::Multi));
        }
        bsteps.push(Step::In(Inp::Exec(vec![])));
        let rb = session_full(out, &mut rng, Some((shards, bsteps)), None, None, None).await;
        match rb.last().map(|s| s.as_str()) {
            Some("*-") => "1".to_string(),
            Some(p) if p.starts_with('*') => "0".to_string(),
            other => format!("?{:?}", other),
        }
    };
    // run C: did WATCH arm the key it names?
    let newarmed = if icls != "WATCH" || st.w == 2 || (a2 && e2) {
        "-".to_string()
    } else {
        let mut csteps = cell_prefix(st);
        csteps.push(Step::In(inp.clone()));
        csteps.push(Step::Other(Cmd::Set("k".into(), b("8"))));
        if !a2 {
            csteps.push(Step::In(Inp::Multi));
        }
        csteps.push(Step::In(Inp::Exec(vec![])));
        let rcx = session_full(out, &mut rng, Some((shards, csteps)), None, None, None).await;
        match rcx.last().map(|s| s.as_str()) {
            Some("*-") => "1".to_string(),
            Some(p) if p.starts_with('*') => "0".to_string(),
            other => format!("?{:?}", other),
        }
    };
    let key = format!("TBL {} {} {} {} {}", st.a as u8, st.e as u8, st.w, st.q, icls);
    let cell = format!("{} {} {} {} {} {}", rc, a2 as u8, e2 as u8, q2, armed, newarmed);
    out.op(key.clone(), cell.clone());
    out.count(&format!("table-cell:{}", icls));
    let row = format!("in_multi={} errors={} watched={} queue={} | {} [{}]", st.a as u8, st.e as u8, ["none", "unchanged", "changed"][st.w as usize], st.q, icls, label);
    if let Some(serde_json::Value::Object(m)) = out.extra.get_mut(&format!("decision_table_extracted_from_the_real_handler:{}shard", shards)) {
        m.insert(row, json!(cell));
    } else {
        let mut m = serde_json::Map::new();
        m.insert(row, json!(cell));
        out.extra.insert(format!("decision_table_extracted_from_the_real_handler:{}shard", shards), serde_json::Value::Object(m));
    }
}

/// one foreign command (or nothing) per await slot of the coming EXEC, slot 0 empty
fn gen_sched(rng: &mut Rng, w: &World) -> Vec<Vec<Cmd>> {
    let mut real: Vec<bool> = w.watched.iter().map(|_| true).collect();
    for (i, r) in &w.body {
        if *r == Rv::Simple("QUEUED".into()) {
            real.push(!matches!(i, Inp::Cmd(Cmd::Ping) | Inp::Local(0..=2)));
        }
    }
    let slots = (real.len() + 1 + rng.below(2) as usize).max(2);
    let mut sc = vec![Vec::new()];
    for i in 1..slots {
        if (i > real.len() || real[i - 1]) && rng.chance(1, 2) {
            sc.push(vec![gen_cmd(rng, true)]);
        } else {
            sc.push(Vec::new());
        }
    }
    sc
}

enum Step {
    In(Inp),
    Other(Cmd),
    ConcExec(Vec<Vec<Cmd>>),
    /// inputs written in one write
    Block(Vec<Inp>),
    /// the other client lets a key's deadline pass
    ExpireNow(String),
    /// (signature of a repaired defect, canonical reply its last EXEC must now give)
    ExpectExec(&'static str, &'static str),
    /// the modelled client's connection is dropped and a new one opened
    Reconnect(&'static str),
    /// bytes written (e.g. half a frame), then the connection is dropped
    RawThenClose(Vec<u8>, &'static str),
    /// many inputs, `per_write` frames per write, replies read after each write (long queues)
    Chunked(Vec<Inp>, usize),
    /// a SET whose value exceeds the connection's max_buffer_size: error reply, connection closed
    Overflow(Vec<u8>),
}

/// ALL placements of one and of two foreign commands among the await points of EXEC (before its
/// first store access, between two consecutive accesses, after the last), for six bodies with two
/// or three store accesses (watch comparisons included) and every ordered choice of the foreign
/// commands from three writes that hit the transaction's keys.  `Props/C05Sched.lean`
/// (`placements_cover`) proves that for these bodies and foreign sequences the placements ARE the
/// whole schedule space of the model; here each of them is run on the real handler (two commands in
/// one slot travel on two foreign connections), compared with the model and judged by the oracle.
async fn schedule_enumeration(out: &mut Out, shards: usize) -> usize {
    let s = |k: &str, v: &str| Cmd::Set(k.into(), b(v));
    let bodies: Vec<(&str, Vec<&str>, Vec<Cmd>)> = vec![
        ("set-get", vec![], vec![s("k", "1"), Cmd::Get("k".into())]),
        ("watch-get", vec!["k"], vec![Cmd::Get("k".into())]),
        ("watch-incr-get", vec!["k"], vec![Cmd::Incr("n".into()), Cmd::Get("k".into())]),
        ("incr-incr-get", vec![], vec![Cmd::Incr("n".into()), Cmd::Incr("n".into()), Cmd::Get("n".into())]),
        ("watch-list", vec!["l"], vec![Cmd::Rpush("l".into(), vec![b("a")]), Cmd::Llen("l".into())]),
        ("watch2-set", vec!["k", "n"], vec![s("x", "1")]),
    ];
    let foreign = [s("k", "F"), Cmd::Incr("n".into()), Cmd::Rpush("l".into(), vec![b("z")])];
    let mut seqs: Vec<Vec<Cmd>> = foreign.iter().map(|f| vec![f.clone()]).collect();
    for a in &foreign {
        for c in &foreign {
            seqs.push(vec![a.clone(), c.clone()]);
        }
    }
    let mut count = 0usize;
    for (label, watch, body) in &bodies {
        let acc = watch.len() + body.len();
        for fs in &seqs {
            let mut pls: Vec<Vec<usize>> = Vec::new();
            if fs.len() == 1 {
                pls.extend((0..=acc).map(|i| vec![i]));
            } else {
                for i in 0..=acc {
                    for j in i..=acc {
                        pls.push(vec![i, j]);
                    }
                }
            }
            for pl in pls {
                let mut steps = vec![Step::Other(s("k", "0")), Step::Other(s("n", "5")), Step::Other(Cmd::Rpush("l".into(), vec![b("x")]))];
                if !watch.is_empty() {
                    steps.push(Step::In(Inp::Watch(watch.iter().map(|k| k.to_string()).collect())));
                }
                steps.push(Step::In(Inp::Multi));
                for c in body {
                    steps.push(Step::In(Inp::Cmd(c.clone())));
                }
                let mut sched: Vec<Vec<Cmd>> = vec![Vec::new(); acc + 1];
                for (c, slot) in fs.iter().zip(&pl) {
                    if *slot == 0 {
                        steps.push(Step::Other(c.clone()));
                    } else {
                        sched[*slot].push(c.clone());
                    }
                }
                steps.push(Step::ConcExec(sched));
                session_labelled(out, &mut Rng::new(0xC05), Some((shards, steps)), None).await;
                out.count(&format!("schedule-enumeration:{}shard:{}:k={}", shards, label, fs.len()));
                count += 1;
            }
        }
    }
    count
}

/// fixed corpus: the witnesses of the Lean counterexample theorems, replayed first on every run
fn corpus() -> Vec<(usize, Vec<Step>)> {
    let mut v = Vec::new();
    for shards in [1usize, 4] {
        // DESIGN §6.1 / watch_nonstring_counterexample
        v.push((shards, vec![
            Step::Other(Cmd::Rpush("w".into(), vec![b("1")])),
            Step::In(Inp::Watch(vec!["w".into()])),
            Step::Other(Cmd::Rpush("w".into(), vec![b("2")])),
            Step::In(Inp::Multi),
            Step::In(Inp::Cmd(Cmd::Set("x".into(), b("1")))),
            Step::In(Inp::Exec(vec![])),
        ]));
        // exec_not_isolated_counterexample
        v.push((shards, vec![
            Step::In(Inp::Multi),
            Step::In(Inp::Cmd(Cmd::Set("k".into(), b("1")))),
            Step::In(Inp::Cmd(Cmd::Get("k".into()))),
            Step::ConcExec(vec![vec![], vec![Cmd::Set("k".into(), b("2"))]]),
        ]));
        // watched_key_changed_after_check_counterexample
        v.push((shards, vec![
            Step::Other(Cmd::Set("k".into(), b("0"))),
            Step::In(Inp::Watch(vec!["k".into()])),
            Step::In(Inp::Multi),
            Step::In(Inp::Cmd(Cmd::Get("k".into()))),
            Step::ConcExec(vec![vec![], vec![Cmd::Set("k".into(), b("F"))]]),
        ]));
        // connection_level_command_pinned_counterexample — repaired: must now answer as outside MULTI
        v.push((shards, vec![
            Step::In(Inp::Multi),
            Step::In(Inp::Local(0)),
            Step::In(Inp::Exec(vec![])),
            Step::ExpectExec("C05:exec:connection-level-command-differs", "*1 +OK"),
            Step::In(Inp::Multi),
            Step::In(Inp::Local(0)),
            Step::In(Inp::Local(1)),
            Step::In(Inp::Cmd(Cmd::Set("k".into(), b("1")))),
            Step::In(Inp::Local(2)),
            Step::In(Inp::Local(3)),
            Step::In(Inp::Exec(vec![])),
            Step::ExpectExec("C05:exec:connection-level-command-differs", "*5 +OK $x64656661756c74 +OK +RESET +OK"),
        ]));
        // a transaction sent in one write; GETs / SETs pipelined inside MULTI (the shape the
        // connection's batch collectors and fast path look for: they must stay out of a transaction)
        v.push((shards, vec![
            Step::Other(Cmd::Set("k".into(), b("5"))),
            Step::Block(vec![
                Inp::Watch(vec!["k".into()]),
                Inp::Multi,
                Inp::Cmd(Cmd::Get("k".into())),
                Inp::Cmd(Cmd::Get("n".into())),
                Inp::Cmd(Cmd::Set("n".into(), b("1"))),
                Inp::Cmd(Cmd::Set("x".into(), b("2"))),
                Inp::Cmd(Cmd::Get("n".into())),
                Inp::Exec(vec![]),
            ]),
            Step::In(Inp::Multi),
            Step::Block(vec![
                Inp::Cmd(Cmd::Get("k".into())),
                Inp::Cmd(Cmd::Get("n".into())),
                Inp::Cmd(Cmd::Get("x".into())),
                Inp::Cmd(Cmd::Set("k".into(), b("6"))),
                Inp::Cmd(Cmd::Set("n".into(), b("7"))),
                Inp::Cmd(Cmd::Set("x".into(), b("8"))),
            ]),
            Step::In(Inp::Exec(vec![])),
        ]));
        // kv_exec_serializable_other_keys: the other client works on keys the transaction neither
        // queues nor watches, between EVERY pair of its store accesses — the outcome must be a
        // serial one (the oracle of concurrent_exec demands it)
        v.push((shards, vec![
            Step::Other(Cmd::Set("k".into(), b("0"))),
            Step::Other(Cmd::Rpush("l".into(), vec![b("7")])),
            Step::In(Inp::Watch(vec!["k".into()])),
            Step::In(Inp::Multi),
            Step::In(Inp::Cmd(Cmd::Set("k".into(), b("1")))),
            Step::In(Inp::Cmd(Cmd::Get("k".into()))),
            Step::In(Inp::Cmd(Cmd::Incr("n".into()))),
            Step::ConcExec(vec![vec![], vec![Cmd::Set("x".into(), b("2"))], vec![Cmd::Rpush("l".into(), vec![b("8")])], vec![Cmd::Sadd("ab".into(), b("9"))], vec![Cmd::Del("x".into())]]),
            Step::ExpectExec("C05:independent-clients:serializable", "*3 +OK $x31 :1"),
        ]));
        // machines_differ_on_rewatch_counterexample, connection side: every snapshot of a key counts
        // (k: 0 at the first WATCH, 1 at the second, 0 again at EXEC: nil)
        v.push((shards, vec![
            Step::Other(Cmd::Set("k".into(), b("0"))),
            Step::In(Inp::Watch(vec!["k".into()])),
            Step::Other(Cmd::Set("k".into(), b("1"))),
            Step::In(Inp::Watch(vec!["k".into()])),
            Step::Other(Cmd::Set("k".into(), b("0"))),
            Step::In(Inp::Multi),
            Step::In(Inp::Exec(vec![])),
            Step::ExpectExec("C05:machines-differ:rewatch:connection-compares-every-snapshot", "*-"),
        ]));
        // healthy paths: string watch detected, DISCARD, EXECABORT, nested MULTI, WATCH in MULTI
        v.push((shards, vec![
            Step::Other(Cmd::Set("k".into(), b("5"))),
            Step::In(Inp::Watch(vec!["k".into(), "n".into()])),
            Step::Other(Cmd::Incr("k".into())),
            Step::In(Inp::Multi),
            Step::In(Inp::Cmd(Cmd::Set("x".into(), b("1")))),
            Step::In(Inp::Exec(vec![])),
            Step::In(Inp::Multi),
            Step::In(Inp::Multi),
            Step::In(Inp::Watch(vec!["k".into()])),
            Step::In(Inp::Cmd(Cmd::Incr("l".into()))),
            Step::In(Inp::Cmd(Cmd::Rpush("l".into(), vec![b("a")]))),
            Step::In(Inp::Cmd(Cmd::Incr("l".into()))),
            Step::In(Inp::Unwatch),
            Step::In(Inp::Exec(vec![])),
            Step::In(Inp::Multi),
            Step::In(Inp::Cmd(Cmd::Del("l".into()))),
            Step::In(Inp::Unk),
            Step::In(Inp::Exec(vec![])),
            Step::In(Inp::Multi),
            Step::In(Inp::Cmd(Cmd::Del("l".into()))),
            Step::In(Inp::Perr(0)),
            Step::In(Inp::Discard),
            Step::In(Inp::Exec(vec![])),
            Step::In(Inp::Discard),
        ]));
    }
    v
}


/// scripted sessions for the audit classes that random sampling does not reach reliably:
/// (label, shards, connection config, keys of the dumps, steps)
fn audit_corpus() -> Vec<(&'static str, usize, Option<ConnectionConfig>, Option<Vec<String>>, Vec<Step>)> {
    let mut v: Vec<(&'static str, usize, Option<ConnectionConfig>, Option<Vec<String>>, Vec<Step>)> = Vec::new();
    let set = |k: &str, x: &str| Inp::Cmd(Cmd::Set(k.into(), b(x)));
    for shards in [1usize, 4] {
        // --- class 6, fault kinds: the connection goes away between MULTI and EXEC
        v.push(("fault:close-mid-multi", shards, None, None, vec![
            Step::Other(Cmd::Set("k".into(), b("5"))),
            Step::In(Inp::Watch(vec!["k".into()])),
            Step::In(Inp::Multi),
            Step::In(set("k", "1")),
            Step::In(Inp::Cmd(Cmd::Rpush("l".into(), vec![b("a")]))),
            Step::Reconnect(" between MULTI and EXEC"),
            // the new connection is outside MULTI, nothing is watched, nothing was applied
            Step::In(Inp::Exec(vec![])),
            Step::Other(Cmd::Set("k".into(), b("6"))),
            Step::In(Inp::Multi),
            Step::In(Inp::Cmd(Cmd::Get("k".into()))),
            Step::In(Inp::Exec(vec![])),
        ]));
        // … with half a frame in flight
        v.push(("fault:close-mid-frame-in-multi", shards, None, None, vec![
            Step::In(Inp::Multi),
            Step::In(set("k", "1")),
            Step::RawThenClose(b"*3\r\n$3\r\nSET\r\n$1\r\nn\r\n$1".to_vec(), " with half a SET frame written, between MULTI and EXEC"),
            Step::In(Inp::Cmd(Cmd::Get("k".into()))),
            Step::In(Inp::Cmd(Cmd::Get("n".into()))),
        ]));
        // … and a protocol error between MULTI and EXEC: error reply, the transaction is flagged (since 6b9d6a7)
        v.push(("fault:protocol-error-in-multi", shards, None, None, vec![
            Step::In(Inp::Multi),
            Step::In(set("k", "1")),
            Step::In(Inp::Proto),
            Step::In(set("n", "2")),
            Step::In(Inp::Exec(vec![])),
            // protocol_error_not_flagged_counterexample — repaired (6b9d6a7): EXEC must answer EXECABORT
            Step::ExpectExec("C05:execabort:missing:protocol-error-not-flagged", "-execabort"),
            Step::In(Inp::Proto),
            Step::In(Inp::Multi),
            Step::In(Inp::Proto),
            Step::In(Inp::Discard),
        ]));
        // --- class 5, capacity: a queue far beyond any buffer (3000 commands, 64 per write; the
        // read buffer holds 8192 bytes), 300 watched keys in one WATCH, 200 WATCH commands
        let mut long: Vec<Inp> = vec![Inp::Multi];
        for i in 0..3000 {
            long.push(match i % 5 {
                0 => Inp::Cmd(Cmd::Incr("n".into())),
                1 => Inp::Cmd(Cmd::Append("k".into(), b("x"))),
                2 => Inp::Cmd(Cmd::Rpush("l".into(), vec![b("a")])),
                3 => Inp::Cmd(Cmd::Llen("l".into())),
                _ => Inp::Cmd(Cmd::Get("n".into())),
            });
        }
        long.push(Inp::Exec(vec![]));
        v.push(("capacity:queue-3000", shards, None, None, vec![Step::Chunked(long, 64)]));
        let many: Vec<String> = (0..300).map(|i| format!("wk{}", i)).collect();
        let mut steps = vec![Step::In(Inp::Watch(many.clone()))];
        for i in 0..200 {
            steps.push(Step::In(Inp::Watch(vec![format!("wk{}", i % 7)])));
        }
        steps.push(Step::In(Inp::Multi));
        steps.push(Step::In(set("x", "1")));
        steps.push(Step::In(Inp::Exec(vec![])));
        steps.push(Step::In(Inp::Watch(many)));
        steps.push(Step::Other(Cmd::Set("wk299".into(), b("1"))));
        steps.push(Step::In(Inp::Multi));
        steps.push(Step::In(set("x", "2")));
        steps.push(Step::In(Inp::Exec(vec![])));
        let mut ks: Vec<String> = KEYS.iter().map(|k| k.to_string()).collect();
        ks.push("wk299".into());
        v.push(("capacity:watch-300-keys", shards, None, Some(ks), steps));
        // --- class 2, input alphabet: the empty key, a key that is not UTF-8 on the wire (0xFF, lands
        // on U+FFFD), a key with CR LF and blanks, a 300-byte key; empty / binary / 70 000-byte values
        let big: String = "K".repeat(300);
        // … keys with leading / trailing blanks and line ends, keys that differ only in case
        let odd = vec!["".to_string(), FFFD_KEY.to_string(), "a b\r\nc".to_string(), big.clone(), "é".to_string(), " lead".to_string(), "lead".to_string(), "trail \r\n".to_string(), "trail".to_string(), "UPPER".to_string(), "upper".to_string()];
        let bin: Vec<u8> = vec![0xff, 0x00, b'\r', b'\n', 0x80, b'*', b'$'];
        let huge: Vec<u8> = (0..70_000u32).map(|i| (i % 251) as u8).collect();
        for (i, k) in odd.iter().enumerate() {
            let other = odd[(i + 1) % odd.len()].clone();
            v.push(("alphabet:odd-keys", shards, None, Some(odd.clone()), vec![
                Step::Other(Cmd::Set(k.clone(), bin.clone())),
                Step::In(Inp::Watch(vec![k.clone(), other.clone()])),
                Step::In(Inp::Multi),
                Step::In(Inp::Cmd(Cmd::Get(k.clone()))),
                Step::In(Inp::Cmd(Cmd::Append(k.clone(), vec![]))),
                Step::In(Inp::Cmd(Cmd::Set(other.clone(), vec![]))),
                Step::In(Inp::Cmd(Cmd::Mget(vec![k.clone(), other.clone()]))),
                Step::In(Inp::Exec(vec![])),
                Step::In(Inp::Watch(vec![k.clone()])),
                Step::Other(Cmd::Append(k.clone(), vec![0])),
                Step::In(Inp::Multi),
                Step::In(Inp::Cmd(Cmd::Delm(vec![k.clone(), other.clone()]))),
                Step::In(Inp::Exec(vec![])),
            ]));
        }
        v.push(("alphabet:huge-value", shards, None, None, vec![
            Step::In(Inp::Watch(vec!["k".into()])),
            Step::In(Inp::Multi),
            Step::In(Inp::Cmd(Cmd::Set("k".into(), huge.clone()))),
            Step::In(Inp::Cmd(Cmd::Get("k".into()))),
            Step::In(Inp::Exec(vec![])),
            Step::In(Inp::Watch(vec!["k".into()])),
            Step::Other(Cmd::Append("k".into(), b("!"))),
            Step::In(Inp::Multi),
            Step::In(Inp::Cmd(Cmd::Get("n".into()))),
            Step::In(Inp::Exec(vec![])),
        ]));
        // --- class 4, configuration: every field of ConnectionConfig at its legal extremes, with a
        // transaction sent in ONE write that starts with / contains runs of GETs and SETs (the shapes
        // the batch collectors and the fast path look for)
        for read in [1usize, 2, 13, 14, 8192] {
            for (mpb, bt) in [(0usize, 0usize), (0, 1), (1, 2), (13, 2), (14, 1), (60, 2), (1 << 20, 64)] {
                let cfg = ConnectionConfig { max_buffer_size: 1 << 20, read_buffer_size: read, min_pipeline_buffer: mpb, batch_threshold: bt };
                v.push(("config:extremes", shards, Some(cfg), None, vec![
                    Step::Other(Cmd::Set("k".into(), b("5"))),
                    Step::Block(vec![
                        Inp::Cmd(Cmd::Get("k".into())),
                        Inp::Cmd(Cmd::Get("n".into())),
                        Inp::Cmd(Cmd::Get("x".into())),
                        Inp::Watch(vec!["k".into()]),
                        Inp::Multi,
                        Inp::Cmd(Cmd::Get("k".into())),
                        Inp::Cmd(Cmd::Get("n".into())),
                        Inp::Cmd(Cmd::Get("x".into())),
                        set("k", "6"),
                        set("n", "7"),
                        set("x", "8"),
                        Inp::Cmd(Cmd::Get("k".into())),
                        Inp::Exec(vec![]),
                    ]),
                    Step::Block(vec![
                        Inp::Cmd(Cmd::Get("k".into())),
                        Inp::Cmd(Cmd::Get("n".into())),
                        set("k", "9"),
                        set("n", "10"),
                        Inp::Cmd(Cmd::Get("k".into())),
                        Inp::Cmd(Cmd::Get("n".into())),
                    ]),
                    Step::In(Inp::Multi),
                    Step::Block(vec![
                        Inp::Cmd(Cmd::Get("k".into())),
                        Inp::Cmd(Cmd::Get("n".into())),
                        set("k", "a"),
                        set("n", "b"),
                        Inp::Discard,
                    ]),
                    Step::Block(vec![
                        Inp::Cmd(Cmd::Get("k".into())),
                        Inp::Cmd(Cmd::Get("n".into())),
                    ]),
                ]));
            }
        }
        // … and the buffer limit crossed between MULTI and EXEC: the connection answers an error
        // and closes; nothing of the transaction is applied
        let cfg = ConnectionConfig { max_buffer_size: 256, read_buffer_size: 64, min_pipeline_buffer: 60, batch_threshold: 2 };
        v.push(("config:buffer-overflow-in-multi", shards, Some(cfg), None, vec![
            Step::In(Inp::Multi),
            Step::In(set("k", "1")),
            Step::Overflow(b(&"y".repeat(600))),
            Step::In(Inp::Cmd(Cmd::Get("k".into()))),
        ]));
        // --- class 7, history shapes: many transactions on one connection, every way a
        // transaction can end followed by every other
        let mut hist: Vec<Step> = vec![Step::Other(Cmd::Set("k".into(), b("0")))];
        for round in 0..12 {
            match round % 4 {
                0 => {
                    hist.push(Step::In(Inp::Watch(vec!["k".into()])));
                    hist.push(Step::Other(Cmd::Incr("k".into())));
                }
                1 => hist.push(Step::In(Inp::Watch(vec!["n".into()]))),
                _ => {}
            }
            hist.push(Step::In(Inp::Multi));
            hist.push(Step::In(Inp::Cmd(Cmd::Incr("n".into()))));
            hist.push(Step::In(Inp::Cmd(Cmd::Append("x".into(), b("a")))));
            match round % 3 {
                0 => hist.push(Step::In(Inp::Exec(vec![]))),
                1 => hist.push(Step::In(Inp::Discard)),
                _ => {
                    hist.push(Step::In(Inp::Unk));
                    hist.push(Step::In(Inp::Exec(vec![])));
                }
            }
        }
        hist.push(Step::In(Inp::Multi));
        hist.push(Step::In(Inp::Cmd(Cmd::Get("n".into()))));
        hist.push(Step::In(Inp::Exec(vec![])));
        v.push(("history:twelve-transactions", shards, None, None, hist));
        // --- class 3 / arithmetic edge: the snapshot comparison must look at EVERY byte of a long
        // value: a watched string of 1 … 70 000 bytes is replaced by one of the SAME length that
        // differs in exactly one byte — the first, the middle, the last (a comparison that stops
        // after a prefix, a length-only comparison, a hash of a prefix all miss some of these).
        // Self-test: `resp_values_equal` comparing the first 4096 bytes only was missed before.
        let mut long = Vec::new();
        for len in [1usize, 2, 64, 4095, 4096, 4097, 8192, 16384, 65536, 70000] {
            let base: Vec<u8> = (0..len).map(|i| b'a' + (i % 23) as u8).collect();
            let mut poss = vec![0, len / 2, len - 1];
            poss.dedup();
            for pos in poss {
                let mut changed = base.clone();
                changed[pos] = b'Z';
                long.push(Step::Other(Cmd::Set("k".into(), base.clone())));
                long.push(Step::In(Inp::Watch(vec!["k".into()])));
                long.push(Step::Other(Cmd::Set("k".into(), changed)));
                long.push(Step::In(Inp::Multi));
                long.push(Step::In(Inp::Cmd(Cmd::Incr("n".into()))));
                long.push(Step::In(Inp::Exec(vec![])));
            }
            // … and the same value written again is NO change
            long.push(Step::Other(Cmd::Set("k".into(), base.clone())));
            long.push(Step::In(Inp::Watch(vec!["k".into()])));
            long.push(Step::Other(Cmd::Set("k".into(), base.clone())));
            long.push(Step::In(Inp::Multi));
            long.push(Step::In(Inp::Cmd(Cmd::Incr("n".into()))));
            long.push(Step::In(Inp::Exec(vec![])));
        }
        v.push(("alphabet:long-watched-value-differs-in-one-byte", shards, None, None, long));
    }
    v
}

// ---------------------------------------------------------------- part B: executor level

pub(crate) fn to_command(args: &[Vec<u8>]) -> Command {
    let mut buf = BytesMut::from(&frame(args)[..]);
    let v = RespCodec::parse(&mut buf).expect("resp").expect("complete");
    Command::from_resp_zero_copy(&v).expect("command")
}

fn xtyped(ex: &CommandExecutor, k: &str) -> Typed {
    match ex.get_data().get(k) {
        None => Typed::Missing,
        Some(Value::String(s)) => Typed::Str(s.as_bytes().to_vec()),
        Some(Value::List(l)) => Typed::List(l.range(0, -1).iter().map(|s| s.as_bytes().to_vec()).collect()),
        Some(Value::Hash(h)) => {
            let mut v: Vec<(Vec<u8>, Vec<u8>)> = h.get_all().iter().map(|(f, x)| (f.as_bytes().to_vec(), x.as_bytes().to_vec())).collect();
            v.sort_by(|a, b| bkey(&a.0, &b.0));
            Typed::Hash(v)
        }
        Some(Value::Set(m)) => {
            let mut v: Vec<Vec<u8>> = m.members().iter().map(|x| x.as_bytes().to_vec()).collect();
            v.sort_by(|a, b| bkey(a, b));
            Typed::Set(v)
        }
        Some(Value::SortedSet(z)) => {
            // read member by member through the accessors (NOT through `==` on the value)
            let mut v = Vec::new();
            for (m, sc) in z.range(0, -1) {
                if sc.fract() != 0.0 {
                    return Typed::Other(format!("non-integral score {}", sc));
                }
                v.push((m.as_bytes().to_vec(), sc as i64));
            }
            v.sort_by(|a, b| bkey(&a.0, &b.0));
            Typed::Zset(v)
        }
        Some(_) => Typed::Other("other".into()),
    }
}

fn xdump(ex: &CommandExecutor) -> Vec<(String, Typed)> {
    let mut keys: Vec<&str> = KEYS.to_vec();
    keys.sort_by(|a, b| key_cmp(a, b));
    keys.into_iter().map(|k| (k.to_string(), xtyped(ex, k))).collect()
}

#[derive(Clone)]
enum XStep {
    Watch(Vec<String>),
    Multi,
    Exec,
    Discard,
    Unwatch,
    Cmd(Cmd),
    /// PEXPIRE k 1, then time passes and the key is evicted (outside MULTI only)
    ExpireNow(String),
}

fn gen_xstep(rng: &mut Rng, in_multi: bool) -> XStep {
    let c = rng.below(100);
    if !in_multi {
        match c {
            0..=19 => XStep::Watch((0..rng.range(1, 2)).map(|_| key(rng)).collect()),
            20..=44 => XStep::Multi,
            45..=49 => XStep::Unwatch,
            50..=53 => XStep::Cmd(Cmd::Unk),
            54..=55 => XStep::Exec,
            56 => XStep::Discard,
            57..=58 => XStep::Cmd(Cmd::Expire(key(rng))),
            59 => XStep::Cmd(Cmd::Persist(key(rng), false)),
            60..=61 => XStep::ExpireNow(key(rng)),
            62..=70 => XStep::Cmd(gen_populate(rng)),
            _ => XStep::Cmd(gen_cmd(rng, false)),
        }
    } else {
        match c {
            0..=14 => XStep::Exec,
            15..=19 => XStep::Discard,
            20..=23 => XStep::Multi,
            24..=27 => XStep::Watch(vec!["k".into()]),
            45..=49 => XStep::Unwatch,
            50..=53 => XStep::Cmd(Cmd::Unk),
            _ => XStep::Cmd(gen_cmd(rng, false)),
        }
    }
}

/// one executor-level session on a REAL `CommandExecutor`, driven the way the shard actor drives
/// it (`set_time(now)` before every command, which evicts keys whose deadline passed)
fn xsession(out: &mut Out, rng: &mut Rng, script: Option<Vec<XStep>>, expect: Option<(&'static str, &'static str)>, matrix_label: Option<String>) {
    use redis_sim::simulator::VirtualTime;
    let mut ex = CommandExecutor::new();
    let mut twin = CommandExecutor::new();
    out.op("XNEW".into(), "ok".into());
    let mut in_multi = false;
    let mut queued: Vec<Vec<Vec<u8>>> = Vec::new();
    let mut watched: Vec<(String, Typed)> = Vec::new();
    let mut text: Vec<String> = Vec::new();
    let mut nontrivial = false;
    let mut last_exec: Option<String> = None;
    let mut last_changed = false;
    let mut now: u64 = 1000;
    let n_random = rng.range(6, 24);
    let mut script_it = script.map(|v| v.into_iter());
    let mut i = 0;
    loop {
        let step = match &mut script_it {
            Some(it) => match it.next() {
                Some(s) => s,
                None => break,
            },
            None => {
                if i >= n_random {
                    break;
                }
                gen_xstep(rng, in_multi)
            }
        };
        i += 1;
        now += 1;
        ex.set_time(VirtualTime::from_millis(now));
        twin.set_time(VirtualTime::from_millis(now));
        // (op line, frame)
        let (line, args): (String, Vec<Vec<u8>>) = match &step {
            XStep::Watch(ks) => {
                let mut a = vec![b("WATCH")];
                a.extend(ks.iter().map(|k| b(k)));
                (format!("X WATCH {} {}", ks.len(), ks.iter().map(|k| hex(k.as_bytes())).collect::<Vec<_>>().join(" ")), a)
            }
            XStep::Multi => ("X MULTI".into(), vec![b("MULTI")]),
            XStep::Exec => ("X EXEC".into(), vec![b("EXEC")]),
            XStep::Discard => ("X DISCARD".into(), vec![b("DISCARD")]),
            XStep::Unwatch => ("X UNWATCH".into(), vec![b("UNWATCH")]),
            XStep::Cmd(c) => {
                let c = match c {
                    Cmd::Persist(k, _) if !in_multi => {
                        let had = matches!(Rv::from_resp(&ex.execute(&cmd_of(&["TTL", k]))), Rv::Int(n) if n >= 0);
                        Cmd::Persist(k.clone(), had)
                    }
                    Cmd::Persist(k, _) => Cmd::Llen(k.clone()), // the flag cannot be observed inside MULTI
                    c => c.clone(),
                };
                (format!("X CMD {}", c.line()), c.args())
            }
            XStep::ExpireNow(k) => {
                if in_multi {
                    continue;
                }
                // PEXPIRE k 1 (model: EXPIRE, reply only); 10 ms pass; the next set_time evicts
                let r = Rv::from_resp(&ex.execute(&cmd_of(&["PEXPIRE", k, "1"])));
                twin.execute(&cmd_of(&["DEL", k]));
                text.push(format!("PEXPIRE {} 1; (10 ms pass)", k));
                out.op(format!("X CMD EXPIRE {}", hex(k.as_bytes())), show(&r, false));
                now += 10;
                ex.set_time(VirtualTime::from_millis(now));
                let gone = xtyped(&ex, k) == Typed::Missing;
                out.op(format!("XEVICT {}", hex(k.as_bytes())), if gone { "ok".into() } else { "not-evicted".into() });
                out.count("xinput:outside:expiry-passes");
                continue;
            }
        };
        let kind = line.split(' ').nth(1).unwrap().to_string();
        out.count(&format!("xinput:{}:{}", if in_multi { "in-multi" } else { "outside" }, kind));
        let before = xdump(&ex);
        // may-abort: some snapshot differs; must-abort: the FIRST snapshot of a key differs
        let changed: Vec<String> = watched.iter().filter(|(k, t0)| xtyped(&ex, k) != *t0).map(|(k, _)| k.clone()).collect();
        let must: Vec<(String, Typed, Typed)> = KEYS
            .iter()
            .filter_map(|k| watched.iter().find(|(w, _)| w == k))
            .filter(|(k, t0)| xtyped(&ex, k) != *t0)
            .map(|(k, t0)| (k.clone(), t0.clone(), xtyped(&ex, k)))
            .collect();
        // is every change hidden by a later WATCH of the same key (whose snapshot is current)?
        let only_rewatch = must.iter().all(|(k, _, _)| watched.iter().rev().find(|(w, _)| w == k).map(|(_, t)| *t == xtyped(&ex, k)).unwrap_or(false))
            && must.iter().any(|(k, _, _)| watched.iter().filter(|(w, _)| w == k).count() > 1);
        let cmd = to_command(&args);
        let r = match std::panic::catch_unwind(std::panic::AssertUnwindSafe(|| ex.execute(&cmd))) {
            Ok(r) => Rv::from_resp(&r),
            Err(_) => Rv::Err("?crash".into()),
        };
        text.push(args.iter().map(|a| String::from_utf8_lossy(a).to_string()).collect::<Vec<_>>().join(" "));
        out.op(line.clone(), show(&r, false));
        let after = xdump(&ex);
        let replay = json!({"level": "executor", "session": text});
        if !in_multi {
            match kind.as_str() {
                "MULTI" => {
                    in_multi = true;
                    queued.clear();
                }
                "WATCH" => {
                    for k in &args[1..] {
                        let k = String::from_utf8_lossy(k).to_string();
                        // strict: the value at EVERY earlier WATCH counts (Redis: re-watching a
                        // key is a no-op, the first watch stands)
                        let t = xtyped(&ex, &k);
                        out.count(&format!("xwatch:type:{}", kind_of(&t)));
                        watched.push((k, t));
                    }
                }
                "UNWATCH" => watched.clear(),
                "EXEC" | "DISCARD" => {}
                _ => {
                    twin.execute(&cmd);
                }
            }
            continue;
        }
        match kind.as_str() {
            "EXEC" => {
                in_multi = false;
                last_exec = Some(show(&r, false));
                last_changed = !must.is_empty();
                nontrivial |= !queued.is_empty() || !watched.is_empty();
                match &r {
                    Rv::Bulk(None) => {
                        out.count("xexec:nil");
                        if changed.is_empty() {
                            out.violation("C05:x:watch:spurious-abort", "executor EXEC answered nil although no watched key changed", replay.clone());
                        }
                        if after != before {
                            out.violation("C05:x:watchfail:store-changed", "executor EXEC aborted by WATCH changed the store", replay.clone());
                        }
                    }
                    Rv::Arr(Some(results)) => {
                        out.count("xexec:results");
                        if let Some((k, t0, t1)) = must.first() {
                            // the executor compares whole values: NO change of any type may be missed
                            let sig = if only_rewatch {
                                "C05:x:watch:rewatch-forgets-earlier-change".to_string()
                            } else {
                                format!("C05:x:watch:change-undetected:{}-to-{}", kind_of(t0), kind_of(t1))
                            };
                            out.violation(&sig, &format!("executor EXEC succeeded ({}) although watched key '{}' changed from {:?} (at WATCH) to {:?} (at EXEC)", show(&r, false), k, t0, t1), replay.clone());
                        }
                        if results.len() != queued.len() {
                            out.violation("C05:x:exec:result-count", &format!("{} results for {} queued commands", results.len(), queued.len()), replay.clone());
                        }
                        for (i, q) in queued.iter().enumerate() {
                            let e = show(&Rv::from_resp(&twin.execute(&to_command(q))), false);
                            let a = results.get(i).map(|x| show(x, false)).unwrap_or("<none>".into());
                            if a != e {
                                out.violation("C05:x:exec:result-differs-from-sequential", &format!("queued command {}: {} vs {} outside MULTI", i, a, e), replay.clone());
                            }
                        }
                        if xdump(&twin) != after {
                            out.violation("C05:x:exec:store-differs-from-sequential", "executor store after EXEC differs from the consecutive run", replay.clone());
                        }
                    }
                    o => out.violation("C05:x:exec:unexpected-reply", &format!("executor EXEC answered {}", show(o, false)), replay.clone()),
                }
                queued.clear();
                watched.clear();
                out.op("XDUMP".into(), show_dump(&after));
            }
            "DISCARD" => {
                in_multi = false;
                queued.clear();
                watched.clear();
                out.count("xdiscard");
                if after != before {
                    out.violation("C05:x:discard:store-changed", "executor DISCARD changed the store", replay.clone());
                }
            }
            _ => {
                if r == Rv::Simple("QUEUED".into()) {
                    queued.push(args.clone());
                } else if !r.is_err() {
                    out.violation("C05:x:queued:has-result", &format!("executor answered {} between MULTI and EXEC", show(&r, false)), replay.clone());
                }
                if after != before {
                    out.violation("C05:x:queued:has-effect", "a command between MULTI and EXEC changed the executor's store", replay.clone());
                }
            }
        }
    }
    if let Some((sig, want)) = expect {
        if last_exec.as_deref() == Some(want) {
            out.count(&format!("corpus:witness-passes:{}", sig));
        } else {
            out.violation(
                &format!("C05:witness-fails:{}", sig),
                &format!("fixed executor-level witness: EXEC answered {:?}, expected {}", last_exec, want),
                json!({"level": "executor", "session": text}),
            );
        }
    }
    if let Some(l) = matrix_label {
        let outcome = match last_exec.as_deref() {
            Some("$-") => "aborted",
            Some(r) if r.starts_with('*') => "proceeded",
            _ => "other",
        };
        out.count(&format!("watchmatrix:executor:{}:{}:value-{}", l, outcome, if last_changed { "changed" } else { "same" }));
    }
    out.op("XDUMP".into(), show_dump(&xdump(&ex)));
    out.case(&format!("x|{}", text.join(";")), nontrivial);
}

fn kind_of(t: &Typed) -> &'static str {
    kind(t)
}

fn xcorpus() -> Vec<(Vec<XStep>, Option<(&'static str, &'static str)>)> {
    let c = XStep::Cmd;
    vec![
        // the list-key WATCH that the connection level misses is detected here
        (vec![c(Cmd::Rpush("w".into(), vec![b("1")])), XStep::Watch(vec!["w".into()]), c(Cmd::Rpush("w".into(), vec![b("2")])), XStep::Multi, c(Cmd::Set("x".into(), b("1"))), XStep::Exec],
         Some(("C05:x:watch:list-change-detected", "$-"))),
        // x_rewatch_forgets_change_pinned_counterexample — repaired: EXEC must answer nil
        (vec![c(Cmd::Set("k".into(), b("0"))), XStep::Watch(vec!["k".into()]), c(Cmd::Set("k".into(), b("1"))), XStep::Watch(vec!["k".into()]), XStep::Multi, c(Cmd::Get("k".into())), XStep::Exec],
         Some(("C05:x:watch:rewatch-forgets-earlier-change", "$-"))),
        // x_score_blind_equality_counterexample / seeded C05-zset-eq-ignores-scores: the score of
        // a member changes, the rank order does not (board = "ab", winner = "w")
        (vec![c(Cmd::Zadd("ab".into(), 10, b("alice"))), c(Cmd::Zadd("ab".into(), 20, b("bob"))), c(Cmd::Set("w".into(), b("nobody"))),
              XStep::Watch(vec!["ab".into()]), c(Cmd::Zadd("ab".into(), 15, b("alice"))), XStep::Multi,
              c(Cmd::Set("w".into(), b("bob"))), c(Cmd::Zadd("ab".into(), 0, b("alice"))), XStep::Exec],
         Some(("C05:x:watch:zset-score-only-change-detected", "$-"))),
        // machines_differ_on_rewatch_counterexample, executor side: the first snapshot stands
        (vec![c(Cmd::Set("k".into(), b("0"))), XStep::Watch(vec!["k".into()]), c(Cmd::Set("k".into(), b("1"))), XStep::Watch(vec!["k".into()]), c(Cmd::Set("k".into(), b("0"))), XStep::Multi, XStep::Exec],
         Some(("C05:machines-differ:rewatch:executor-keeps-first-snapshot", "*0"))),
        // … and in a one-member sorted set
        (vec![c(Cmd::Zadd("ab".into(), 10, b("alice"))), XStep::Watch(vec!["ab".into()]), c(Cmd::Zadd("ab".into(), 11, b("alice"))), XStep::Multi, c(Cmd::Set("w".into(), b("x"))), XStep::Exec],
         Some(("C05:x:watch:zset-score-only-change-detected", "$-"))),
        // a long watched string replaced by one of the same length that differs in ONE byte
        // (first / middle / last), lengths around every plausible internal limit
        ({
            let mut v = Vec::new();
            for len in [1usize, 2, 64, 4095, 4096, 4097, 8192, 65536, 70000] {
                let base: Vec<u8> = (0..len).map(|i| b'a' + (i % 23) as u8).collect();
                let mut poss = vec![0, len / 2, len - 1];
                poss.dedup();
                for pos in poss {
                    let mut changed = base.clone();
                    changed[pos] = b'Z';
                    v.extend([c(Cmd::Set("k".into(), base.clone())), XStep::Watch(vec!["k".into()]), c(Cmd::Set("k".into(), changed)), XStep::Multi, c(Cmd::Incr("n".into())), XStep::Exec]);
                }
            }
            v
        }, Some(("C05:x:watch:one-byte-change-of-a-long-value-detected", "$-"))),
    ]
}

/// the coverage self-audit against the eleven miss classes (DESIGN.md §4 C05 "Coverage audit")
const AUDIT: &str = r####"{
 "1 entry paths": "CLOSED: the match arms of the handler's two transaction blocks, of execute_connection_level, of the executor's queueing prologue, the stub names, the functions of transaction_ops.rs, the files of src/ that mention transaction state and the command loops a MULTI can reach are READ FROM THE SOURCE the binary was built against (c05x::source_scan) and compared with the table of what is driven: a new arm / stub / file / front end fails the check (C05:coverage:…:not-driven / …:gone / scan-failed). Every arm is driven: decision table extracted cell by cell from the real handler (15 reachable state classes × 26 inputs over the 11 input classes; TBL op against the model's table), every connection-level arm and stub inside EXEC vs outside (connection_level_sweep), every Command variant queued and EXECed on a real executor vs outside (executor_variant_sweep, C17's exhaustive all_variants). Front ends: production handler (H1), CommandExecutor, SimulationHarness and RedisServer (one executor for all clients: model Txn.xsharedRun), ReplicatedShardedState::execute = the loop of server_persistent (model Txn.rstep), SimulatedConnection (cannot carry MULTI: probed). OPEN: the ACL check of queued commands (feature `acl` off in the harness build: inside MULTI the handler performs no ACL check at all, neither at queue time nor at EXEC — noted, not driven); Maelstrom adapters (never build a transaction command).",
 "2 input alphabet": "CLOSED: watched / written keys: empty key, a key that is not UTF-8 on the wire (0xFF → U+FFFD in WATCH, in the data commands and in the store alike), CR LF and blanks inside / before / after a key (next to the same key without them), keys that differ only in case, 300-byte key, multi-byte UTF-8; values: empty, binary incl. CR LF / NUL / 0xFF, 70 000 bytes (beyond the duplex and read buffers), integers at the i64 limit, non-canonical integers; all five value types as watched keys (WATCH matrix); protocol garbage. OPEN: keys that differ only in invalid bytes collapse onto one key (lossy conversion) — the same in every path, C16's subject.",
 "3 comparisons at equality": "CLOSED: resp_values_equal on every GET-reply pair that can occur (nil / bytes / WRONGTYPE × same / same length / different length: matrix rows same-value-rewrite, same-length-replacement, change-and-change-back, delete-recreate); executor-level Value equality per type incl. score-only changes; queue length 0 / 1 / 2 / 3000; deadline of a watched key 1 ms before / exactly at / 1 ms after the EXEC instant (executor level, evicting and lazy clock); transaction_errors with 0 / 1 / several refused inputs; buffer length just below / at / above min_pipeline_buffer (13 / 14 / 60 with 13- and 14-byte reads).",
 "4 configuration": "CLOSED: every field of ConnectionConfig is generated input (1 in 4 random sessions + 70 scripted ones): read_buffer_size 1 / 2 / 7 / 13 / 14 / 16 / 64 / 8192 (frames split at every byte), min_pipeline_buffer 0 / 1 / 13 / 14 / 60 / 2^20, batch_threshold 0 / 1 / 2 / 3 / 64, max_buffer_size 256 / 2^20 / default, with transactions sent in one write that begin with and contain runs of GETs and SETs (the shapes the batch collectors and the fast path look for: they must stay out of a transaction); shard counts 1 and 4. OPEN: ACL configuration (feature off), TLS.",
 "5 capacity thresholds": "CLOSED: queue of 3000 commands filled 64 per write (beyond read buffer, duplex buffer and any Vec growth step), EXEC reply of 3000 results; 300 keys in one WATCH and 200 further WATCH commands (snapshot list of 500 entries, one awaited GET each at EXEC); 70 000-byte value inside a transaction; max_buffer_size crossed between MULTI and EXEC (error reply, connection closed, nothing applied).",
 "6 fault kinds": "CLOSED: connection closed between MULTI and EXEC (clean, and with half a frame written), closed by the server for buffer overflow, protocol error between MULTI and EXEC and outside (error reply, buffer dropped, transaction flagged since fix 6b9d6a7: Txn.stepFixed, error_reply_flags_fixed; the pinned behaviour stays as protocol_error_not_flagged_counterexample), run-time failing commands inside EXEC (WRONGTYPE, not an integer, overflow, no such key), refused inputs (unknown command, arity error, channel stub), a reply that never comes (20 s timeout → named outcome). OPEN: a shard actor that dies mid-EXEC (`ERR shard response failed`) — no way to kill an actor from outside.",
 "7 history shapes": "CLOSED: twelve transactions in a row on one connection ending in every way (EXEC, DISCARD, EXECABORT, WATCH abort) followed by every other; re-WATCH of a watched key; WATCH carried across a failed DISCARD / EXEC outside MULTI; a transaction abandoned by a closed connection followed by a fresh connection; expired-but-unevicted watched key at the executor level (lazy clock: recorded, see assumptions); delete-and-recreate, change-and-change-back, type change; emptied-then-refilled collections.",
 "8 node-global state": "CLOSED: the shard executors' own transaction state is node-global and is reached by no path of the production handler (source scan: the handler intercepts MULTI / EXEC / DISCARD / WATCH; a queued UNWATCH reaches shard 0 and finds nothing) but IS the state that SimulationHarness / RedisServer / the replicated front end expose (driven; two known findings); the script cache (EVAL / SCRIPT LOAD / EVALSHA inside EXEC vs outside); the ACL manager (ACL SETUSER / DELUSER inside EXEC vs outside); the wall clock (TTL flags after EXEC vs the twin). OPEN: metrics counters (not observable by a client).",
 "9 observations": "CLOSED: every reply of every input, the typed value of every key of the session after every EXEC / DISCARD / close (member by member), which keys carry a deadline after EXEC vs the sequential twin (C05:exec:ttl-differs-from-sequential), the NEXT state of the machine after every (state, input) pair — observed through probes (queue length, error flag, whether the old and the newly named keys are still watched). OPEN: exact TTL values (wall clock), INFO counters.",
 "10 finding signatures": "CLOSED (§10.6) and extended: the two new findings are keyed by cause — the shared-executor finding fires only when the result count is exactly own + captured-foreign with the model predicting each reply; the replicated finding only after a MULTI answered `unknown command` with the command answered in the plain; everything else gets its own signature (C05:x:shared:exec-result-count, C05:replicated-frontend:queued-command-changed-the-store, C05:x:sweep:…, C05:exec:sweep:…, C05:close:…, C05:overflow:…, C05:table:…).",
 "session 4": "the machines over the M7 REFERENCE executor (Model/Txn7.lean, Props/C05M7.lean; ops `M …`, harness c05m7.rs): bodies, watched keys and foreign commands drawn from ~100 frame templates of the whole command set of Model/Redis.lean (strings, counters, lists, sets, hashes, sorted sets, two-key and multi-key commands, expiry commands with far / reached deadlines), parsed by the REAL parser for the model's op text; connection level through H1 on 1 and 4 shards with foreign commands before WATCH / between WATCH and MULTI / between MULTI and EXEC / during EXEC (lock step) and a deadline of a watched key (every type) made to pass between WATCH and EXEC; executor level on a VIRTUAL clock with C01's full timed generator inside MULTI / EXEC (deadlines just before / at / just past the instant of EXEC, time passing between WATCH, MULTI and EXEC); twin oracle (results, store, nil ⇔ typed value changed, serializability when the foreign keys are disjoint). Schedules: ALL placements of one and of two foreign commands among the await points of EXEC for six bodies with 2–3 store accesses on 1 and 4 shards (1068 per run; two commands in one slot via two lock-step connections) — Props/C05Sched.lean proves the placements are the whole schedule space. OPEN: M7 sessions avoid GETSET / SPOP / RANDOMKEY / non-UTF-8 members (C01's conformance findings and relational replies); exact TTL values are compared at the executor level only; truly parallel shard actors are not driven",
 "11 harness fragility": "CLOSED: the source tree is found through the harness's own Cargo.toml (never a hard-coded /repo); a scan that does not find its anchors is a violation (scan-failed); every WATCH-matrix cell and every decision-table cell must have been driven exactly once (C05:harness:empty-cell, C05:table:empty-cell, probe-unreadable); a reply that never comes is a named outcome; executor calls under catch_unwind report `crash`; the panics of the sweeps are violations, not skips. OPEN: a panic inside a spawned connection task shows as `?connection closed` (compared, so not silent)."
}"####;

pub fn run(a: &Args) {
    let mut out = Out::new(&a.out);
    let mut rng = Rng::new(a.seed);
    out.op(format!("G proto-flags {}", CODE_PROTO_ERROR_FLAGS as u8), "ok".into());
    let rt = tokio::runtime::Builder::new_current_thread().enable_all().build().unwrap();
    rt.block_on(async {
        for (shards, steps) in corpus() {
            session(&mut out, &mut Rng::new(0xC05), Some((shards, steps))).await;
        }
    });
    for (script, expect) in xcorpus() {
        xsession(&mut out, &mut Rng::new(0xC05), Some(script), expect, None);
    }
    // the source-derived coverage tables, the other front ends, the variant sweeps
    crate::c05x::source_scan(&mut out);
    crate::c05x::simulated_connection(&mut out);
    crate::c05x::connection_level_sweep(&mut out);
    crate::c05x::executor_variant_sweep(&mut out, &mut Rng::new(0xC05));
    crate::c05x::executor_lazy_clock_probe(&mut out);
    crate::c05x::shared_executor(&mut out, &mut rng.fork(), a.n / 8);
    crate::c05x::replicated_frontend(&mut out, &mut rng.fork(), (a.n / 40).min(2000));
    // audit corpus: faults, capacity, alphabet, configuration, histories
    let rt = tokio::runtime::Builder::new_current_thread().enable_all().build().unwrap();
    rt.block_on(async {
        for (label, shards, cfg, keys, steps) in audit_corpus() {
            out.count(&format!("audit-corpus:{}", label));
            session_full(&mut out, &mut Rng::new(0xC05), Some((shards, steps)), None, cfg, keys).await;
        }
    });
    drop(rt);
    // every placement of ≤ 2 foreign commands among EXEC's await points, small bodies
    {
        let t0 = std::time::Instant::now();
        let mut n_pl = 0usize;
        for shards in [1usize, 4] {
            let rt = tokio::runtime::Builder::new_current_thread().enable_all().build().unwrap();
            n_pl += rt.block_on(schedule_enumeration(&mut out, shards));
            drop(rt);
        }
        // 2 bodies with 2 accesses: 3·3 + 9·6 = 63 each; 4 bodies with 3 accesses: 3·4 + 9·10 = 102 each
        let want = 2 * (2 * 63 + 4 * 102);
        out.extra.insert("schedule_enumeration".into(), json!({"placements_run": n_pl, "expected": want, "bodies": 6, "foreign_commands": 3, "max_foreign_per_exec": 2, "shards": [1, 4], "theorem": "RedisVerif.C05.placements_cover"}));
        if n_pl != want {
            out.violation("C05:harness:schedule-enumeration-incomplete", &format!("{} placements run, {} expected", n_pl, want), json!({"run": n_pl, "expected": want}));
        }
        eprintln!("schedule enumeration: {} placements in {:?}", n_pl, t0.elapsed());
    }
    // the decision table of the connection-level machine, extracted from the real handler cell by
    // cell (every reachable state class × every input class, several representatives per class)
    let mut n_cells = 0usize;
    for shards in [1usize, 4] {
        let rt = tokio::runtime::Builder::new_current_thread().enable_all().build().unwrap();
        rt.block_on(async {
            for st in cell_states() {
                for (icls, label, inp) in cell_inputs() {
                    // 4 shards: one representative per input class is enough (the state machine
                    // does not look at the shard count); 1 shard: all of them
                    if shards == 4 && !(label == "MULTI" || label == "EXEC" || label == "DISCARD" || label == "UNWATCH" || label == "WATCH k n" || label == "MSET k 1 n 2" || label == "FOO a" || label == "PUBLISH c m" || label == "protocol error" || label == "AUTH x" || label.starts_with("arity error: GET")) {
                        continue;
                    }
                    table_cell(&mut out, shards, &st, icls, &label, &inp).await;
                    n_cells += 1;
                }
            }
        });
        drop(rt);
    }
    out.extra.insert("decision_table_cells_driven".into(), json!(n_cells));
    // the WATCH matrix: every (level × type of the watched key × modification), each as one
    // scripted session `setup; WATCH w; modification (other client / plain commands); MULTI;
    // SET x 1; EXEC`
    let rt = tokio::runtime::Builder::new_current_thread().enable_all().build().unwrap();
    rt.block_on(async {
        for (ty, setup, label, mods) in matrix() {
            for shards in [1usize, 4] {
                let mut steps: Vec<Step> = setup.iter().cloned().map(Step::Other).collect();
                steps.push(Step::In(Inp::Watch(vec!["w".into()])));
                for m in &mods {
                    steps.push(match m {
                        Mod::C(c) => Step::Other(c.clone()),
                        Mod::ExpireNow => Step::ExpireNow("w".into()),
                    });
                }
                steps.push(Step::In(Inp::Multi));
                steps.push(Step::In(Inp::Cmd(Cmd::Set("x".into(), b("1")))));
                steps.push(Step::In(Inp::Exec(vec![])));
                session_labelled(&mut out, &mut Rng::new(0xC05), Some((shards, steps)), Some(format!("{}:{}", ty, label))).await;
            }
        }
    });
    drop(rt);
    for (ty, setup, label, mods) in matrix() {
        let mut steps: Vec<XStep> = setup.iter().cloned().map(XStep::Cmd).collect();
        steps.push(XStep::Watch(vec!["w".into()]));
        for m in &mods {
            steps.push(match m {
                Mod::C(c) => XStep::Cmd(c.clone()),
                Mod::ExpireNow => XStep::ExpireNow("w".into()),
            });
        }
        steps.push(XStep::Multi);
        steps.push(XStep::Cmd(Cmd::Set("x".into(), b("1"))));
        steps.push(XStep::Exec);
        xsession(&mut out, &mut Rng::new(0xC05), Some(steps), None, Some(format!("{}:{}", ty, label)));
    }
    // no silently empty cell: every (level × type × modification) of the WATCH matrix and every
    // cell of the decision table must have been counted exactly once
    {
        let mut missing = Vec::new();
        for (ty, _, label, _) in matrix() {
            for level in ["connection-1shard", "connection-4shard", "executor"] {
                let prefix = format!("watchmatrix:{}:{}:{}:", level, ty, label);
                let n: u64 = out.dist.iter().filter(|(k, _)| k.starts_with(&prefix)).map(|(_, v)| *v).sum();
                if n != 1 {
                    missing.push(format!("{} ({} outcomes)", prefix, n));
                }
            }
        }
        let want_cells = cell_states().len() * cell_inputs().len();
        let got_1shard = out.extra.get("decision_table_extracted_from_the_real_handler:1shard").and_then(|v| v.as_object()).map(|m| m.len()).unwrap_or(0);
        if got_1shard != want_cells {
            missing.push(format!("decision table: {} of {} cells extracted on 1 shard", got_1shard, want_cells));
        }
        if !missing.is_empty() {
            out.violation("C05:harness:empty-cell", &format!("cells of the WATCH matrix / decision table that were not driven exactly once: {:?}", missing), json!({"cells": missing}));
        }
    }
    out.extra.insert("audit".into(), serde_json::from_str(AUDIT).expect("audit json"));
    // the machines over the M7 reference executor: the whole command set, deadlines, the clock
    crate::c05m7::run(&mut out, &mut rng.fork(), a.n / 8);
    // a fresh runtime every 200 sessions: the shard actors of finished sessions go away with it
    let mut done = 0;
    while done < a.n {
        let rt = tokio::runtime::Builder::new_current_thread().enable_all().build().unwrap();
        let chunk = (a.n - done).min(200);
        rt.block_on(async {
            for _ in 0..chunk {
                let mut r = rng.fork();
                session(&mut out, &mut r, None).await;
            }
        });
        done += chunk;
    }
    for _ in 0..a.n / 2 {
        let mut r = rng.fork();
        xsession(&mut out, &mut r, None, None, None);
    }
    out.finish("case = one session. Part A: 6..24 steps on REAL connection handlers (hook H1) sharing one ShardedActorState (1 or 4 shards): modelled client inputs (WATCH, MULTI, data commands GET/SET/INCR/APPEND/DEL/RPUSH/LRANGE/LLEN/PING on 6 keys holding strings (integers, non-integers), lists, hashes, sets and sorted sets (LSET LPOP HSET HDEL SADD SREM ZADD ZREM, EXPIRE / PERSIST, deadlines that pass), run-time failing commands, unknown commands, arity errors, nested MULTI, WATCH in MULTI, EXEC/DISCARD without MULTI, UNWATCH, connection-level commands AUTH/ACL WHOAMI/RESET/CLIENT SETNAME, PUBLISH) interleaved with the other client's writes before WATCH, between WATCH and MULTI, between MULTI and EXEC, and during EXEC (pipeline in lock step with EXEC's store accesses: sampled schedule); part B: 6..24 inputs on a REAL CommandExecutor driven like the shard actor (set_time before every command); first of all the WATCH matrix: every (level: connection 1 shard | connection 4 shards | executor) × (type of the watched key) × (modification) as one scripted session, counted as watchmatrix:<level>:<type>:<modification>:<aborted|proceeded>:value-<changed|same>. Distinct by the full session text; non-trivial iff it contains an EXEC inside MULTI that had a non-empty queue or a watched key. Part M7 (c05m7.rs): the same two levels with bodies / watched keys / foreign commands from the whole command set of the M7 reference model (connection level: 8..26 steps, time-robust frames, wall clock; executor level: 8..30 steps, virtual clock, C01's timed generator); schedule enumeration: one session per placement of ≤ 2 foreign commands among EXEC's await points for six small bodies");
}
