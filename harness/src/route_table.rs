//! The ROUTING TABLE of `ShardedActorState::execute` — which shards get a message for which `Command`
//! variant — derived on every run from the BINARY and from the SOURCE the harness was built against,
//! and compared with the model's table (`lean/RedisVerif/Model/RouteTable.lean`, proved to be the
//! routing of the sharding model by `Props/RouteTable.lean`):
//!
//! * `ROUTETABLE`: for every variant a probe command whose String / Vec fields hold pairwise distinct
//!   values is built and `Command::get_primary_key()` of the BINARY is asked which one it returns
//!   (`field<i>` / `first-of-field<i>` / `none`); the model answers with the `sel` column of its table.
//! * `ROUTEPROBE`: the probe is executed on a fresh 4-shard instance on which shard `i` holds `2^i`
//!   expired-but-unevicted keys; every shard that receives a message adopts the clock and evicts them
//!   (`set_time`), so the count `evict_expired_all_shards()` returns afterwards says exactly which shards
//!   did NOT get one.  The model answers with `recvOf` of its row on the same fields.  Vec fields are
//!   probed with 0, 1, 2 and 3 elements (fan-out thresholds), keys on different shards.
//! * `ROUTEARMS`: the variants that have an arm of their own in `execute` (source scan, build.rs)
//!   against the rows of the model that are not default-arm rows.
//! A variant without a probe, a probe whose shape is not the variant's declared fields, a failed scan
//! are violations of their own (`C03:route-table:*`).
use crate::c03::{new_state_ctx, set_now, Ctx};
use crate::enc::hex;
use crate::out::Out;
use redis_sim::redis::{Command, SDS};
use serde_json::json;
use std::collections::{BTreeMap, BTreeSet};

include!(concat!(env!("OUT_DIR"), "/route_gen.rs"));
include!(concat!(env!("OUT_DIR"), "/command_api_gen.rs"));

const N: usize = 4;

/// one field of a probe, in declaration order
#[derive(Clone, Debug)]
enum F {
    /// a `String` / `Some(String)` field
    S(String),
    /// a `Vec<String>` field
    V(Vec<String>),
    /// the keys of a `Vec<(String, SDS)>` field
    P(Vec<String>),
    /// any other field
    X,
}

struct Probe {
    variant: &'static str,
    fields: Vec<F>,
    cmd: Command,
}

fn sd(v: &str) -> SDS {
    SDS::new(v.as_bytes().to_vec())
}

/// fresh distinct keys with chosen homes
struct Keys<'a> {
    ctx: &'a Ctx,
    next: usize,
}

impl<'a> Keys<'a> {
    /// a new key whose home (of `N` shards) is `shard`
    fn on(&mut self, shard: usize) -> String {
        loop {
            let k = format!("rt{}", self.next);
            self.next += 1;
            if self.ctx.gen(k.as_bytes(), N) == shard % N {
                return k;
            }
        }
    }
    /// `len` keys; the first on shard 1, the second on shard 3, the third on shard 1 again, then 2
    fn vec(&mut self, len: usize) -> Vec<String> {
        [1usize, 3, 1, 2].iter().take(len).map(|s| self.on(*s)).collect()
    }
}

fn variant_of(c: &Command) -> String {
    format!("{:?}", c).chars().take_while(|c| c.is_alphanumeric()).collect()
}

/// one probe per variant; `len` = number of elements of every Vec field.  String fields get keys on
/// shards 1, 2, 3, 0 in field order, so that routing by another field than the model's shows.
fn probes(ctx: &Ctx, len: usize) -> Vec<Probe> {
    let mut ks = Keys { ctx, next: 0 };
    let mut v: Vec<Probe> = Vec::new();
    let mut add = |variant: &'static str, fields: Vec<F>, cmd: Command| v.push(Probe { variant, fields, cmd });
    macro_rules! k1 {
        ($name:literal, $mk:expr) => {{
            let a = ks.on(1);
            add($name, vec![F::S(a.clone())], $mk(a));
        }};
    }
    macro_rules! k1x {
        ($name:literal, $nx:expr, $mk:expr) => {{
            let a = ks.on(1);
            let mut f = vec![F::S(a.clone())];
            for _ in 0..$nx {
                f.push(F::X);
            }
            add($name, f, $mk(a));
        }};
    }
    k1!("Get", Command::Get);
    k1x!("Set", 9, |a| Command::set(a, sd("v")));
    k1x!("Append", 1, |a| Command::Append(a, sd("v")));
    k1x!("GetSet", 1, |a| Command::GetSet(a, sd("v")));
    k1!("StrLen", Command::StrLen);
    {
        let l = ks.vec(len);
        add("MGet", vec![F::V(l.clone())], Command::MGet(l));
        let l = ks.vec(len);
        add("MSet", vec![F::P(l.clone())], Command::MSet(l.iter().map(|k| (k.clone(), sd("v"))).collect()));
        let l = ks.vec(len);
        add("MSetNx", vec![F::P(l.clone())], Command::MSetNx(l.iter().map(|k| (k.clone(), sd("v"))).collect()));
        let l = ks.vec(len);
        add("BatchSet", vec![F::P(l.clone())], Command::BatchSet(l.iter().map(|k| (k.clone(), sd("v"))).collect()));
        let l = ks.vec(len);
        add("BatchGet", vec![F::V(l.clone())], Command::BatchGet(l));
    }
    k1x!("GetRange", 2, |a| Command::GetRange(a, 0, -1));
    k1x!("SetRange", 2, |a| Command::SetRange(a, 1, sd("z")));
    k1x!("SetBit", 2, |a| Command::SetBit(a, 7, 1));
    k1x!("GetBit", 1, |a| Command::GetBit(a, 2));
    k1x!("GetEx", 5, |a| Command::GetEx { key: a, ex: None, px: None, exat: None, pxat: None, persist: false });
    k1!("GetDel", Command::GetDel);
    k1!("Incr", Command::Incr);
    k1!("Decr", Command::Decr);
    k1x!("IncrBy", 1, |a| Command::IncrBy(a, 3));
    k1x!("DecrBy", 1, |a| Command::DecrBy(a, 3));
    k1x!("IncrByFloat", 1, |a| Command::IncrByFloat(a, 1.5));
    {
        let l = ks.vec(len);
        add("Del", vec![F::V(l.clone())], Command::Del(l));
        let l = ks.vec(len);
        add("Exists", vec![F::V(l.clone())], Command::Exists(l));
    }
    k1!("TypeOf", Command::TypeOf);
    {
        // KEYS: its String field is a PATTERN, not a key
        let p = ks.on(2);
        add("Keys", vec![F::S(p.clone())], Command::Keys(p));
    }
    add("FlushDb", vec![], Command::FlushDb);
    add("FlushAll", vec![], Command::FlushAll);
    k1x!("Expire", 5, |a| Command::Expire { key: a, seconds: 100, nx: false, xx: false, gt: false, lt: false });
    k1x!("ExpireAt", 1, |a| Command::ExpireAt(a, 4_000_000_000));
    k1x!("PExpire", 5, |a| Command::PExpire { key: a, milliseconds: 100_000, nx: false, xx: false, gt: false, lt: false });
    k1x!("PExpireAt", 1, |a| Command::PExpireAt(a, 4_000_000_000_000));
    k1!("Ttl", Command::Ttl);
    k1!("Pttl", Command::Pttl);
    k1!("ExpireTime", Command::ExpireTime);
    k1!("PExpireTime", Command::PExpireTime);
    k1!("Persist", Command::Persist);
    add("Wait", vec![F::X, F::X], Command::Wait(0, 0));
    add("Time", vec![], Command::Time);
    {
        let a = ks.on(1);
        let b = ks.on(2);
        add("Sort", vec![F::S(a.clone()), F::S(b.clone())], Command::Sort { key: a, store: Some(b) });
    }
    k1x!("LPush", 1, |a| Command::LPush(a, vec![sd("e")]));
    k1x!("RPush", 1, |a| Command::RPush(a, vec![sd("e")]));
    k1!("LPop", Command::LPop);
    k1!("RPop", Command::RPop);
    k1!("LLen", Command::LLen);
    k1x!("LIndex", 1, |a| Command::LIndex(a, 0));
    k1x!("LRange", 2, |a| Command::LRange(a, 0, -1));
    k1x!("LSet", 2, |a| Command::LSet(a, 0, sd("e")));
    k1x!("LTrim", 2, |a| Command::LTrim(a, 0, 1));
    {
        let a = ks.on(1);
        let b = ks.on(2);
        add("RPopLPush", vec![F::S(a.clone()), F::S(b.clone())], Command::RPopLPush(a, b));
        let a = ks.on(1);
        let b = ks.on(2);
        // `wherefrom` / `whereto` are Strings too: their "homes" are those of the words themselves
        add(
            "LMove",
            vec![F::S(a.clone()), F::S(b.clone()), F::S("LEFT".into()), F::S("RIGHT".into())],
            Command::LMove { source: a, dest: b, wherefrom: "LEFT".into(), whereto: "RIGHT".into() },
        );
    }
    k1x!("SAdd", 1, |a| Command::SAdd(a, vec![sd("m")]));
    k1x!("SRem", 1, |a| Command::SRem(a, vec![sd("m")]));
    k1!("SMembers", Command::SMembers);
    k1x!("SIsMember", 1, |a| Command::SIsMember(a, sd("m")));
    k1!("SCard", Command::SCard);
    k1x!("SPop", 1, |a| Command::SPop(a, None));
    k1x!("HSet", 1, |a| Command::HSet(a, vec![(sd("f"), sd("v"))]));
    k1x!("HGet", 1, |a| Command::HGet(a, sd("f")));
    k1x!("HDel", 1, |a| Command::HDel(a, vec![sd("f")]));
    k1!("HGetAll", Command::HGetAll);
    k1!("HKeys", Command::HKeys);
    k1!("HVals", Command::HVals);
    k1!("HLen", Command::HLen);
    k1x!("HExists", 1, |a| Command::HExists(a, sd("f")));
    k1x!("HIncrBy", 2, |a| Command::HIncrBy(a, sd("f"), 1));
    k1x!("ZAdd", 6, |a| Command::ZAdd { key: a, pairs: vec![(1.0, sd("m"))], nx: false, xx: false, gt: false, lt: false, ch: false });
    k1x!("ZRem", 1, |a| Command::ZRem(a, vec![sd("m")]));
    k1x!("ZRange", 3, |a| Command::ZRange(a, 0, -1, false));
    k1x!("ZRevRange", 3, |a| Command::ZRevRange(a, 0, -1, false));
    k1x!("ZScore", 1, |a| Command::ZScore(a, sd("m")));
    k1x!("ZRank", 1, |a| Command::ZRank(a, sd("m")));
    k1!("ZCard", Command::ZCard);
    {
        let a = ks.on(1);
        add("ZCount", vec![F::S(a.clone()), F::S("(1".into()), F::S("(2".into())], Command::ZCount(a, "(1".into(), "(2".into()));
        let a = ks.on(1);
        add(
            "ZRangeByScore",
            vec![F::S(a.clone()), F::S("(1".into()), F::S("(2".into()), F::X, F::X],
            Command::ZRangeByScore { key: a, min: "(1".into(), max: "(2".into(), with_scores: false, limit: None },
        );
        let p = ks.on(2);
        add("Scan", vec![F::X, F::S(p.clone()), F::X], Command::Scan { cursor: 0, pattern: Some(p), count: None });
        let a = ks.on(1);
        let p = ks.on(2);
        add("HScan", vec![F::S(a.clone()), F::X, F::S(p.clone()), F::X], Command::HScan { key: a, cursor: 0, pattern: Some(p), count: None });
        let a = ks.on(1);
        let p = ks.on(2);
        add("ZScan", vec![F::S(a.clone()), F::X, F::S(p.clone()), F::X], Command::ZScan { key: a, cursor: 0, pattern: Some(p), count: None });
    }
    add("Multi", vec![], Command::Multi);
    add("Exec", vec![], Command::Exec);
    add("Discard", vec![], Command::Discard);
    {
        let l = ks.vec(len);
        add("Watch", vec![F::V(l.clone())], Command::Watch(l));
    }
    add("Unwatch", vec![], Command::Unwatch);
    {
        // the script text / the sha are Strings in front of the keys
        let s = ks.on(2);
        let l = ks.vec(len);
        add("Eval", vec![F::S(format!("return '{}'", s)), F::V(l.clone()), F::X], Command::Eval { script: format!("return '{}'", s), keys: l, args: vec![sd("a")] });
        let s = ks.on(2);
        let l = ks.vec(len);
        add("EvalSha", vec![F::S(s.clone()), F::V(l.clone()), F::X], Command::EvalSha { sha1: s, keys: l, args: vec![sd("a")] });
        let s = ks.on(2);
        add("ScriptLoad", vec![F::S(format!("return '{}'", s))], Command::ScriptLoad(format!("return '{}'", s)));
        let l = ks.vec(len);
        add("ScriptExists", vec![F::V(l.clone())], Command::ScriptExists(l));
    }
    add("ScriptFlush", vec![], Command::ScriptFlush);
    k1x!("SetNx", 1, |a| Command::SetNx(a, sd("v")));
    add("Info", vec![], Command::Info);
    add("Ping", vec![F::X], Command::Ping(if len % 2 == 0 { None } else { Some(sd("hello")) }));
    add("DbSize", vec![], Command::DbSize);
    {
        let u = ks.on(2);
        let p = ks.on(3);
        add("Auth", vec![F::S(u.clone()), F::S(p.clone())], Command::Auth { username: Some(u), password: p });
    }
    add("AclWhoami", vec![], Command::AclWhoami);
    add("AclList", vec![], Command::AclList);
    add("AclUsers", vec![], Command::AclUsers);
    {
        let u = ks.on(2);
        add("AclGetUser", vec![F::S(u.clone())], Command::AclGetUser { username: u });
        let u = ks.on(2);
        let l = ks.vec(len);
        add("AclSetUser", vec![F::S(u.clone()), F::V(l.clone())], Command::AclSetUser { username: u, rules: l });
        let l = ks.vec(len);
        add("AclDelUser", vec![F::V(l.clone())], Command::AclDelUser { usernames: l });
        let c = ks.on(2);
        add("AclCat", vec![F::S(c.clone())], Command::AclCat { category: Some(c) });
        add("AclGenPass", vec![F::X], Command::AclGenPass { bits: None });
        let u = ks.on(2);
        let c = ks.on(3);
        let l = ks.vec(len);
        add("AclDryrun", vec![F::S(u.clone()), F::S(c.clone()), F::V(l.clone())], Command::AclDryrun { username: u, command: c, args: l });
    }
    add("AclLog", vec![F::X], Command::AclLog { count: None });
    add("AclLogReset", vec![], Command::AclLogReset);
    {
        let p = ks.on(2);
        add("ConfigGet", vec![F::S(p.clone())], Command::ConfigGet(p));
        let p = ks.on(2);
        let q = ks.on(3);
        add("ConfigSet", vec![F::S(p.clone()), F::S(q.clone())], Command::ConfigSet(p, q));
    }
    add("ConfigResetStat", vec![], Command::ConfigResetStat);
    add("Select", vec![F::X], Command::Select(0));
    add("Echo", vec![F::X], Command::Echo(sd("hello")));
    add("CommandCommand", vec![], Command::CommandCommand);
    add("CommandCount", vec![], Command::CommandCount);
    add("FunctionFlush", vec![], Command::FunctionFlush);
    {
        let p = ks.on(2);
        add("ClientSetName", vec![F::S(p.clone())], Command::ClientSetName(p));
    }
    add("ClientGetName", vec![], Command::ClientGetName);
    add("ClientId", vec![], Command::ClientId);
    add("ClientInfo", vec![], Command::ClientInfo);
    add("ObjectHelp", vec![], Command::ObjectHelp);
    k1!("ObjectEncoding", Command::ObjectEncoding);
    k1!("ObjectRefCount", Command::ObjectRefCount);
    k1!("ObjectIdleTime", Command::ObjectIdleTime);
    k1!("ObjectFreq", Command::ObjectFreq);
    add("DebugSleep", vec![F::X], Command::DebugSleep(0.0));
    {
        let p = ks.on(2);
        let q = ks.on(3);
        add("DebugSet", vec![F::S(p.clone()), F::S(q.clone())], Command::DebugSet(p, q));
    }
    k1!("DebugObject", Command::DebugObject);
    add("RandomKey", vec![], Command::RandomKey);
    {
        let a = ks.on(1);
        let b = ks.on(2);
        add("Rename", vec![F::S(a.clone()), F::S(b.clone())], Command::Rename(a, b));
        let a = ks.on(1);
        let b = ks.on(2);
        add("RenameNx", vec![F::S(a.clone()), F::S(b.clone())], Command::RenameNx(a, b));
        let p = ks.on(2);
        add("Unknown", vec![F::S(p.clone())], Command::Unknown(p));
    }
    v
}

/// the shape the enum declaration gives a field of this type
fn declared_kind(ty: &str) -> &'static str {
    match ty {
        "String" | "Option<String>" => "S",
        "Vec<String>" => "V",
        "Vec<(String,SDS)>" => "P",
        _ => "X",
    }
}

fn kind(f: &F) -> &'static str {
    match f {
        F::S(_) => "S",
        F::V(_) => "V",
        F::P(_) => "P",
        F::X => "X",
    }
}

/// which field does the binary's `get_primary_key()` return for this probe?
fn binary_sel(p: &Probe) -> String {
    match p.cmd.get_primary_key() {
        None => "none".into(),
        Some(x) => {
            for (i, f) in p.fields.iter().enumerate() {
                match f {
                    F::S(s) if s == x => return format!("field{}", i),
                    F::V(l) | F::P(l) => {
                        if let Some(e) = l.iter().position(|s| s == x) {
                            return if e == 0 { format!("first-of-field{}", i) } else { format!("element{}-of-field{}", e, i) };
                        }
                    }
                    _ => {}
                }
            }
            format!("not-a-field({})", x)
        }
    }
}

/// the ROUTEPROBE line of a probe
fn probe_line(ctx: &Ctx, p: &Probe) -> String {
    let mut l = format!("ROUTEPROBE {} {} {}", N, p.variant, p.fields.len());
    let kh = |k: &String| format!(" {} {}", hex(k.as_bytes()), ctx.gen(k.as_bytes(), N));
    for f in &p.fields {
        match f {
            F::S(s) => l.push_str(&format!(" S{}", kh(s))),
            F::V(v) => {
                l.push_str(&format!(" V {}", v.len()));
                for k in v {
                    l.push_str(&kh(k));
                }
            }
            F::P(v) => {
                l.push_str(&format!(" P {}", v.len()));
                for k in v {
                    l.push_str(&kh(k));
                }
            }
            F::X => l.push_str(" X"),
        }
    }
    l
}

/// execute the probe on a fresh instance where shard `i` holds `2^i` expired keys; which shards got a
/// message (adopted the clock)?
async fn observe_recv(ctx: &Ctx, cmd: &Command) -> Result<String, String> {
    let (st, sim) = new_state_ctx(N);
    set_now(&sim, 1_000);
    let mut planted = 0usize;
    let mut next = 0usize;
    for shard in 0..N {
        let mut need = 1usize << shard;
        while need > 0 {
            let k = format!("ev{}", next);
            next += 1;
            if ctx.gen(k.as_bytes(), N) == shard {
                st.execute(&Command::Set { key: k, value: sd("x"), ex: None, px: Some(100), exat: None, pxat: None, nx: false, xx: false, get: false, keepttl: false }).await;
                need -= 1;
                planted += 1;
            }
        }
    }
    set_now(&sim, 5_000);
    let _ = st.execute(cmd).await;
    let left = st.evict_expired_all_shards().await;
    if left >= (1usize << N) || planted != (1usize << N) - 1 {
        return Err(format!("{} expired keys were planted, {} were still there after the command", planted, left));
    }
    Ok((0..N).map(|i| if left & (1 << i) == 0 { '1' } else { '0' }).collect())
}

pub async fn run(out: &mut Out, ctx: &Ctx) {
    let mut notes: BTreeMap<String, serde_json::Value> = BTreeMap::new();
    // ---- the source scan
    for n in SRC_ROUTE_SCAN_NOTES {
        out.violation("C03:route-table:source-scan-failed", &format!("the routing-table scan of the source failed: {}", n), json!({"note": n}));
    }
    if SRC_EXECUTE_ARMS.is_empty() || !SRC_EXECUTE_HAS_WILDCARD {
        out.violation(
            "C03:route-table:source-scan-failed",
            "ShardedActorState::execute: no `match cmd { … _ => … }` with arms of its own and a default arm was found — the dispatch changed shape, the model's arm table (Model/RouteTable.lean) must be re-derived",
            json!({"arms": SRC_EXECUTE_ARMS.len(), "wildcard": SRC_EXECUTE_HAS_WILDCARD}),
        );
    }
    // ---- ROUTEARMS: the variants with an arm of their own
    let mut own: BTreeSet<&str> = BTreeSet::new();
    for (v, _, _) in SRC_EXECUTE_ARMS {
        own.insert(v);
    }
    out.op("ROUTEARMS".into(), own.iter().cloned().collect::<Vec<_>>().join(","));
    let model_own: BTreeSet<&str> = MODEL_ROUTE_ROWS.iter().filter(|(_, a, _)| *a != "primary").map(|(v, _, _)| *v).collect();
    for v in own.difference(&model_own) {
        let (_, guard, feats) = SRC_EXECUTE_ARMS.iter().find(|(x, _, _)| x == v).unwrap();
        out.violation(
            &format!("C03:route-table:new-arm:{}", v),
            &format!("ShardedActorState::execute has an arm of its own for Command::{} (guard `{}`, body: {}) — the model's table routes it by the default arm (get_primary_key → home, no key → shard 0); Model/RouteTable.lean needs a row for the new arm and route_table_is_model_routing must be re-proved", v, guard, feats),
            json!({"variant": v, "guard": guard, "body_features": feats}),
        );
    }
    for v in model_own.difference(&own) {
        out.violation(
            &format!("C03:route-table:arm-removed:{}", v),
            &format!("the model's table has a fan-out / answered arm for Command::{} but ShardedActorState::execute no longer has an arm for it: it now takes the default arm", v),
            json!({"variant": v}),
        );
    }
    notes.insert("execute arms (variant, guard, body features) from the source".into(), json!(SRC_EXECUTE_ARMS));
    // ---- probes: every variant, shapes as declared
    let lens = [2usize, 0, 1, 3];
    let base = probes(ctx, 2);
    let probed: BTreeSet<&str> = base.iter().map(|p| p.variant).collect();
    for v in COMMAND_VARIANTS {
        if !probed.contains(v) {
            out.violation(
                &format!("C03:route-table:variant-not-probed:{}", v),
                &format!("Command::{} exists in src/redis/command.rs but the routing-table probe list (harness/src/route_table.rs) has no probe for it: where execute() sends it is not compared with the model", v),
                json!({"variant": v}),
            );
        }
    }
    for p in &base {
        let actual = variant_of(&p.cmd);
        let declared: Option<Vec<&'static str>> = SRC_COMMAND_FIELDS.iter().find(|(v, _)| *v == p.variant).map(|(_, fs)| fs.iter().map(|(_, t)| declared_kind(t)).collect());
        let mine: Vec<&'static str> = p.fields.iter().map(kind).collect();
        // an `Option<String>` / pattern field may be probed as X; a String field must be S
        let ok = actual == p.variant
            && declared.as_ref().map(|d| d.len() == mine.len() && d.iter().zip(&mine).all(|(a, b)| a == b || (*a == "X"))).unwrap_or(false);
        if !ok {
            out.violation(
                &format!("C03:route-table:probe-shape:{}", p.variant),
                &format!("the routing-table probe for Command::{} builds {} with field shapes {:?}, the enum declares {:?}: the probe must give every String / Vec<String> / Vec<(String, SDS)> field a distinct value", p.variant, actual, mine, declared),
                json!({"variant": p.variant}),
            );
        }
    }
    // ---- ROUTETABLE: what get_primary_key() of the binary returns
    let mut sel: BTreeMap<&str, String> = BTreeMap::new();
    for p in &base {
        sel.insert(p.variant, binary_sel(p));
    }
    out.op("ROUTETABLE".into(), sel.iter().map(|(v, s)| format!("{}:{}", v, s)).collect::<Vec<_>>().join(";"));
    let model_sel = |v: &str| -> Option<String> {
        MODEL_ROUTE_ROWS.iter().find(|(x, _, _)| *x == v).map(|(_, _, s)| match s.split_once(' ') {
            Some(("tok", i)) => format!("field{}", i),
            Some(("first", i)) => format!("first-of-field{}", i),
            _ => "none".to_string(),
        })
    };
    let mut src_disagree: Vec<String> = Vec::new();
    for (v, s) in &sel {
        match model_sel(v) {
            Some(m) if m == *s => {}
            m => {
                let p = base.iter().find(|p| p.variant == *v).unwrap();
                out.violation(
                    &format!("C03:route-table:key:{}", v),
                    &format!("Command::get_primary_key() of {:?} returns {} ({:?}); the model's routing table (Model/RouteTable.lean) routes {} by {} — a command routed by another argument than its first key is executed on a shard that does not hold its key", p.cmd, s, p.cmd.get_primary_key(), v, m.unwrap_or_else(|| "NO ROW".into())),
                    json!({"variant": v, "probe": format!("{:?}", p.cmd), "get_primary_key": p.cmd.get_primary_key(), "binary": s}),
                );
            }
        }
        if let Some((_, src)) = SRC_PRIMARY_KEY.iter().find(|(x, _)| x == v) {
            if *src != s.as_str() {
                src_disagree.push(format!("{}: source scan reads {}, the binary answers {}", v, src, s));
            }
        }
    }
    notes.insert("get_primary_key: source scan vs binary (informational; the binary is compared with the model)".into(), json!(src_disagree));
    // ---- ROUTEPROBE: which shards get a message
    let mut n_probes = 0u64;
    for len in lens {
        for p in probes(ctx, len) {
            let has_vec = p.fields.iter().any(|f| matches!(f, F::V(_) | F::P(_)));
            if len != 2 && !has_vec && p.variant != "Ping" {
                continue;
            }
            if p.variant == "DebugSleep" {
                // sleeps the shard actor's thread: routed like every key-less command (Wait, Select, …)
            }
            let line = probe_line(ctx, &p);
            match observe_recv(ctx, &p.cmd).await {
                Ok(bits) => {
                    n_probes += 1;
                    out.count("route-table-probe");
                    out.op(line, bits);
                }
                Err(e) => {
                    out.violation(&format!("C03:route-table:probe-failed:{}", p.variant), &format!("the receive-set probe for {:?} could not be evaluated: {}", p.cmd, e), json!({"variant": p.variant, "probe": format!("{:?}", p.cmd)}));
                }
            }
        }
    }
    notes.insert("probes executed (variant × Vec length 0/1/2/3)".into(), json!(n_probes));
    notes.insert("variants".into(), json!(COMMAND_VARIANTS.len()));
    out.extra.insert("route_table(derived from the binary and the source, compared with Model/RouteTable.lean)".into(), json!(notes));
}
