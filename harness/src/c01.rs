//! C01 — commands behave as Redis.  Correspondence = oracle: the real `CommandExecutor` against
//! the Lean reference model `Model.Redis` (reply + full visible keyspace after EVERY step).
//! Disagreements are classified by ./check through `disagreement_signatures` of
//! tools/props/C01.json.  The scripted corpus below re-finds every recorded deviation first.
use crate::out::Out;
use crate::redisx::*;
use crate::rng::Rng;
use crate::Args;
use redis_sim::redis::{Command, SDS};

fn s(x: &str) -> SDS {
    SDS::from_str(x)
}
fn k(x: &str) -> String {
    x.to_string()
}
fn set_px(key: &str, v: &str, px: i64) -> Command {
    let mut c = Command::set(k(key), s(v));
    if let Command::Set { px: p, .. } = &mut c {
        *p = Some(px);
    }
    c
}

/// witnesses of DESIGN.md §6.1 (C01 rows), run first on every check
pub fn corpus(out: &mut Out, prop: &str) {
    run_scripted(out, prop, "ttl-rounding", vec![
        sc(0, true, set_px("k", "v", 1400)),
        sc(0, true, Command::Ttl(k("k"))),
    ]);
    run_scripted(out, prop, "mset-keeps-deadline", vec![
        sc(0, true, Command::setex(k("m"), 100, s("v"))),
        sc(0, true, Command::MSet(vec![(k("m"), s("w"))])),
        sc(0, true, Command::Ttl(k("m"))),
    ]);
    run_scripted(out, prop, "getset-keeps-deadline", vec![
        sc(0, true, Command::setex(k("m"), 100, s("v"))),
        sc(0, true, Command::GetSet(k("m"), s("w"))),
        sc(0, true, Command::Ttl(k("m"))),
    ]);
    run_scripted(out, prop, "del-counts-expired", vec![
        sc(0, true, set_px("x", "v", 10)),
        sc(20, false, Command::Del(vec![k("x")])),
    ]);
    run_scripted(out, prop, "mset-stale-deadline", vec![
        sc(0, true, set_px("y", "v", 10)),
        sc(40, false, Command::MSet(vec![(k("y"), s("w"))])),
        sc(0, false, Command::Get(k("y"))),
    ]);
    run_scripted(out, prop, "msetnx-stale-deadline", vec![
        sc(0, true, set_px("y", "v", 10)),
        sc(40, false, Command::MSetNx(vec![(k("y"), s("w"))])),
        sc(0, false, Command::Get(k("y"))),
    ]);
    run_scripted(out, prop, "set-keepttl-stale-deadline", vec![
        sc(0, true, set_px("y", "v", 10)),
        sc(40, false, {
            let mut c = Command::set(k("y"), s("w"));
            if let Command::Set { keepttl, .. } = &mut c {
                *keepttl = true;
            }
            c
        }),
        sc(0, false, Command::Get(k("y"))),
    ]);
    run_scripted(out, prop, "expire-nonpositive-ignores-flags", vec![
        sc(0, true, Command::set(k("p"), s("v"))),
        sc(0, true, Command::Expire { key: k("p"), seconds: -1, nx: false, xx: false, gt: true, lt: false }),
        sc(0, true, Command::Exists(vec![k("p")])),
    ]);
    run_scripted(out, prop, "incr-noncanonical", vec![
        sc(0, true, Command::set(k("n"), s("007"))),
        sc(0, true, Command::Incr(k("n"))),
    ]);
    run_scripted(out, prop, "expiretime-rounds-down", vec![
        sc(0, true, set_px("k", "v", 1500)),
        sc(0, true, Command::ExpireTime(k("k"))),
    ]);
    run_scripted(out, prop, "set-expire-overflow-accepted", vec![
        sc(0, true, set_px("k", "v", i64::MAX)),
    ]);
    run_scripted(out, prop, "getex-nonpositive-abs-time", vec![
        sc(0, true, Command::set(k("k"), s("v"))),
        sc(0, true, Command::GetEx { key: k("k"), ex: None, px: None, exat: None, pxat: Some(0), persist: false }),
    ]);
    run_scripted(out, prop, "pexpire-large-negative-rejected", vec![
        sc(0, true, Command::set(k("k"), s("v"))),
        sc(0, true, Command::PExpire { key: k("k"), milliseconds: i64::MIN, nx: false, xx: false, gt: false, lt: false }),
    ]);
    run_scripted(out, prop, "expireat-range-unchecked", vec![
        sc(0, true, Command::set(k("k"), s("v"))),
        sc(0, true, Command::ExpireAt(k("k"), i64::MIN)),
    ]);
    run_scripted(out, prop, "getrange-negative-inverted", vec![
        sc(0, true, Command::set(k("k"), s("abc"))),
        sc(0, true, Command::GetRange(k("k"), -100, -200)),
    ]);
    run_scripted(out, prop, "setrange-empty-value", vec![
        sc(0, true, Command::SetRange(k("k"), 5, s(""))),
    ]);
    run_scripted(out, prop, "hincrby-noncanonical", vec![
        sc(0, true, Command::HSet(k("h"), vec![(s("f"), s("007"))])),
        sc(0, true, Command::HIncrBy(k("h"), s("f"), 1)),
    ]);
    run_scripted(out, prop, "set-member-not-binary-safe", vec![
        sc(0, true, Command::SAdd(k("s"), vec![SDS::new(vec![0xff])])),
        sc(0, true, Command::SMembers(k("s"))),
    ]);
    run_scripted(out, prop, "hash-field-not-binary-safe", vec![
        sc(0, true, Command::HSet(k("h"), vec![(SDS::new(vec![0xff]), s("v"))])),
        sc(0, true, Command::HKeys(k("h"))),
    ]);
    let zadd = |key: &str, pairs: Vec<(f64, SDS)>, xx: bool| Command::ZAdd { key: k(key), pairs, nx: false, xx, gt: false, lt: false, ch: false };
    run_scripted(out, prop, "zadd-xx-empty-zset", vec![
        sc(0, true, zadd("z", vec![(1.0, s("a"))], true)),
        sc(0, true, Command::Exists(vec![k("z")])),
        sc(0, true, Command::TypeOf(k("z"))),
    ]);
    run_scripted(out, prop, "zset-infinite-score-ghost", vec![
        sc(0, true, zadd("z", vec![(f64::NEG_INFINITY, s("m")), (1.0, s("n"))], false)),
        sc(0, true, Command::ZRem(k("z"), vec![s("m")])),
        sc(0, true, Command::ZRange(k("z"), 0, -1, false)),
    ]);
    run_scripted(out, prop, "zrange-bounds-parsed-after-lookup", vec![
        sc(0, true, Command::ZCount(k("missing"), "abc".into(), "5".into())),
    ]);
    run_scripted(out, prop, "zrangebyscore-negative-offset", vec![
        sc(0, true, zadd("z", vec![(1.0, s("a"))], false)),
        sc(0, true, Command::ZRangeByScore { key: k("z"), min: "-inf".into(), max: "+inf".into(), with_scores: false, limit: Some((-1, 10)) }),
    ]);
    run_scripted(out, prop, "zset-member-not-binary-safe", vec![
        sc(0, true, zadd("z", vec![(1.0, SDS::new(vec![0xff]))], false)),
        sc(0, true, Command::ZRange(k("z"), 0, -1, false)),
    ]);
    run_scripted(out, prop, "lmove-same-key-drops-ttl", vec![
        sc(0, true, Command::RPush(k("l"), vec![s("a")])),
        sc(0, true, Command::PExpire { key: k("l"), milliseconds: 5000, nx: false, xx: false, gt: false, lt: false }),
        sc(0, true, Command::LMove { source: k("l"), dest: k("l"), wherefrom: "LEFT".into(), whereto: "LEFT".into() }),
        sc(0, true, Command::Pttl(k("l"))),
    ]);
    run_scripted(out, prop, "sort-stub-not-numeric", vec![
        sc(0, true, Command::RPush(k("l"), vec![s("10"), s("9")])),
        sc(0, true, Command::Sort { key: k("l"), store: None }),
    ]);
    run_scripted(out, prop, "sort-zset-unsupported", vec![
        sc(0, true, Command::ZAdd { key: k("z"), pairs: vec![(1.0, s("5")), (2.0, s("3"))], nx: false, xx: false, gt: false, lt: false, ch: false }),
        sc(0, true, Command::Sort { key: k("z"), store: None }),
    ]);
    // round-4 seed C01-expire-gt-equal-deadline: EXPIRE … GT whose new deadline EQUALS the current one
    let expire_gt = |secs: i64| Command::Expire { key: k("k"), seconds: secs, nx: false, xx: false, gt: true, lt: false };
    run_scripted(out, prop, "expire-gt-equal-deadline", vec![
        sc(0, true, Command::setex(k("k"), 100, s("v"))),
        sc(0, true, expire_gt(100)),           // same instant, same TTL: 0
        sc(40_000, true, expire_gt(59)),       // 60 s left: smaller deadline: 0
        sc(0, true, expire_gt(60)),            // equal again: 0
        sc(0, true, Command::Pttl(k("k"))),
        sc(0, true, expire_gt(61)),            // strictly greater: 1
        sc(0, true, expire_gt(61)),            // repeated at the same instant: 0
        sc(0, true, Command::Pttl(k("k"))),
    ]);
    // KEYS with a glob pattern (Model.RedisX = Redis' stringmatchlen): escapes and classes
    run_scripted(out, prop, "keys-glob", vec![
        sc(0, true, Command::set(k("a"), s("1"))),
        sc(0, true, Command::set(k("b"), s("2"))),
        sc(0, true, Command::set(k("c"), s("3"))),
        sc(0, true, Command::set(k("a*"), s("4"))),
        sc(0, true, Command::Keys("?".into())),
        sc(0, true, Command::Keys("a*".into())),
        sc(0, true, Command::Keys("[a-c]".into())),
        sc(0, true, Command::Keys("[^a]".into())),
        sc(0, true, Command::Keys("[c-a]".into())),
        sc(0, true, Command::Keys("[ab".into())),
        sc(0, true, Command::Keys("\\a".into())),
        sc(0, true, Command::Keys("a\\*".into())),
        sc(0, true, Command::Keys("[a\\-c]".into())),
        // a 300-byte class body, unclosed and closed (the model's matcher must stay linear in it)
        sc(0, true, Command::Keys(format!("[{}", "xyz0-9q-m".repeat(34)))),
        sc(0, true, Command::Keys(format!("[{}a-c]*", "xyz0-9q-m".repeat(34)))),
        sc(0, true, Command::Keys(format!("[^{}", "xyz0-9\\]".repeat(40)))),
    ]);
    run_scripted(out, prop, "bitmaps", vec![
        sc(0, true, Command::SetBit(k("bm"), 7, 1)),
        sc(0, true, Command::GetBit(k("bm"), 7)),
        sc(0, true, Command::SetBit(k("bm"), 183, 1)),   // byte 22: the value is 23 bytes (SDS inline limit)
        sc(0, true, Command::SetBit(k("bm"), 184, 1)),   // byte 23: 24 bytes
        sc(0, true, Command::GetBit(k("bm"), 184)),
        sc(0, true, Command::SetBit(k("bm"), 184, 0)),
        sc(0, true, Command::StrLen(k("bm"))),
        sc(0, true, Command::SetBit(k("bm"), 4294967296, 1)),
        sc(0, true, Command::RPush(k("l"), vec![s("x")])),
        sc(0, true, Command::SetBit(k("l"), 1, 1)),
        sc(0, true, Command::BatchSet(vec![(k("bm"), s("v")), (k("l"), s("w"))])),
        sc(0, true, Command::BatchGet(vec![k("bm"), k("l"), k("zz")])),
    ]);
    run_scripted(out, prop, "setrange-check-order", vec![
        sc(0, true, Command::RPush(k("l"), vec![s("a")])),
        sc(0, true, Command::SetRange(k("l"), 1 << 40, s("x"))),
    ]);
}

/// deadlines within 500 ms of i64::MAX: EXPIRETIME's `saturating_add(500)` clamps there (hypothesis
/// `Room` of `Props.C01Exec`). Redis' own `(expire + 500) / 1000` overflows a long long at that point, so
/// the reference model has no say: these commands are compared with the executor transcription only.
pub fn expiretime_edge_corpus(out: &mut Out, prop: &str) {
    for back in [0i64, 1, 499, 500, 501, 1000] {
        let mut s = reset(out, BASE_MS);
        let mut seq: Vec<String> = vec![];
        let steps = vec![
            (false, Command::set(k("k"), s_("v"))),
            (false, Command::PExpireAt(k("k"), i64::MAX - back)),
            (true, Command::ExpireTime(k("k"))),
            (false, Command::PExpireTime(k("k"))),
            (false, Command::Pttl(k("k"))),
        ];
        for (xc_only, cmd) in steps {
            seq.push(format!("{:?}", cmd));
            s.xc_only = xc_only;
            do_step(out, &mut s, &cmd, prop, &seq);
        }
    }
    out.count("corpus:expiretime-near-i64-max");
}

/// every command that reads or writes an ABSOLUTE time, under every configuration of the executor's
/// epoch fields (class "configuration": `simulation_start_epoch`, `simulation_start_epoch_ms`)
pub fn epoch_corpus(out: &mut Out, prop: &str) {
    for cfg in EPOCH_CONFIGS {
        let unix = (BASE_MS + cfg.ms()) as i64;
        let set = |key: &str, f: &dyn Fn(&mut Command)| {
            let mut c = Command::set(k(key), s("v"));
            f(&mut c);
            c
        };
        let getex = |exat: Option<i64>, pxat: Option<i64>| Command::GetEx { key: k("g"), ex: None, px: None, exat, pxat, persist: false };
        run_scripted_cfg(out, prop, "epoch-absolute-times", cfg, vec![
            sc(0, true, set_px("k", "v", 5000)),
            sc(0, true, Command::ExpireTime(k("k"))),
            sc(0, true, Command::PExpireTime(k("k"))),
            sc(0, true, set_px("h", "v", 1499)),
            sc(0, true, Command::ExpireTime(k("h"))),
            sc(0, true, set_px("i", "v", 1500)),
            sc(0, true, Command::ExpireTime(k("i"))),
            sc(0, true, Command::set(k("e"), s("v"))),
            sc(0, true, Command::ExpireAt(k("e"), unix / 1000 + 10)),
            sc(0, true, Command::Pttl(k("e"))),
            sc(0, true, Command::ExpireTime(k("e"))),
            sc(0, true, Command::PExpireAt(k("e"), unix + 777)),
            sc(0, true, Command::Pttl(k("e"))),
            sc(0, true, Command::PExpireTime(k("e"))),
            sc(0, true, set("x", &|c| if let Command::Set { exat, .. } = c { *exat = Some(unix / 1000 + 3) })),
            sc(0, true, Command::Pttl(k("x"))),
            sc(0, true, set("y", &|c| if let Command::Set { pxat, .. } = c { *pxat = Some(unix + 1234) })),
            sc(0, true, Command::Pttl(k("y"))),
            sc(0, true, Command::PExpireTime(k("y"))),
            sc(0, true, Command::set(k("g"), s("v"))),
            sc(0, true, getex(Some(unix / 1000 + 2), None)),
            sc(0, true, Command::Pttl(k("g"))),
            sc(0, true, getex(None, Some(unix + 1))),
            sc(0, true, Command::Pttl(k("g"))),
            // exactly now / one ms ago: the key is gone
            sc(0, true, Command::PExpireAt(k("y"), unix)),
            sc(0, true, Command::Exists(vec![k("y")])),
            sc(0, true, Command::ExpireAt(k("x"), unix / 1000)),
            sc(0, true, Command::Exists(vec![k("x")])),
            // the range check of EXPIRE adds the Unix now
            sc(0, true, Command::Expire { key: k("k"), seconds: (i64::MAX - unix) / 1000, nx: false, xx: false, gt: false, lt: false }),
            sc(0, true, Command::Expire { key: k("k"), seconds: (i64::MAX - unix) / 1000 + 1, nx: false, xx: false, gt: false, lt: false }),
            sc(1000, true, Command::Ttl(k("e"))),
            sc(0, true, Command::ExpireTime(k("e"))),
        ]);
    }
}

/// SCAN paging (`execute_scan`): the transcription `Model.ExecutorScan.cScan` answers every call
/// (`XSCAN` lines), and — independently of the model — a client's FULL iteration (cursor 0, follow the
/// cursor until 0) must return exactly the live keys matching the pattern (`Props/C01Scan.lean`).
/// COUNT 0 / COUNT -1 (what the parsers let through) run first: known finding
/// `C01:scan-count-nonpositive-accepted`.
pub fn scan_pass(out: &mut Out, rng: &mut Rng, rounds: u64) {
    use redis_sim::redis::{RespValue};
    fn scan(s: &mut Sess, cursor: u64, pattern: &Option<String>, count: Option<usize>) -> Option<(u64, Vec<Vec<u8>>)> {
        let cmd = Command::Scan { cursor, pattern: pattern.clone(), count };
        let ex = &mut s.ex;
        let r = std::panic::catch_unwind(std::panic::AssertUnwindSafe(|| ex.execute(&cmd))).ok()?;
        match r {
            RespValue::Array(Some(v)) if v.len() == 2 => {
                let next = match &v[0] { RespValue::BulkString(Some(b)) => String::from_utf8_lossy(b).parse::<u64>().ok()?, _ => return None };
                let keys = match &v[1] { RespValue::Array(Some(ks)) => ks.iter().filter_map(|k| match k { RespValue::BulkString(Some(b)) => Some(b.clone()), _ => None }).collect(), _ => return None };
                Some((next, keys))
            }
            _ => None,
        }
    }
    fn line(out: &mut Out, s: &mut Sess, cursor: u64, pattern: &Option<String>, count: Option<usize>) -> Option<(u64, Vec<Vec<u8>>)> {
        let r = scan(s, cursor, pattern, count);
        let op = format!("{} XSCAN {} {} {}", s.now, cursor,
            pattern.as_ref().map(|p| crate::enc::hex(p.as_bytes())).unwrap_or_else(|| "-".into()),
            count.map(|c| c.to_string()).unwrap_or_else(|| "-".into()));
        let ans = match &r {
            None => "crash".to_string(),
            Some((next, keys)) => {
                let mut t = format!("{} {}", next, keys.len());
                for k in keys { t.push(' '); t.push_str(&crate::enc::hex(k)); }
                t
            }
        };
        out.op(op, ans);
        out.count("scan:call");
        r
    }
    let finding = |out: &mut Out, what: &str, seq: &Vec<String>| {
        out.violation("C01:scan-count-nonpositive-accepted", what, serde_json::json!({"sequence": seq}));
    };
    // the witnesses, first (must_reproduce)
    {
        let mut s = reset(out, BASE_MS);
        let mut seq = vec![];
        for key in ["a", "b", "c"] {
            let c = Command::set(k(key), s_(key));
            seq.push(format!("{:?}", c));
            do_step(out, &mut s, &c, "C01", &seq);
        }
        // COUNT 0 as both parsers build it
        let frame = |args: &[&str]| redis_sim::redis::RespValue::Array(Some(args.iter().map(|a| redis_sim::redis::RespValue::BulkString(Some(a.as_bytes().to_vec()))).collect()));
        for (txt, args) in [("SCAN 0 COUNT 0", vec!["SCAN", "0", "COUNT", "0"]), ("SCAN 0 COUNT -1", vec!["SCAN", "0", "COUNT", "-1"])] {
            match Command::from_resp(&frame(&args)) {
                Ok(Command::Scan { cursor, pattern, count }) => {
                    seq.push(format!("{} (parsed: count = {:?})", txt, count));
                    let r = line(out, &mut s, cursor, &pattern, count);
                    match r {
                        None => finding(out, &format!("{}: the parser accepts the count (Redis: syntax error), `count + 1` overflows in execute_scan: panic in an overflow-checked build (the release profile wraps to take(0): empty page, cursor 0)", txt), &seq),
                        Some((next, keys)) if keys.is_empty() && next == 0 => finding(out, &format!("{}: accepted (Redis: syntax error) and answered cursor 0 with an empty page although 3 keys exist: the client's iteration ends having seen nothing", txt), &seq),
                        Some(other) => out.violation("C01:scan:unexpected-answer-for-nonpositive-count", &format!("{} answered {:?}", txt, other), serde_json::json!({"sequence": seq})),
                    }
                }
                Ok(other) => out.violation("C01:scan:parse", &format!("{} parsed as {:?}", txt, other), serde_json::json!({})),
                Err(_) => out.count("scan:nonpositive-count-refused-by-parser"),
            }
        }
        out.count("corpus:scan-count-nonpositive");
    }
    // HSCAN converts field names AND values to Strings (`from_utf8_lossy` / `v.to_string()`): known
    // finding `C01:hscan-reply-not-binary-safe` (HGET / HGETALL return the stored bytes)
    {
        let mut s = reset(out, BASE_MS);
        let mut seq = vec![];
        let c = Command::HSet(k("h"), vec![(s_("f"), SDS::new(vec![0xff, 0x00, 0x61]))]);
        seq.push(format!("{:?}", c));
        do_step(out, &mut s, &c, "C01", &seq);
        let hs = Command::HScan { key: k("h"), cursor: 0, pattern: None, count: None };
        seq.push(format!("{:?}", hs));
        let ex = &mut s.ex;
        let r = std::panic::catch_unwind(std::panic::AssertUnwindSafe(|| ex.execute(&hs))).ok();
        let mut got: Vec<Vec<u8>> = vec![];
        if let Some(RespValue::Array(Some(v))) = &r {
            if let Some(RespValue::Array(Some(es))) = v.get(1) {
                for e in es {
                    if let RespValue::BulkString(Some(b)) = e {
                        got.push(b.clone());
                    }
                }
            }
        }
        let want = vec![b"f".to_vec(), vec![0xff, 0x00, 0x61]];
        if got != want {
            out.violation(
                "C01:hscan-reply-not-binary-safe",
                &format!("HSET h f <ff 00 61>; HSCAN h 0 returned {:?}, the stored field and value are {:?} (HGET returns the stored bytes)", got, want),
                serde_json::json!({"sequence": seq}),
            );
        }
        out.count("corpus:hscan-binary-value");
    }
    for _ in 0..rounds {
        let mut s = reset(out, BASE_MS + rng.below(1000));
        let mut seq: Vec<String> = vec![];
        let nkeys = rng.below(14);
        let names = ["a", "b", "c", "kk", "é", "ab", "abc", "b1", "b2", "zz", "a*", "k[1]", "x", "yy"];
        for i in 0..nkeys {
            let key = names[(rng.below(names.len() as u64)) as usize];
            let c = match rng.below(4) {
                0 => set_px(key, "v", 1 + rng.below(50) as i64),
                1 => Command::RPush(k(key), vec![s_("e")]),
                _ => Command::set(k(key), s_(&format!("v{}", i))),
            };
            seq.push(format!("{:?}", c));
            do_step(out, &mut s, &c, "C01", &seq);
        }
        // let some keys expire without eviction
        if rng.chance(1, 2) {
            let t = s.now + rng.below(60);
            s.set_now(t, rng.chance(1, 2));
            let c = Command::Exists(vec![k("a")]);
            seq.push(format!("t={} {:?}", t, c));
            do_step(out, &mut s, &c, "C01", &seq);
        }
        let pattern = match rng.below(6) { 0 => Some("a*".to_string()), 1 => Some("?".to_string()), 2 => Some("[a-c]*".to_string()), 3 => Some(long_class_pattern(rng)), _ => None };
        let count = match rng.below(8) { 0 => None, 1 => Some(1usize), 2 => Some(2), 3 => Some(3), 4 => Some(13), 5 => Some(14), 6 => Some(usize::MAX - 1), _ => Some(1 + rng.below(20) as usize) };
        // expected: the live keys matching the pattern, bytewise sorted
        let mut expect: Vec<Vec<u8>> = match s.ex.execute(&Command::Keys(pattern.clone().unwrap_or_else(|| "*".into()))) {
            redis_sim::redis::RespValue::Array(Some(v)) => v.iter().filter_map(|x| match x { redis_sim::redis::RespValue::BulkString(Some(b)) => Some(b.clone()), _ => None }).collect(),
            _ => vec![],
        };
        expect.sort();
        let mut got: Vec<Vec<u8>> = vec![];
        let mut cursor = 0u64;
        let mut calls = 0;
        let mut ok = true;
        loop {
            calls += 1;
            seq.push(format!("SCAN {} MATCH {:?} COUNT {:?}", cursor, pattern, count));
            match line(out, &mut s, cursor, &pattern, count) {
                None => { ok = false; out.violation("C01:scan:crash", "execute_scan panicked for a positive count", serde_json::json!({"sequence": seq})); break; }
                Some((next, keys)) => {
                    got.extend(keys);
                    if next == 0 { break; }
                    cursor = next;
                }
            }
            if calls > 40 { ok = false; out.violation("C01:scan:iteration-does-not-terminate", "40 calls and the cursor is still not 0", serde_json::json!({"sequence": seq})); break; }
        }
        if ok && got != expect {
            out.violation("C01:scan:full-iteration-incomplete", &format!("a full SCAN iteration returned {:?}, the live matching keys are {:?}", got.iter().map(|x| String::from_utf8_lossy(x).to_string()).collect::<Vec<_>>(), expect.iter().map(|x| String::from_utf8_lossy(x).to_string()).collect::<Vec<_>>()), serde_json::json!({"sequence": seq}));
        }
        out.count(&format!("scan:iteration:calls:{}", if calls == 1 { "1" } else if calls <= 4 { "2-4" } else { "5+" }));
        out.case(&seq.join("\n"), expect.len() >= 2);
    }
}

fn s_(x: &str) -> SDS {
    SDS::from_str(x)
}

pub fn run(a: &Args) {
    let mut out = Out::new(&a.out);
    let mut rng = Rng::new(a.seed);
    corpus(&mut out, "C01");
    epoch_corpus(&mut out, "C01");
    expiretime_edge_corpus(&mut out, "C01");
    let mut srng = Rng::new(a.seed ^ 0x5CA9);
    scan_pass(&mut out, &mut srng, (a.n / 10).clamp(30, 3000));
    // the data structures behind the commands, driven directly (`DS …` lines); its own stream, so
    // that the command sequences below are the same as without it
    let mut drng = Rng::new(a.seed ^ 0xD5);
    crate::datax::run(&mut out, &mut drng, a.n);
    for _ in 0..a.n {
        run_random_sequence(&mut out, &mut rng, "C01", &gen_cmd, 10);
    }
    // history shapes: a few long runs on one executor
    for _ in 0..(a.n / 1500).clamp(2, 40) {
        run_random_sequence_len(&mut out, &mut rng, "C01", &gen_cmd, 3, Some(1500));
    }
    crate::boundary::boundary_pass(&mut out, &mut rng, "C01", (a.n / 1000).clamp(2, 20));
    crate::boundary::coverage_table(&mut out);
    report_executor_api(&mut out, "C01");
    out.extra.insert("audit".into(), audit_c01());
    out.extra.insert("families_covered".into(), serde_json::json!(FAMILIES));
    out.extra.insert("not_in_command_enum".into(), serde_json::json!(NOT_IN_ENUM));
    out.finish("case = one sequence of 1..60 commands (strings, counters, keys, expiry, lists, sets, hashes, sorted sets over 5 colliding keys; clock moved between commands by 0 / 1 ms / random / exactly-the-deadline / one-ms-before / one-after, through set_time or update_time_readonly) run on a fresh real CommandExecutor; after every command the reply and the whole visible keyspace are compared with the Lean reference model; distinct by the op text of the whole sequence; non-trivial iff at least one command changed the visible keyspace and at least one reply was neither an error nor nil/0/empty; plus (harness/src/datax.rs) one case per operation sequence on a real RedisSortedSet / RedisList / SDS (DS lines: every answer and, after every mutating sorted-set op, the whole skip-list structure compared with the transcription models), non-trivial iff the structure held >= 2 elements at some point and a read returned a non-empty answer (SDS: the sequence crossed the 23-byte boundary or has more than 3 ops)");
}

pub const FAMILIES: [&str; 9] = [
    "strings: GET SET(NX XX GET KEEPTTL EX PX EXAT PXAT) SETNX SETEX(=SET EX) APPEND GETSET STRLEN MGET MSET MSETNX GETRANGE SETRANGE GETEX GETDEL",
    "counters: INCR DECR INCRBY DECRBY",
    "keys: DEL EXISTS TYPE KEYS(*) DBSIZE FLUSHDB FLUSHALL RANDOMKEY RENAME RENAMENX SORT [STORE] (default numeric form, integer elements)",
    "expiry: EXPIRE PEXPIRE (NX XX GT LT) EXPIREAT PEXPIREAT TTL PTTL EXPIRETIME PEXPIRETIME PERSIST",
    "lists: LPUSH RPUSH LPOP RPOP LLEN LINDEX LRANGE LSET LTRIM RPOPLPUSH LMOVE",
    "sets: SADD SREM SMEMBERS SISMEMBER SCARD SPOP [count] (SPOP validated as a relation)",
    "hashes: HSET HGET HDEL HGETALL HKEYS HVALS HLEN HEXISTS HINCRBY",
    "sorted sets: ZADD (NX XX GT LT CH) ZREM ZRANGE ZREVRANGE [WITHSCORES] ZSCORE ZRANK ZCARD ZCOUNT ZRANGEBYSCORE [WITHSCORES] [LIMIT] — integral scores |x| < 2^53 and ±inf only; float formatting excluded",
    "Model.RedisX: SETBIT GETBIT, internal BatchSet BatchGet, KEYS <glob pattern>; Redis.stepScript: EVAL of straight-line redis.call sequences over the commands the Lua translator knows",
];
pub const NOT_IN_ENUM: [&str; 5] = [
    "PSETEX (no Command variant; SETEX is parsed into SET EX)",
    "EXPIREAT/PEXPIREAT NX|XX|GT|LT (variants carry no flags)",
    "ZINCRBY ZREVRANK ZREVRANGEBYSCORE ZRANGEBYLEX ZPOPMIN/MAX ZUNIONSTORE …, ZADD INCR (no Command variant / flag)",
    "SRANDMEMBER SUNION SINTER SDIFF SMOVE …, HMGET HSETNX HINCRBYFLOAT HSTRLEN … (no Command variant)",
    "LREM LINSERT LPUSHX RPUSHX LPOP/RPOP with count, LPOS, BLPOP … (no Command variant)",
];
