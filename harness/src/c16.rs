//! C16 — a command means the same via every entry path.
//! Three-way correspondence: `Command::from_resp` (simulation parser), `Command::from_resp_zero_copy`
//! (production parser) and the redis.call translator (reached through EVAL on a real
//! `CommandExecutor`), compared with each other (oracle) and with the Lean grammar `parseCmd` /
//! `parseCmdZc` / `parseLua` (correspondence).  Then effect equality on twin executors and the
//! RESP <-> Lua conversion.
use crate::enc::hex;
use crate::out::Out;
use crate::rng::Rng;
use crate::Args;
use bytes::Bytes;
use redis_sim::redis::{Command, CommandExecutor, RespValue, RespValueZeroCopy, SDS};
use redis_sim::simulator::VirtualTime;
use serde_json::json;
use std::collections::{BTreeMap, BTreeSet};
use std::panic::{catch_unwind, AssertUnwindSafe};

#[path = "c16_script.rs"]
mod script;
#[path = "c16_shape.rs"]
mod shape;

/// the model's shape table (`Grammar.shapeRows table / luaTable`, `familyRows`), generated from the Lean
/// model by tools/gen_c16_shapes.py and compared with the live model on every run (SH / FA ops)
const MODEL_SHAPES: &str = include_str!("c16_shapes.txt");

// ---------------------------------------------------------------------------------------------
// canonical printer of a `Command` (constructor + flattened fields; mirrors `Grammar.Cmd`)
// ---------------------------------------------------------------------------------------------

fn ts(x: &str) -> String {
    format!("s{}", hex(x.as_bytes()))
}
fn td(x: &SDS) -> String {
    format!("d{}", hex(x.as_bytes()))
}
fn ti(x: i64) -> String {
    format!("i{}", x)
}
fn tn(x: u64) -> String {
    format!("n{}", x)
}
fn tf(x: f64) -> String {
    if x.is_nan() {
        "fnan".into()
    } else {
        format!("f{:016x}", x.to_bits())
    }
}
fn tb(x: bool) -> String {
    if x { "b1".into() } else { "b0".into() }
}
fn oi(x: &Option<i64>) -> String {
    x.map(ti).unwrap_or_else(|| "-".into())
}
fn os(x: &Option<String>) -> String {
    x.as_ref().map(|s| ts(s)).unwrap_or_else(|| "-".into())
}
fn vs(v: &[String], out: &mut Vec<String>) {
    out.push(format!("#{}", v.len()));
    out.extend(v.iter().map(|s| ts(s)));
}
fn vd(v: &[SDS], out: &mut Vec<String>) {
    out.push(format!("#{}", v.len()));
    out.extend(v.iter().map(td));
}

pub fn canon(c: &Command) -> String {
    use Command::*;
    let mut t: Vec<String> = Vec::new();
    let name: &str = match c {
        Get(k) => { t.push(ts(k)); "Get" }
        Set { key, value, ex, px, exat, pxat, nx, xx, get, keepttl } => {
            t.extend([ts(key), td(value), oi(ex), oi(px), oi(exat), oi(pxat), tb(*nx), tb(*xx), tb(*get), tb(*keepttl)]);
            "Set"
        }
        Append(k, v) => { t.extend([ts(k), td(v)]); "Append" }
        GetSet(k, v) => { t.extend([ts(k), td(v)]); "GetSet" }
        StrLen(k) => { t.push(ts(k)); "StrLen" }
        MGet(ks) => { vs(ks, &mut t); "MGet" }
        MSet(ps) => { t.push(format!("#{}", ps.len())); for (k, v) in ps { t.extend([ts(k), td(v)]); } "MSet" }
        MSetNx(ps) => { t.push(format!("#{}", ps.len())); for (k, v) in ps { t.extend([ts(k), td(v)]); } "MSetNx" }
        BatchSet(_) => "BatchSet",
        BatchGet(_) => "BatchGet",
        GetRange(k, a, b) => { t.extend([ts(k), ti(*a as i64), ti(*b as i64)]); "GetRange" }
        SetRange(k, o, v) => { t.extend([ts(k), tn(*o as u64), td(v)]); "SetRange" }
        SetBit(k, o, b) => { t.extend([ts(k), tn(*o), tn(*b as u64)]); "SetBit" }
        GetBit(k, o) => { t.extend([ts(k), tn(*o)]); "GetBit" }
        GetEx { key, ex, px, exat, pxat, persist } => {
            t.extend([ts(key), oi(ex), oi(px), oi(exat), oi(pxat), tb(*persist)]);
            "GetEx"
        }
        GetDel(k) => { t.push(ts(k)); "GetDel" }
        Incr(k) => { t.push(ts(k)); "Incr" }
        Decr(k) => { t.push(ts(k)); "Decr" }
        IncrBy(k, n) => { t.extend([ts(k), ti(*n)]); "IncrBy" }
        DecrBy(k, n) => { t.extend([ts(k), ti(*n)]); "DecrBy" }
        IncrByFloat(k, x) => { t.extend([ts(k), tf(*x)]); "IncrByFloat" }
        Del(ks) => { vs(ks, &mut t); "Del" }
        Exists(ks) => { vs(ks, &mut t); "Exists" }
        TypeOf(k) => { t.push(ts(k)); "TypeOf" }
        Keys(k) => { t.push(ts(k)); "Keys" }
        FlushDb => "FlushDb",
        FlushAll => "FlushAll",
        Expire { key, seconds, nx, xx, gt, lt } => {
            t.extend([ts(key), ti(*seconds), tb(*nx), tb(*xx), tb(*gt), tb(*lt)]);
            "Expire"
        }
        ExpireAt(k, n) => { t.extend([ts(k), ti(*n)]); "ExpireAt" }
        PExpire { key, milliseconds, nx, xx, gt, lt } => {
            t.extend([ts(key), ti(*milliseconds), tb(*nx), tb(*xx), tb(*gt), tb(*lt)]);
            "PExpire"
        }
        PExpireAt(k, n) => { t.extend([ts(k), ti(*n)]); "PExpireAt" }
        Ttl(k) => { t.push(ts(k)); "Ttl" }
        Pttl(k) => { t.push(ts(k)); "Pttl" }
        ExpireTime(k) => { t.push(ts(k)); "ExpireTime" }
        PExpireTime(k) => { t.push(ts(k)); "PExpireTime" }
        Persist(k) => { t.push(ts(k)); "Persist" }
        Wait(a, b) => { t.extend([ti(*a), ti(*b)]); "Wait" }
        Time => "Time",
        Sort { key, store } => { t.extend([ts(key), os(store)]); "Sort" }
        LPush(k, v) => { t.push(ts(k)); vd(v, &mut t); "LPush" }
        RPush(k, v) => { t.push(ts(k)); vd(v, &mut t); "RPush" }
        LPop(k) => { t.push(ts(k)); "LPop" }
        RPop(k) => { t.push(ts(k)); "RPop" }
        LLen(k) => { t.push(ts(k)); "LLen" }
        LIndex(k, i) => { t.extend([ts(k), ti(*i as i64)]); "LIndex" }
        LRange(k, a, b) => { t.extend([ts(k), ti(*a as i64), ti(*b as i64)]); "LRange" }
        LSet(k, i, v) => { t.extend([ts(k), ti(*i as i64), td(v)]); "LSet" }
        LTrim(k, a, b) => { t.extend([ts(k), ti(*a as i64), ti(*b as i64)]); "LTrim" }
        RPopLPush(a, b) => { t.extend([ts(a), ts(b)]); "RPopLPush" }
        LMove { source, dest, wherefrom, whereto } => {
            t.extend([ts(source), ts(dest), ts(wherefrom), ts(whereto)]);
            "LMove"
        }
        SAdd(k, v) => { t.push(ts(k)); vd(v, &mut t); "SAdd" }
        SRem(k, v) => { t.push(ts(k)); vd(v, &mut t); "SRem" }
        SMembers(k) => { t.push(ts(k)); "SMembers" }
        SIsMember(k, m) => { t.extend([ts(k), td(m)]); "SIsMember" }
        SCard(k) => { t.push(ts(k)); "SCard" }
        SPop(k, c) => { t.extend([ts(k), c.map(|n| tn(n as u64)).unwrap_or_else(|| "-".into())]); "SPop" }
        HSet(k, ps) => {
            t.push(ts(k));
            t.push(format!("#{}", ps.len()));
            for (f, v) in ps { t.extend([td(f), td(v)]); }
            "HSet"
        }
        HGet(k, f) => { t.extend([ts(k), td(f)]); "HGet" }
        HDel(k, v) => { t.push(ts(k)); vd(v, &mut t); "HDel" }
        HGetAll(k) => { t.push(ts(k)); "HGetAll" }
        HKeys(k) => { t.push(ts(k)); "HKeys" }
        HVals(k) => { t.push(ts(k)); "HVals" }
        HLen(k) => { t.push(ts(k)); "HLen" }
        HExists(k, f) => { t.extend([ts(k), td(f)]); "HExists" }
        HIncrBy(k, f, n) => { t.extend([ts(k), td(f), ti(*n)]); "HIncrBy" }
        ZAdd { key, pairs, nx, xx, gt, lt, ch } => {
            t.push(ts(key));
            t.push(format!("#{}", pairs.len()));
            for (s, m) in pairs { t.extend([tf(*s), td(m)]); }
            t.extend([tb(*nx), tb(*xx), tb(*gt), tb(*lt), tb(*ch)]);
            "ZAdd"
        }
        ZRem(k, v) => { t.push(ts(k)); vd(v, &mut t); "ZRem" }
        ZRange(k, a, b, w) => { t.extend([ts(k), ti(*a as i64), ti(*b as i64), tb(*w)]); "ZRange" }
        ZRevRange(k, a, b, w) => { t.extend([ts(k), ti(*a as i64), ti(*b as i64), tb(*w)]); "ZRevRange" }
        ZScore(k, m) => { t.extend([ts(k), td(m)]); "ZScore" }
        ZRank(k, m) => { t.extend([ts(k), td(m)]); "ZRank" }
        ZCard(k) => { t.push(ts(k)); "ZCard" }
        ZCount(k, a, b) => { t.extend([ts(k), ts(a), ts(b)]); "ZCount" }
        ZRangeByScore { key, min, max, with_scores, limit } => {
            t.extend([ts(key), ts(min), ts(max), tb(*with_scores)]);
            match limit {
                None => t.push("-".into()),
                Some((o, c)) => t.extend([ti(*o as i64), tn(*c as u64)]),
            }
            "ZRangeByScore"
        }
        Scan { cursor, pattern, count } => {
            t.extend([tn(*cursor), os(pattern), count.map(|n| tn(n as u64)).unwrap_or_else(|| "-".into())]);
            "Scan"
        }
        HScan { key, cursor, pattern, count } => {
            t.extend([ts(key), tn(*cursor), os(pattern), count.map(|n| tn(n as u64)).unwrap_or_else(|| "-".into())]);
            "HScan"
        }
        ZScan { key, cursor, pattern, count } => {
            t.extend([ts(key), tn(*cursor), os(pattern), count.map(|n| tn(n as u64)).unwrap_or_else(|| "-".into())]);
            "ZScan"
        }
        Multi => "Multi",
        Exec => "Exec",
        Discard => "Discard",
        Watch(ks) => { vs(ks, &mut t); "Watch" }
        Unwatch => "Unwatch",
        Eval { script, keys, args } => { t.push(ts(script)); vs(keys, &mut t); vd(args, &mut t); "Eval" }
        EvalSha { sha1, keys, args } => { t.push(ts(sha1)); vs(keys, &mut t); vd(args, &mut t); "EvalSha" }
        ScriptLoad(s) => { t.push(ts(s)); "ScriptLoad" }
        ScriptExists(v) => { vs(v, &mut t); "ScriptExists" }
        ScriptFlush => "ScriptFlush",
        SetNx(k, v) => { t.extend([ts(k), td(v)]); "SetNx" }
        Info => "Info",
        Ping(m) => { t.push(m.as_ref().map(td).unwrap_or_else(|| "-".into())); "Ping" }
        DbSize => "DbSize",
        Auth { username, password } => { t.extend([os(username), ts(password)]); "Auth" }
        AclWhoami => "AclWhoami",
        AclList => "AclList",
        AclUsers => "AclUsers",
        AclGetUser { username } => { t.push(ts(username)); "AclGetUser" }
        AclSetUser { username, rules } => { t.push(ts(username)); vs(rules, &mut t); "AclSetUser" }
        AclDelUser { usernames } => { vs(usernames, &mut t); "AclDelUser" }
        AclCat { category } => { t.push(os(category)); "AclCat" }
        AclGenPass { bits } => { t.push(bits.map(|b| tn(b as u64)).unwrap_or_else(|| "-".into())); "AclGenPass" }
        AclDryrun { username, command, args } => { t.extend([ts(username), ts(command)]); vs(args, &mut t); "AclDryrun" }
        AclLog { count } => { t.push(count.map(|n| tn(n as u64)).unwrap_or_else(|| "-".into())); "AclLog" }
        AclLogReset => "AclLogReset",
        ConfigGet(p) => { t.push(ts(p)); "ConfigGet" }
        ConfigSet(a, b) => { t.extend([ts(a), ts(b)]); "ConfigSet" }
        ConfigResetStat => "ConfigResetStat",
        Select(n) => { t.push(tn(*n)); "Select" }
        Echo(m) => { t.push(td(m)); "Echo" }
        CommandCommand => "CommandCommand",
        CommandCount => "CommandCount",
        FunctionFlush => "FunctionFlush",
        ClientSetName(n) => { t.push(ts(n)); "ClientSetName" }
        ClientGetName => "ClientGetName",
        ClientId => "ClientId",
        ClientInfo => "ClientInfo",
        ObjectHelp => "ObjectHelp",
        ObjectEncoding(k) => { t.push(ts(k)); "ObjectEncoding" }
        ObjectRefCount(k) => { t.push(ts(k)); "ObjectRefCount" }
        ObjectIdleTime(k) => { t.push(ts(k)); "ObjectIdleTime" }
        ObjectFreq(k) => { t.push(ts(k)); "ObjectFreq" }
        DebugSleep(x) => { t.push(tf(*x)); "DebugSleep" }
        DebugSet(a, b) => { t.extend([ts(a), ts(b)]); "DebugSet" }
        DebugObject(k) => { t.push(ts(k)); "DebugObject" }
        RandomKey => "RandomKey",
        Rename(a, b) => { t.extend([ts(a), ts(b)]); "Rename" }
        RenameNx(a, b) => { t.extend([ts(a), ts(b)]); "RenameNx" }
        Unknown(n) => { t.push(ts(n)); "Unknown" }
    };
    let mut s = format!("OK {}", name);
    for x in t {
        s.push(' ');
        s.push_str(&x);
    }
    s
}

// ---------------------------------------------------------------------------------------------
// the three entry paths
// ---------------------------------------------------------------------------------------------

type Frame = Vec<Vec<u8>>;

#[derive(Clone, Debug)]
pub enum Parsed {
    Ok(Command, String), // command + canonical text
    Err(String),
    Crash,
}

impl Parsed {
    fn line(&self) -> String {
        match self {
            Parsed::Ok(_, c) => c.clone(),
            Parsed::Err(e) => format!("ERR {}", hex(e.as_bytes())),
            Parsed::Crash => "crash".into(),
        }
    }
}

fn quiet_panics<T>(f: impl FnOnce() -> T) -> Result<T, ()> {
    catch_unwind(AssertUnwindSafe(f)).map_err(|_| ())
}

fn parse_sim(frame: &Frame) -> Parsed {
    let v = RespValue::Array(Some(frame.iter().map(|a| RespValue::BulkString(Some(a.clone()))).collect()));
    match quiet_panics(|| Command::from_resp(&v)) {
        Ok(Ok(c)) => { let s = canon(&c); Parsed::Ok(c, s) }
        Ok(Err(e)) => Parsed::Err(e),
        Err(()) => Parsed::Crash,
    }
}

fn parse_zc(frame: &Frame) -> Parsed {
    let v = RespValueZeroCopy::Array(Some(
        frame.iter().map(|a| RespValueZeroCopy::BulkString(Some(Bytes::from(a.clone())))).collect(),
    ));
    match quiet_panics(|| Command::from_resp_zero_copy(&v)) {
        Ok(Ok(c)) => { let s = canon(&c); Parsed::Ok(c, s) }
        Ok(Err(e)) => Parsed::Err(e),
        Err(()) => Parsed::Crash,
    }
}

const PCALL: &str = "return redis.pcall(table.unpack(ARGV))";
const CALL: &str = "return redis.call(table.unpack(ARGV))";

fn eval(ex: &mut CommandExecutor, script: &str, argv: &Frame) -> Result<RespValue, ()> {
    let cmd = Command::Eval {
        script: script.to_string(),
        keys: vec![],
        args: argv.iter().map(|a| SDS::new(a.clone())).collect(),
    };
    quiet_panics(|| ex.execute(&cmd))
}

/// virtual time at which the twins are primed and the command under test runs
const T0_MS: u64 = 1_000_000;
/// the clock is advanced to these instants after the command; the keyspace (with remaining TTLs) is
/// compared at each: past the short deadlines (primed 50 s, EX/PX arguments of the generators), then
/// past every primed deadline
const LATER_MS: [u64; 3] = [T0_MS + 8_000, T0_MS + 60_000, T0_MS + 2_000_000];

/// a non-UTF-8 element present in every primed container (and the first byte variant of the sweeps)
const BIN: &[u8] = b"\xff\x00\xfe";
/// the primed keyspace, described for replay files
const PRIMED: &str = "t=1000000ms; TTL-carrying: s='10'(100s) l=[a,b,c,BIN](200s) st={a,b,BIN}(50s) h={f:1,g:x,BIN:BIN}(300s) z={a:1,b:2,c:3,BIN:4}(400s) n='7'(5s), BIN = ff 00 fe; without TTL: t='text' l2=[x,y] st2={a,c} h2={f:5} z2={a:1,m:9} c='41'; x='gone' whose deadline (t-4s) has passed but which was never evicted";

/// a keyspace with keys of every type, with and without a TTL, at a non-zero virtual time
/// (both twins start from it)
fn primed() -> CommandExecutor {
    let mut e = CommandExecutor::new();
    let sd = |s: &str| SDS::from_str(s);
    // `x`: its deadline has passed at T0 but it was never evicted (the clock moved without the eviction pass)
    e.set_time(VirtualTime::from_millis(T0_MS - 5_000));
    e.execute(&Command::set("x".into(), sd("gone")));
    e.execute(&Command::expire("x".into(), 1));
    e.update_time_readonly(VirtualTime::from_millis(T0_MS));
    let zadd = |k: &str, ps: Vec<(f64, SDS)>| Command::ZAdd { key: k.into(), pairs: ps, nx: false, xx: false, gt: false, lt: false, ch: false };
    e.execute(&Command::set("s".into(), sd("10")));
    e.execute(&Command::set("t".into(), sd("text")));
    e.execute(&Command::set("n".into(), sd("7")));
    e.execute(&Command::set("c".into(), sd("41")));
    // every container also holds the binary element BIN, so that removals / lookups with a binary
    // argument hit an existing entry (a lossy conversion in one path then changes the effect)
    let bin = || SDS::new(BIN.to_vec());
    e.execute(&Command::RPush("l".into(), vec![sd("a"), sd("b"), sd("c"), bin()]));
    e.execute(&Command::RPush("l2".into(), vec![sd("x"), sd("y")]));
    e.execute(&Command::SAdd("st".into(), vec![sd("a"), sd("b"), bin()]));
    e.execute(&Command::SAdd("st2".into(), vec![sd("a"), sd("c")]));
    e.execute(&Command::HSet("h".into(), vec![(sd("f"), sd("1")), (sd("g"), sd("x")), (bin(), bin())]));
    e.execute(&Command::HSet("h2".into(), vec![(sd("f"), sd("5"))]));
    e.execute(&zadd("z", vec![(1.0, sd("a")), (2.0, sd("b")), (3.0, sd("c")), (4.0, bin())]));
    e.execute(&zadd("z2", vec![(1.0, sd("a")), (9.0, sd("m"))]));
    for (k, secs) in [("s", 100), ("l", 200), ("st", 50), ("h", 300), ("z", 400), ("n", 5)] {
        e.execute(&Command::expire(k.into(), secs));
    }
    e
}

// ---------------------------------------------------------------------------------------------
// RESP / Lua value text (line protocol of the L2R / R2L / RT ops)
// ---------------------------------------------------------------------------------------------

fn show_resp(r: &RespValue) -> String {
    match r {
        RespValue::SimpleString(s) => format!("+{}", hex(s.as_bytes())),
        RespValue::Error(s) => format!("-{}", hex(s.as_bytes())),
        RespValue::Integer(i) => format!(":{}", i),
        RespValue::BulkString(None) => "$-".into(),
        RespValue::BulkString(Some(b)) => format!("${}", hex(b)),
        RespValue::Array(None) => "*-".into(),
        RespValue::Array(Some(xs)) => {
            let mut v = vec![format!("*{}", xs.len())];
            v.extend(xs.iter().map(show_resp));
            v.join(" ")
        }
    }
}

/// replies whose element order comes out of a hash container: compare as sorted
fn normalise_reply(cmd: &Command, r: RespValue) -> RespValue {
    match (cmd, r) {
        (Command::SMembers(_), RespValue::Array(Some(mut xs))) => {
            xs.sort_by_key(show_resp);
            RespValue::Array(Some(xs))
        }
        (Command::HGetAll(_), RespValue::Array(Some(xs))) if xs.len() % 2 == 0 => {
            let mut ps: Vec<(RespValue, RespValue)> = xs.chunks(2).map(|c| (c[0].clone(), c[1].clone())).collect();
            ps.sort_by_key(|p| show_resp(&p.0));
            RespValue::Array(Some(ps.into_iter().flat_map(|(a, b)| [a, b]).collect()))
        }
        (_, r) => r,
    }
}

/// keyspace dump through public read commands (sorted by key)
fn dump(ex: &mut CommandExecutor) -> String {
    let mut keys: Vec<String> = ex.get_data().keys().cloned().collect();
    keys.sort();
    let mut out = Vec::new();
    for k in keys {
        let ty = match ex.execute(&Command::TypeOf(k.clone())) {
            RespValue::SimpleString(s) => s.to_string(),
            o => show_resp(&o),
        };
        let (cmd, sorted) = match ty.as_str() {
            "string" => (Command::Get(k.clone()), false),
            "list" => (Command::LRange(k.clone(), 0, -1), false),
            "set" => (Command::SMembers(k.clone()), true),
            "hash" => (Command::HGetAll(k.clone()), true),
            "zset" => (Command::ZRange(k.clone(), 0, -1, true), false),
            _ => (Command::Exists(vec![k.clone()]), false),
        };
        let r = ex.execute(&cmd);
        let r = if sorted { normalise_reply(&cmd, r) } else { r };
        let ttl = ex.execute(&Command::Pttl(k.clone()));
        out.push(format!("{}={}:{}:ttl{}", hex(k.as_bytes()), ty, show_resp(&r), show_resp(&ttl)));
    }
    out.join(";")
}

/// the keyspace (values and remaining TTLs) now and after the clock has passed the earlier deadlines
fn dumps(ex: &mut CommandExecutor) -> Vec<String> {
    let mut v = vec![format!("@{}ms {}", ex.get_current_time().as_millis(), dump(ex))];
    for t in LATER_MS {
        ex.set_time(VirtualTime::from_millis(t));
        v.push(format!("@{}ms {}", t, dump(ex)));
    }
    v
}

// ---------------------------------------------------------------------------------------------
// generators
// ---------------------------------------------------------------------------------------------

/// name, smallest valid argument template, option keywords, largest "interesting" arity
struct Shape {
    name: &'static str,
    tmpl: &'static str, // K key, V value, I int, U unsigned, F float, S string, M member
    kws: &'static [&'static str],
}

const NOKW: &[&str] = &[];
const SHAPES: &[Shape] = &[
    Shape { name: "PING", tmpl: "", kws: NOKW }, Shape { name: "INFO", tmpl: "", kws: NOKW },
    Shape { name: "TIME", tmpl: "", kws: NOKW }, Shape { name: "DBSIZE", tmpl: "", kws: NOKW },
    Shape { name: "CONFIG", tmpl: "", kws: &["GET", "SET", "RESETSTAT", "REWRITE"] },
    Shape { name: "SELECT", tmpl: "U", kws: NOKW }, Shape { name: "ECHO", tmpl: "V", kws: NOKW },
    Shape { name: "AUTH", tmpl: "S", kws: NOKW },
    Shape { name: "ACL", tmpl: "", kws: &["WHOAMI", "LIST", "USERS", "GETUSER", "SETUSER", "DELUSER", "CAT", "GENPASS", "DRYRUN", "LOG", "RESET", "HELP", "LOAD", "SAVE"] },
    Shape { name: "FLUSHDB", tmpl: "", kws: NOKW }, Shape { name: "FLUSHALL", tmpl: "", kws: NOKW },
    Shape { name: "MULTI", tmpl: "", kws: NOKW }, Shape { name: "EXEC", tmpl: "", kws: NOKW },
    Shape { name: "DISCARD", tmpl: "", kws: NOKW }, Shape { name: "WATCH", tmpl: "K", kws: NOKW },
    Shape { name: "UNWATCH", tmpl: "", kws: NOKW },
    Shape { name: "EVAL", tmpl: "SI", kws: NOKW }, Shape { name: "EVALSHA", tmpl: "SI", kws: NOKW },
    Shape { name: "SCRIPT", tmpl: "", kws: &["LOAD", "EXISTS", "FLUSH", "KILL"] },
    Shape { name: "GET", tmpl: "K", kws: NOKW },
    Shape { name: "SET", tmpl: "KV", kws: &["NX", "XX", "GET", "EX", "PX", "EXAT", "PXAT", "KEEPTTL", "IFEQ", "IFGT"] },
    Shape { name: "SETEX", tmpl: "KIV", kws: NOKW }, Shape { name: "SETNX", tmpl: "KV", kws: NOKW },
    Shape { name: "DEL", tmpl: "K", kws: NOKW }, Shape { name: "EXISTS", tmpl: "K", kws: NOKW },
    Shape { name: "TYPE", tmpl: "K", kws: NOKW }, Shape { name: "KEYS", tmpl: "S", kws: NOKW },
    Shape { name: "EXPIRE", tmpl: "KI", kws: &["NX", "XX", "GT", "LT"] },
    Shape { name: "PEXPIRE", tmpl: "KI", kws: &["NX", "XX", "GT", "LT"] },
    Shape { name: "EXPIREAT", tmpl: "KI", kws: NOKW }, Shape { name: "PEXPIREAT", tmpl: "KI", kws: NOKW },
    Shape { name: "TTL", tmpl: "K", kws: NOKW }, Shape { name: "PTTL", tmpl: "K", kws: NOKW },
    Shape { name: "PERSIST", tmpl: "K", kws: NOKW },
    Shape { name: "INCR", tmpl: "K", kws: NOKW }, Shape { name: "DECR", tmpl: "K", kws: NOKW },
    Shape { name: "INCRBY", tmpl: "KI", kws: NOKW }, Shape { name: "DECRBY", tmpl: "KI", kws: NOKW },
    Shape { name: "APPEND", tmpl: "KV", kws: NOKW }, Shape { name: "GETSET", tmpl: "KV", kws: NOKW },
    Shape { name: "STRLEN", tmpl: "K", kws: NOKW }, Shape { name: "MGET", tmpl: "K", kws: NOKW },
    Shape { name: "MSET", tmpl: "KV", kws: NOKW }, Shape { name: "MSETNX", tmpl: "KV", kws: NOKW },
    Shape { name: "LPUSH", tmpl: "KV", kws: NOKW }, Shape { name: "RPUSH", tmpl: "KV", kws: NOKW },
    Shape { name: "LPOP", tmpl: "K", kws: NOKW }, Shape { name: "RPOP", tmpl: "K", kws: NOKW },
    Shape { name: "LRANGE", tmpl: "KII", kws: NOKW }, Shape { name: "LLEN", tmpl: "K", kws: NOKW },
    Shape { name: "LINDEX", tmpl: "KI", kws: NOKW }, Shape { name: "LSET", tmpl: "KIV", kws: NOKW },
    Shape { name: "LTRIM", tmpl: "KII", kws: NOKW }, Shape { name: "RPOPLPUSH", tmpl: "KK", kws: NOKW },
    Shape { name: "LMOVE", tmpl: "KK", kws: &["LEFT", "RIGHT"] },
    Shape { name: "SADD", tmpl: "KM", kws: NOKW }, Shape { name: "SMEMBERS", tmpl: "K", kws: NOKW },
    Shape { name: "SISMEMBER", tmpl: "KM", kws: NOKW }, Shape { name: "SREM", tmpl: "KM", kws: NOKW },
    Shape { name: "SCARD", tmpl: "K", kws: NOKW }, Shape { name: "SPOP", tmpl: "K", kws: NOKW },
    Shape { name: "HSET", tmpl: "KMV", kws: NOKW }, Shape { name: "HGET", tmpl: "KM", kws: NOKW },
    Shape { name: "HGETALL", tmpl: "K", kws: NOKW }, Shape { name: "HINCRBY", tmpl: "KMI", kws: NOKW },
    Shape { name: "HDEL", tmpl: "KM", kws: NOKW }, Shape { name: "HKEYS", tmpl: "K", kws: NOKW },
    Shape { name: "HVALS", tmpl: "K", kws: NOKW }, Shape { name: "HLEN", tmpl: "K", kws: NOKW },
    Shape { name: "HEXISTS", tmpl: "KM", kws: NOKW },
    Shape { name: "ZADD", tmpl: "KFM", kws: &["NX", "XX", "GT", "LT", "CH", "INCR"] },
    Shape { name: "ZRANGE", tmpl: "KII", kws: &["WITHSCORES", "REV", "BYSCORE"] },
    Shape { name: "ZREVRANGE", tmpl: "KII", kws: &["WITHSCORES"] },
    Shape { name: "ZSCORE", tmpl: "KM", kws: NOKW }, Shape { name: "ZREM", tmpl: "KM", kws: NOKW },
    Shape { name: "ZRANK", tmpl: "KM", kws: NOKW }, Shape { name: "ZCARD", tmpl: "K", kws: NOKW },
    Shape { name: "ZCOUNT", tmpl: "KFF", kws: NOKW },
    Shape { name: "ZRANGEBYSCORE", tmpl: "KFF", kws: &["WITHSCORES", "LIMIT"] },
    Shape { name: "SCAN", tmpl: "U", kws: &["MATCH", "COUNT", "TYPE"] },
    Shape { name: "HSCAN", tmpl: "KU", kws: &["MATCH", "COUNT", "NOVALUES"] },
    Shape { name: "ZSCAN", tmpl: "KU", kws: &["MATCH", "COUNT"] },
    Shape { name: "FUNCTION", tmpl: "", kws: &["FLUSH", "LIST"] },
    Shape { name: "COMMAND", tmpl: "", kws: &["COUNT", "DOCS"] },
    Shape { name: "CLIENT", tmpl: "", kws: &["SETNAME", "GETNAME", "ID", "INFO", "LIST"] },
    Shape { name: "OBJECT", tmpl: "", kws: &["HELP", "ENCODING", "REFCOUNT", "IDLETIME", "FREQ"] },
    Shape { name: "DEBUG", tmpl: "", kws: &["SLEEP", "OBJECT", "JMAP", "RELOAD", "SET-ACTIVE-EXPIRE", "LOADAOF", "QUICKLIST-PACKED-THRESHOLD"] },
    Shape { name: "GETRANGE", tmpl: "KII", kws: NOKW }, Shape { name: "SUBSTR", tmpl: "KII", kws: NOKW },
    Shape { name: "SETRANGE", tmpl: "KIV", kws: NOKW }, Shape { name: "SETBIT", tmpl: "KUI", kws: NOKW },
    Shape { name: "GETBIT", tmpl: "KU", kws: NOKW },
    Shape { name: "GETEX", tmpl: "K", kws: &["EX", "PX", "EXAT", "PXAT", "PERSIST"] },
    Shape { name: "GETDEL", tmpl: "K", kws: NOKW }, Shape { name: "INCRBYFLOAT", tmpl: "KF", kws: NOKW },
    Shape { name: "PSETEX", tmpl: "KIV", kws: NOKW }, Shape { name: "EXPIRETIME", tmpl: "K", kws: NOKW },
    Shape { name: "PEXPIRETIME", tmpl: "K", kws: NOKW }, Shape { name: "UNLINK", tmpl: "K", kws: NOKW },
    Shape { name: "WAIT", tmpl: "II", kws: NOKW }, Shape { name: "SORT", tmpl: "K", kws: &["STORE", "ASC", "ALPHA", "DESC", "LIMIT", "BY", "GET"] },
    Shape { name: "RANDOMKEY", tmpl: "", kws: NOKW }, Shape { name: "RENAME", tmpl: "KK", kws: NOKW },
    Shape { name: "RENAMENX", tmpl: "KK", kws: NOKW },
    // names no grammar knows
    Shape { name: "HMGET", tmpl: "KM", kws: NOKW }, Shape { name: "FOO", tmpl: "", kws: NOKW },
    Shape { name: "", tmpl: "", kws: NOKW },
];

const NUMS: &[&str] = &[
    "0", "1", "-1", "2", "3", "5", "10", "15", "16", "100", "+5", "007", "-0", "1e3", "1E3", "inf", "-inf", "+inf", "nan", "NaN", "-nan",
    "infinity", "INFINITY", "Inf", "", "9223372036854775807", "-9223372036854775808", "9223372036854775808",
    "-9223372036854775809", "18446744073709551615", "18446744073709551616", "4294967295", "4294967296",
    "99999999999999999999x", "x99999999999999999999", "00000000000000000000000000000001", "1.5", "-2.5", "0.0", " 1", "1 ", "0x10", "1_000",
    ".5", "5.", ".", "1e", "1e+", "1e+2", "1e-2", "100e-2", "+", "-", "--1", "+-1", "1e400", "-1e400", "1e-400", "4.9e-324", "2.4e-324", "2.5e-324",
    "1.7976931348623157e308", "1.7976931348623159e308", "1.797693134862315807e308", "0.1", "0.30000000000000004", "9007199254740993",
    "9007199254740992", "123456789012345678901234567890", "0.99999999999999999999", "1e22", "1e23", "8.5", "3.7", "-3", "-4", "-2",
    "2.2250738585072014e-308", "2.2250738585072011e-308", "１", "1\u{0}",
];

const KEYS: &[&[u8]] = &[b"s", b"t", b"l", b"st", b"h", b"z", b"missing", b"k", b"n", b"c", b"l2", b"st2", b"h2", b"z2", b"x", b"", b"\xff\xfe", b"\xc3\x28", b"\xe2\x82\xac", b"key with space", b"\xf0\x9f\x98\x80", b"\xed\xa0\x80", b"\xe2\x82"];
const VALS: &[&[u8]] = &[b"v", b"10", b"a", b"b", b"f", b"g", b"", b"\x00\xff\r\n", b"nx", b"NX", b"EX", b"\xe6\x97\xa5\xe6\x9c\xac", b"\xc5\xbf", b"\xef\xac\x81", b"*", b"a*", b"(1", b"-inf", b"+inf"];

fn pick_bytes(rng: &mut Rng, pool: &[&[u8]]) -> Vec<u8> {
    rng.pick(pool).to_vec()
}

fn slot(rng: &mut Rng, c: char) -> Vec<u8> {
    // mostly of the right kind, sometimes anything
    if rng.chance(1, 10) {
        return match rng.below(3) {
            0 => rng.pick(NUMS).as_bytes().to_vec(),
            1 => pick_bytes(rng, KEYS),
            _ => pick_bytes(rng, VALS),
        };
    }
    match c {
        'K' => {
            if rng.chance(4, 5) { pick_bytes(rng, &KEYS[..15]) } else { pick_bytes(rng, KEYS) }
        }
        'V' | 'M' | 'S' => pick_bytes(rng, VALS),
        'I' | 'U' | 'F' => {
            if rng.chance(1, 2) { rng.pick(&NUMS[..12]).as_bytes().to_vec() } else { rng.pick(NUMS).as_bytes().to_vec() }
        }
        _ => pick_bytes(rng, VALS),
    }
}

/// ASCII case variants + the non-ASCII characters whose upper case contains ASCII letters
fn recase(rng: &mut Rng, w: &str, mode: u64) -> Vec<u8> {
    match mode {
        0 => w.to_ascii_uppercase().into_bytes(),
        1 => w.to_ascii_lowercase().into_bytes(),
        2 => w.chars().map(|c| if rng.chance(1, 2) { c.to_ascii_lowercase() } else { c.to_ascii_uppercase() }).collect::<String>().into_bytes(),
        _ => {
            // special characters: ſ → S, ı → I, ﬁ → FI, ﬂ → FL, ﬆ → ST, ﬀ → FF, ß → SS
            let mut s = w.to_ascii_lowercase();
            for (a, b) in [("st", "\u{fb06}"), ("fi", "\u{fb01}"), ("fl", "\u{fb02}"), ("ff", "\u{fb00}"), ("ss", "\u{df}")] {
                if rng.chance(2, 3) { s = s.replacen(a, b, 1); }
            }
            if rng.chance(2, 3) { s = s.replacen('s', "\u{17f}", 1); }
            if rng.chance(1, 2) { s = s.replacen('i', "\u{131}", 1); }
            s.into_bytes()
        }
    }
}

fn base_frame(rng: &mut Rng, sh: &Shape, case_mode: u64) -> Frame {
    let mut f: Frame = vec![recase(rng, sh.name, case_mode)];
    for c in sh.tmpl.chars() {
        f.push(slot(rng, c));
    }
    f
}

fn add_options(rng: &mut Rng, sh: &Shape, f: &mut Frame) {
    if sh.kws.is_empty() {
        // variadic tails
        for _ in 0..rng.below(3) {
            let c = sh.tmpl.chars().last().unwrap_or('V');
            f.push(slot(rng, c));
        }
        return;
    }
    let n = rng.below(4);
    for _ in 0..n {
        let kw = *rng.pick(sh.kws);
        let m = rng.below(8);
        f.push(recase(rng, kw, if m < 3 { m } else { 0 }));
        let wants_val = matches!(kw, "EX" | "PX" | "EXAT" | "PXAT" | "MATCH" | "COUNT" | "STORE" | "LIMIT" | "GET" | "SET" | "GETUSER" | "SETUSER" | "DELUSER" | "CAT" | "GENPASS" | "DRYRUN" | "LOG" | "LOAD" | "EXISTS" | "SETNAME" | "ENCODING" | "REFCOUNT" | "IDLETIME" | "FREQ" | "SLEEP" | "OBJECT" | "JMAP" | "LEFT" | "RIGHT");
        if wants_val && rng.chance(5, 6) {
            f.push(slot(rng, if matches!(kw, "MATCH" | "STORE" | "GET" | "SET" | "GETUSER" | "SETUSER" | "DELUSER" | "CAT" | "DRYRUN" | "LOAD" | "EXISTS" | "SETNAME" | "ENCODING" | "REFCOUNT" | "IDLETIME" | "FREQ" | "OBJECT") { 'S' } else { 'I' }));
            if kw == "LIMIT" && rng.chance(5, 6) { f.push(slot(rng, 'I')); }
            if (kw == "SET" || kw == "DRYRUN" || kw == "SETUSER") && rng.chance(3, 4) { f.push(slot(rng, 'S')); }
        }
    }
}


// ---------------------------------------------------------------------------------------------
// what the model of the CURRENT code predicts for the redis.call translator (`Props/C16.lean`:
// `luaErrTable`, proved complete by `lua_error_alphabet`; `lua_unknown_iff_not_in_luaTable`).
// A recorded finding is reported only for the inputs these tables name; everything else gets an
// unlisted signature with the concrete frame.  The table is compared with the Lean model on every
// run (`LT` ops), so it cannot drift from the model silently.
// ---------------------------------------------------------------------------------------------

/// name, arity text, error literals, prefixes of formatted errors — one row per translator entry
const LUA_TABLE: &[(&str, &str, &[&str], &[&str])] = &[
    ("GET", "GET requires 1 argument", &[], &[]),
    ("SET", "SET requires at least 2 arguments", &["SET EX must be integer", "SET EX requires value", "SET PX must be integer", "SET PX requires value", "ERR XX and NX options at the same time are not compatible"], &["Unknown SET option: "]),
    ("DEL", "DEL requires at least 1 argument", &[], &[]),
    ("INCR", "INCR requires 1 argument", &[], &[]),
    ("DECR", "DECR requires 1 argument", &[], &[]),
    ("INCRBY", "INCRBY requires 2 arguments", &["INCRBY increment must be integer"], &[]),
    ("HGET", "HGET requires 2 arguments", &[], &[]),
    ("HSET", "HSET requires key and field-value pairs", &[], &[]),
    ("HDEL", "HDEL requires key and at least 1 field", &[], &[]),
    ("LPUSH", "LPUSH requires key and at least 1 value", &[], &[]),
    ("RPUSH", "RPUSH requires key and at least 1 value", &[], &[]),
    ("LPOP", "LPOP requires 1 argument", &[], &[]),
    ("RPOP", "RPOP requires 1 argument", &[], &[]),
    ("LLEN", "LLEN requires 1 argument", &[], &[]),
    ("SADD", "SADD requires key and at least 1 member", &[], &[]),
    ("SREM", "SREM requires key and at least 1 member", &[], &[]),
    ("SMEMBERS", "SMEMBERS requires 1 argument", &[], &[]),
    ("EXISTS", "EXISTS requires at least 1 argument", &[], &[]),
    ("EXPIRE", "EXPIRE requires 2 arguments", &["EXPIRE seconds must be integer"], &[]),
    ("TTL", "TTL requires 1 argument", &[], &[]),
    ("TYPE", "TYPE requires 1 argument", &[], &[]),
    ("HINCRBY", "HINCRBY requires 3 arguments", &["HINCRBY increment must be integer"], &[]),
    ("LRANGE", "LRANGE requires 3 arguments", &["LRANGE start must be integer", "LRANGE stop must be integer"], &[]),
    ("RPOPLPUSH", "RPOPLPUSH requires 2 arguments", &[], &[]),
    ("LMOVE", "LMOVE requires 4 arguments", &["LMOVE wherefrom must be LEFT or RIGHT", "LMOVE whereto must be LEFT or RIGHT"], &[]),
    ("HGETALL", "HGETALL requires 1 argument", &[], &[]),
    ("SISMEMBER", "SISMEMBER requires 2 arguments", &[], &[]),
    ("ZADD", "ZADD requires key and score-member pairs", &["ZADD requires score-member pairs", "ZADD score must be a number"], &[]),
    ("ZREM", "ZREM requires key and at least 1 member", &[], &[]),
    ("ZRANGE", "ZRANGE requires 3 arguments", &["ZRANGE start must be integer", "ZRANGE stop must be integer"], &[]),
    ("ZSCORE", "ZSCORE requires 2 arguments", &[], &[]),
    ("ZCARD", "ZCARD requires 1 argument", &[], &[]),
    ("ZCOUNT", "ZCOUNT requires 3 arguments", &[], &[]),
    ("ZRANGEBYSCORE", "ZRANGEBYSCORE requires at least 3 arguments", &["ZRANGEBYSCORE LIMIT offset must be integer", "ZRANGEBYSCORE LIMIT count must be integer", "ZRANGEBYSCORE LIMIT requires offset and count"], &["Unknown ZRANGEBYSCORE option: "]),
];

const INT: &str = "ERR value is not an integer or out of range";
const FLT: &str = "ERR value is not a valid float";

/// every error text `from_resp` answers for a command the translator also knows (a trailing `*`
/// marks a prefix): the other half of an expected (translator text, client-path text) pair
fn direct_texts(name: &str) -> Vec<String> {
    let wrong = |n: &str| format!("ERR wrong number of arguments for '{}' command", n);
    let v: Vec<String> = match name {
        "GET" | "INCR" | "DECR" => vec![wrong(&name.to_lowercase())],
        "INCRBY" => vec![wrong("incrby"), INT.into()],
        "SET" => ["SET requires at least 2 arguments", "SET EX requires a value", "SET PX requires a value", "SET EXAT requires a value", "SET PXAT requires a value", INT,
            "ERR syntax error", "SET IFEQ option not yet supported", "SET IFGT option not yet supported", "ERR XX and NX options at the same time are not compatible"].iter().map(|s| s.to_string()).collect(),
        "DEL" | "EXISTS" => vec![format!("{} requires at least 1 argument", name)],
        "HDEL" | "LPUSH" | "RPUSH" | "SADD" | "SREM" | "ZREM" => vec![format!("{} requires at least 2 arguments", name)],
        "LPOP" | "RPOP" | "LLEN" | "SMEMBERS" | "TTL" | "TYPE" | "HGETALL" | "ZCARD" => vec![format!("{} requires 1 argument", name)],
        "HGET" | "RPOPLPUSH" | "SISMEMBER" | "ZSCORE" => vec![format!("{} requires 2 arguments", name)],
        "HSET" => vec!["HSET requires key and field-value pairs".into()],
        "EXPIRE" => vec!["EXPIRE requires at least 2 arguments".into(), INT.into(), "ERR Unsupported option *".into(),
            "ERR NX and XX, GT or LT options at the same time are not compatible".into(), "ERR GT and LT options at the same time are not compatible".into()],
        "HINCRBY" => vec!["HINCRBY requires 3 arguments".into(), INT.into()],
        "LRANGE" => vec!["LRANGE requires 3 arguments".into(), INT.into()],
        "LMOVE" => vec!["LMOVE requires 4 arguments".into(), "LMOVE wherefrom must be LEFT or RIGHT".into(), "LMOVE whereto must be LEFT or RIGHT".into()],
        "ZADD" => vec!["ZADD requires key and score-member pairs".into(), "ZADD requires score-member pairs".into(), FLT.into()],
        "ZRANGE" => vec!["ZRANGE requires 3 or 4 arguments".into(), INT.into()],
        "ZCOUNT" => vec!["ZCOUNT requires 3 arguments".into()],
        "ZRANGEBYSCORE" => vec!["ZRANGEBYSCORE requires at least 3 arguments".into(), "LIMIT requires offset and count".into(), INT.into(), "Unknown ZRANGEBYSCORE option: *".into()],
        _ => vec![],
    };
    v
}

fn pat_match(pat: &str, text: &str) -> bool {
    match pat.strip_suffix('*') {
        Some(pre) => text.starts_with(pre),
        None => pat == text,
    }
}

fn lua_row(name: &str) -> Option<&'static (&'static str, &'static str, &'static [&'static str], &'static [&'static str])> {
    LUA_TABLE.iter().find(|r| r.0 == name)
}

/// is `text` an error the model's translator entry for `name` can answer?
fn lua_text_expected(name: &str, text: &str) -> bool {
    match lua_row(name) {
        Some(r) => r.1 == text || r.2.contains(&text) || r.3.iter().any(|p| text.starts_with(p)),
        None => false,
    }
}

/// the normalised command name as all three grammars compute it
fn kw_name(f: &Frame) -> String {
    String::from_utf8_lossy(&f[0]).to_uppercase()
}

/// `lua_to_resp(resp_to_lua_value(r))` as the model of the current code predicts it: a nil array is
/// a nil bulk, an array ends at its first nil element
fn model_conv(r: &RespValue) -> RespValue {
    match r {
        RespValue::Array(None) => RespValue::BulkString(None),
        RespValue::Array(Some(xs)) => {
            let mut out = Vec::new();
            for x in xs {
                if matches!(x, RespValue::BulkString(None) | RespValue::Array(None)) { break; }
                out.push(model_conv(x));
            }
            RespValue::Array(Some(out))
        }
        other => other.clone(),
    }
}

fn lua_table_sync(cx: &mut Ctx) {
    for (i, r) in LUA_TABLE.iter().enumerate() {
        let j = |l: &[&str]| l.iter().map(|t| hex(t.as_bytes())).collect::<Vec<_>>().join(";");
        cx.out.op(format!("LT {}", i), format!("name={} arity={} lits={} fmts={}", hex(r.0.as_bytes()), hex(r.1.as_bytes()), j(r.2), j(r.3)));
    }
    cx.out.op(format!("LT {}", LUA_TABLE.len()), "end".to_string());
}

// ---------------------------------------------------------------------------------------------
// the check of one frame: correspondence ops + three-way oracle + effect equality
// ---------------------------------------------------------------------------------------------

fn frame_text(f: &Frame) -> String {
    f.iter().map(|a| hex(a)).collect::<Vec<_>>().join(" ")
}

/// ASCII rendering of the command name (and sub-command of a family) for signatures
fn sig_name(f: &Frame) -> String {
    let clean = |b: &[u8]| -> String {
        let s = String::from_utf8_lossy(b).to_uppercase();
        if !s.is_empty() && s.len() <= 24 && s.bytes().all(|c| c.is_ascii_uppercase() || c.is_ascii_digit() || c == b'-') { s } else { "OTHER".into() }
    };
    if f.is_empty() {
        return "EMPTY".into();
    }
    let n = clean(&f[0]);
    if matches!(n.as_str(), "ACL" | "CONFIG" | "SCRIPT" | "CLIENT" | "OBJECT" | "DEBUG" | "FUNCTION") && f.len() > 1 {
        format!("{}-{}", n, clean(&f[1]))
    } else {
        n
    }
}

pub struct Ctx {
    pub out: Out,
    /// emit the P / Z / LP / RT correspondence ops (off for inputs outside the model's alphabet:
    /// cased non-ASCII letters — there the three real paths are still compared with each other)
    with_model: bool,
    /// also run the frame through `redis.call` (the raising variant) on a third twin
    call_path: bool,
    call_error_samples: Vec<serde_json::Value>,
    lua_unknown: BTreeSet<String>,
    lua_errtext: BTreeSet<String>,
    parse_crash: BTreeSet<String>,
    seen: BTreeSet<String>,
}

#[derive(Debug)]
enum LuaOutcome {
    Accepted(RespValue),
    Rejected(String),
    Crash,
}

fn translator_error_shape(t: &str) -> bool {
    // texts only the translator produces (never an executor reply)
    t.starts_with("ERR Unknown Redis command '")
}

impl Ctx {
    fn check_frame(&mut self, f: &Frame, src: &str) {
        let text = frame_text(f);
        if !self.seen.insert(text.clone()) {
            self.out.count("dup-frame-skipped");
            return;
        }
        let name = sig_name(f);
        let a = parse_sim(f);
        let b = parse_zc(f);
        if self.with_model {
            self.out.op(format!("P {}", text), a.line());
            self.out.op(format!("Z {}", text), b.line());
        } else {
            self.out.count("oracle-only-frame");
        }
        self.out.count(&format!("src:{}", src));
        self.out.count(&format!("arity:{}", f.len().saturating_sub(1).min(9)));
        match &a {
            Parsed::Ok(c, _) => {
                let ctor = canon(c);
                let ctor = ctor.split(' ').nth(1).unwrap_or("?").to_string();
                self.out.count(&format!("sim:ok:{}", if ctor == "Unknown" { "Unknown" } else { "known" }));
            }
            Parsed::Err(_) => self.out.count("sim:err"),
            Parsed::Crash => self.out.count("sim:crash"),
        }
        let replay = |what: &str, extra: serde_json::Value| json!({"what": what, "frame_hex": text, "frame": f.iter().map(|x| String::from_utf8_lossy(x).to_string()).collect::<Vec<_>>(), "detail": extra});

        // ---- oracle 1: the two RESP parsers agree
        if a.line() != b.line() {
            let kind = match (&a, &b) {
                (Parsed::Err(_), Parsed::Err(_)) => "error-text",
                (Parsed::Ok(..), Parsed::Ok(..)) => "command",
                (Parsed::Crash, _) | (_, Parsed::Crash) => "panic",
                _ => "accepts",
            };
            self.out.violation(
                &format!("C16:parsers-differ:{}:{}", kind, name),
                &format!("from_resp and from_resp_zero_copy disagree on {}", name),
                replay("parsers-differ", json!({"from_resp": a.line(), "from_resp_zero_copy": b.line()})),
            );
        }
        if matches!(a, Parsed::Crash) || matches!(b, Parsed::Crash) {
            let class = if name.starts_with("EVAL") { "eval-negative-numkeys" } else { "missing-option-value" };
            self.parse_crash.insert(name.clone());
            self.out.violation(
                &format!("C16:parse-panics:{}", class),
                "a RESP parser panics instead of answering a command or an error text",
                replay("parse-panics", json!({"from_resp": a.line(), "from_resp_zero_copy": b.line()})),
            );
        }

        // ---- the Lua path (needs at least the command name; NUL-free not required: ARGV is binary safe)
        if f.is_empty() {
            self.out.case(&text, false);
            return;
        }
        let mut ex_direct = primed();
        let mut ex_lua = primed();
        let direct: Option<(Command, RespValue)> = match &a {
            Parsed::Ok(c, _) if lua_safe_direct(c) => match quiet_panics(|| ex_direct.execute(c)) {
                Ok(r) => Some((c.clone(), normalise_reply(c, r))),
                Err(()) => None,
            },
            _ => None,
        };
        let lua = match eval(&mut ex_lua, PCALL, f) {
            Err(()) => LuaOutcome::Crash,
            Ok(RespValue::Error(t)) => {
                // replies of the executor start with an error code word; the translator's own texts never do
                // (except the unknown-command text)
                // (except the unknown-command text, and a text the RESP parser answers for the same frame)
                let same_as_parser = matches!(&a, Parsed::Err(e) if e.as_str() == t.as_ref());
                let executor_reply = (t.starts_with("ERR ") || t.starts_with("WRONGTYPE")) && !translator_error_shape(&t) && !same_as_parser;
                if executor_reply {
                    LuaOutcome::Accepted(RespValue::Error(t))
                } else {
                    LuaOutcome::Rejected(t.to_string())
                }
            }
            Ok(r) => LuaOutcome::Accepted(r),
        };
        let lua_line = match &lua {
            LuaOutcome::Accepted(_) => "OK".to_string(),
            LuaOutcome::Rejected(t) => format!("ERR {}", hex(t.as_bytes())),
            LuaOutcome::Crash => "crash".into(),
        };
        if self.with_model {
            self.out.op(format!("LP {}", text), lua_line.clone());
        }
        self.out.count(&format!("lua:{}", match &lua { LuaOutcome::Accepted(_) => "accepted", LuaOutcome::Rejected(t) if translator_error_shape(t) => "unknown-command", LuaOutcome::Rejected(_) => "rejected", LuaOutcome::Crash => "crash" }));

        // the keyspace of the pcall twin now and later (taken once: taking it moves the twin's clock)
        let mut lua_dumps: Option<Vec<String>> = None;
        // ---- oracle 2: Lua path vs direct path
        let mut nontrivial = !matches!(&a, Parsed::Ok(c, _) if matches!(c, Command::Unknown(_)));
        let key = kw_name(f);
        let known_to_model = lua_row(&key).is_some();
        let unknown_text = format!("ERR Unknown Redis command '{}' called from Lua", key);
        match (&a, &lua) {
            (_, LuaOutcome::Rejected(t)) if translator_error_shape(t) => {
                let direct = a.line();
                if matches!(&a, Parsed::Ok(Command::Unknown(_), _)) && !known_to_model && *t == unknown_text {
                    nontrivial = false; // unknown to every grammar
                } else if !known_to_model && *t == unknown_text {
                    // the recorded finding: exactly the names absent from the model's `luaTable`
                    self.lua_unknown.insert(name.split('-').next().unwrap_or("").to_string());
                    self.out.count(&format!("lua-unknown:{}", name));
                    self.out.violation(
                        "C16:lua:command-unknown-to-translator",
                        "redis.call/pcall rejects a command both RESP parsers accept: the translator has no entry for it",
                        replay("lua-unknown-command", json!({"direct": direct, "lua": t})),
                    );
                } else {
                    // a command the model's translator table LISTS came back unknown (or the text names another command)
                    self.out.violation(
                        &format!("C16:lua:known-command-reported-unknown:{}", name),
                        "redis.call answers 'Unknown Redis command' for a command that is in the translator's table according to the model of the current code",
                        replay("lua-known-command-unknown", json!({"direct": direct, "lua": t, "expected_unknown_text_for_this_name": unknown_text})),
                    );
                }
            }
            (Parsed::Ok(..), LuaOutcome::Rejected(t)) => {
                // recorded only for the exact option shapes the model says the translator lacks
                let nargs = f.len() - 1;
                let listed = match key.as_str() {
                    "SET" => ["Unknown SET option: KEEPTTL", "Unknown SET option: EXAT", "Unknown SET option: PXAT"].contains(&t.as_str()),
                    "EXPIRE" => t == "EXPIRE requires 2 arguments" && nargs >= 3,
                    "ZRANGE" => t == "ZRANGE requires 3 arguments" && nargs == 4,
                    _ => false,
                };
                let sig = if listed { format!("C16:lua:translator-rejects-accepted-frame:{}", name) } else { format!("C16:lua:translator-rejects-accepted-frame:{}:unlisted-shape", name) };
                self.out.violation(
                    &sig,
                    "a frame both RESP parsers accept is rejected by the redis.call translator",
                    replay("lua-rejects", json!({"direct": a.line(), "lua": t})),
                );
            }
            (Parsed::Err(e), LuaOutcome::Accepted(r)) => {
                self.out.violation(
                    &format!("C16:lua:translator-accepts-rejected-frame:{}", name),
                    "a frame the RESP parsers reject is executed when it comes through redis.call",
                    replay("lua-accepts", json!({"direct": e, "lua_reply": show_resp(r)})),
                );
            }
            (Parsed::Err(e), LuaOutcome::Rejected(t)) => {
                if e != t {
                    // recorded only for (translator text, client-path text) pairs the model of the current code predicts
                    let listed = lua_text_expected(&key, t) && direct_texts(&key).iter().any(|p| pat_match(p, e));
                    if listed {
                        self.lua_errtext.insert(name.clone());
                        self.out.count(&format!("lua-error-text:{}", name));
                        self.out.violation(
                            "C16:lua:error-text-differs",
                            "the same malformed command gets a different error text through redis.pcall than from the RESP parsers",
                            replay("lua-error-text", json!({"direct": e, "lua": t})),
                        );
                    } else {
                        self.out.violation(
                            &format!("C16:lua:unexpected-error-text:{}", name),
                            "redis.pcall and the RESP parsers answer different error texts, and the pair is not one the model of the current code predicts for this command",
                            replay("lua-unexpected-error-text", json!({"direct": e, "lua": t, "translator_texts_in_model": lua_row(&key).map(|r| json!({"arity": r.1, "literals": r.2, "prefixes": r.3})), "client_path_texts_in_model": direct_texts(&key)})),
                        );
                    }
                } else if !lua_text_expected(&key, t) && known_to_model {
                    // same text on both paths, but not a text the model's translator entry has
                    self.out.count("lua-same-text-outside-table");
                }
            }
            (Parsed::Ok(c, _), LuaOutcome::Accepted(rl)) => {
                // effect equality on the twins
                if let Some((_, rd)) = &direct {
                    let rl = normalise_reply(c, rl.clone());
                    if self.with_model {
                        self.out.op(format!("RT {}", show_resp(rd)), show_resp(&rl));
                    }
                    let same_reply = show_resp(rd) == show_resp(&rl) || (matches!(rd, RespValue::Array(None)) && matches!(rl, RespValue::BulkString(None)));
                    let da = dumps(&mut ex_direct);
                    let dl = lua_dumps.get_or_insert_with(|| dumps(&mut ex_lua)).clone();
                    if !same_reply {
                        // the model of the current code proves that NO command of the translator's table answers an array
                        // that contains a nil (`translator_replies_conv_stable`): such a reply is not the recorded
                        // conversion finding (which needs a script that builds the array itself) but a new difference
                        let class = if contains_nil(rd) && show_resp(&model_conv(rd)) == show_resp(&rl) { format!("C16:lua:translator-command-reply-contains-nil:{}", name) } else { format!("C16:lua:reply-differs:{}", name) };
                        self.out.violation(&class, "the reply of a command run through redis.pcall differs from the reply of the same command sent directly (after the documented conversion)",
                            replay("lua-reply", json!({"primed_state": PRIMED, "direct_reply": show_resp(rd), "lua_reply": show_resp(&rl)})));
                    }
                    if da != dl {
                        self.out.violation(&format!("C16:lua:effect-differs:{}", name), "the keyspace after a command run through redis.pcall differs from the keyspace after the same command sent directly",
                            replay("lua-effect", json!({"primed_state": PRIMED, "direct_dumps": da, "lua_dumps": dl,
                                "first_difference": da.iter().zip(dl.iter()).find(|(x, y)| x != y).map(|(x, y)| json!({"direct": x, "lua": y}))})));
                    }
                    self.out.count("effect-compared");
                }
            }
            (Parsed::Crash, _) | (_, LuaOutcome::Crash) => {}
        }
        // ---- oracle 3: redis.call (raising) against redis.pcall: same effect, same reply, and an error
        // reply surfaces as an error that still carries the command's error text
        if self.call_path {
            let mut ex_call = primed();
            let rc = eval(&mut ex_call, CALL, f);
            let dc = dumps(&mut ex_call);
            let dl = lua_dumps.get_or_insert_with(|| dumps(&mut ex_lua)).clone();
            self.out.count("call-path-compared");
            if dc != dl {
                self.out.violation(&format!("C16:lua:call-vs-pcall:effect-differs:{}", name), "the keyspace after redis.call differs from the keyspace after redis.pcall of the same command",
                    replay("call-effect", json!({"primed_state": PRIMED, "call_dumps": dc, "pcall_dumps": dl})));
            }
            let pcall_err: Option<String> = match &lua {
                LuaOutcome::Accepted(RespValue::Error(t)) => Some(t.to_string()),
                LuaOutcome::Rejected(t) => Some(t.clone()),
                _ => None,
            };
            match (&rc, &lua, pcall_err) {
                (Err(()), _, _) => self.out.violation(&format!("C16:lua:call-panics:{}", name), "EVAL with redis.call panics", replay("call-panic", json!({}))),
                (_, LuaOutcome::Crash, _) => {}
                (Ok(rcv), _, Some(t)) => {
                    // expected: the error text itself (or "ERR <text>" when it has no error-code word), as the client path
                    let mangled_prefix = format!("ERR runtime error: {}\nstack traceback:", t);
                    match rcv {
                        RespValue::Error(ct) if ct.as_ref() == t.as_str() || ct.as_ref() == format!("ERR {}", t) => {
                            self.out.count("call-error-shape:verbatim");
                        }
                        RespValue::Error(ct) if ct.starts_with(&mangled_prefix) => {
                            // the recorded finding: exactly mlua's "runtime error: <text>\nstack traceback: …" wrapping
                            if self.call_error_samples.len() < 3 {
                                self.call_error_samples.push(json!({"frame": f.iter().map(|x| String::from_utf8_lossy(x).to_string()).collect::<Vec<_>>(), "pcall_error": t, "call_reply": ct.to_string()}));
                            }
                            self.out.violation("C16:lua:call-error-text-mangled", "an error raised by redis.call reaches the client as 'ERR runtime error: <text>' plus a stack traceback with raw newlines and a source path, not as the command's error reply",
                                replay("call-error-mangled", json!({"pcall_error": t, "call_reply": ct.to_string()})));
                        }
                        other => self.out.violation(&format!("C16:lua:call-vs-pcall:error-shape:{}", name), "redis.pcall answers an error table; redis.call of the same command must make EVAL answer that error",
                            replay("call-error-shape", json!({"pcall_error": t, "call_reply": show_resp(other)}))),
                    }
                }
                (Ok(rcv), LuaOutcome::Accepted(rl), None) => {
                    let (x, y) = match &a { Parsed::Ok(c, _) => (normalise_reply(c, rcv.clone()), normalise_reply(c, rl.clone())), _ => (rcv.clone(), rl.clone()) };
                    if show_resp(&x) != show_resp(&y) {
                        self.out.violation(&format!("C16:lua:call-vs-pcall:reply-differs:{}", name), "redis.call and redis.pcall answer different replies for a command that succeeds",
                            replay("call-reply", json!({"call_reply": show_resp(&x), "pcall_reply": show_resp(&y)})));
                    }
                }
                (Ok(_), LuaOutcome::Rejected(_), None) => {}
            }
        }
        self.out.case(&text, nontrivial);
        if self.out.samples.len() < 5 && nontrivial && src != "corpus" {
            self.out.sample(json!({"frame": f.iter().map(|x| String::from_utf8_lossy(x).to_string()).collect::<Vec<_>>(), "from_resp": a.line(), "zero_copy": b.line(), "lua": lua_line}));
        }
    }
}

fn contains_nil(r: &RespValue) -> bool {
    match r {
        RespValue::Array(Some(xs)) => xs.iter().any(|x| matches!(x, RespValue::BulkString(None) | RespValue::Array(None)) || contains_nil(x)),
        _ => false,
    }
}

/// commands whose direct execution is meaningful on a bare executor (no nested scripts / txn state)
fn lua_safe_direct(c: &Command) -> bool {
    !matches!(c, Command::Eval { .. } | Command::EvalSha { .. } | Command::DebugSleep(_) | Command::Wait(..))
}

// ---------------------------------------------------------------------------------------------
// small direct ops: upper-casing, float parsing
// ---------------------------------------------------------------------------------------------

fn unicode_sweep(cx: &mut Ctx) {
    // every scalar value whose upper case contains an ASCII character must be in the model's table
    for cp in 0x80u32..=0x10FFFF {
        if let Some(c) = char::from_u32(cp) {
            let up: String = c.to_uppercase().collect();
            if up.bytes().any(|b| b.is_ascii()) {
                let s = c.to_string();
                cx.out.op(format!("UP {}", hex(s.as_bytes())), hex(up.as_bytes()));
                cx.out.count("unicode:upper-expands-to-ascii");
            }
        }
    }
    for w in ["set", "ſet", "SeT", "\u{fb02}ushall", "con\u{fb01}g", "exi\u{fb06}s", "\u{131}ncr", "stra\u{df}e", "€", "日本", "a\u{0}b"] {
        let up = w.to_uppercase();
        cx.out.op(format!("UP {}", hex(w.as_bytes())), hex(up.as_bytes()));
        cx.out.op(format!("LO {}", hex(w.as_bytes())), hex(up.to_lowercase().as_bytes()));
    }
    for raw in [&b"\xff"[..], b"\xc3", b"\xe2\x82", b"a\xe2\x82b", b"\xf0\x9f\x98", b"\xed\xa0\x80", b"\xc0\xaf", b"\xf4\x90\x80\x80", b"\xf0\x80\x80\x80", b"s\xc5et", b"\xe0\x9f\xbf", b"\xf5\x80"] {
        let up = String::from_utf8_lossy(raw).to_uppercase();
        cx.out.op(format!("UP {}", hex(raw)), hex(up.as_bytes()));
    }
}

fn float_sweep(cx: &mut Ctx, rng: &mut Rng, n: u64) {
    let emit = |cx: &mut Ctx, s: &[u8]| {
        let r = String::from_utf8_lossy(s).parse::<f64>();
        let line = match r { Ok(x) => tf(x), Err(_) => "none".into() };
        cx.out.op(format!("F {}", hex(s)), line);
        cx.out.count(if r.is_ok() { "float:accepted" } else { "float:rejected" });
    };
    for s in NUMS {
        emit(cx, s.as_bytes());
    }
    for _ in 0..n {
        // random decimal literals with random exponents (exactness of the rounding model)
        let mut s = String::new();
        if rng.chance(1, 4) { s.push(if rng.chance(1, 2) { '-' } else { '+' }); }
        for _ in 0..rng.range(0, 20) { s.push((b'0' + rng.below(10) as u8) as char); }
        if rng.chance(1, 2) {
            s.push('.');
            for _ in 0..rng.range(0, 22) { s.push((b'0' + rng.below(10) as u8) as char); }
        }
        if rng.chance(1, 2) {
            s.push(if rng.chance(1, 2) { 'e' } else { 'E' });
            if rng.chance(1, 2) { s.push(if rng.chance(1, 2) { '-' } else { '+' }); }
            let e = match rng.below(4) { 0 => rng.below(30), 1 => rng.range(290, 330), 2 => rng.below(400), _ => rng.below(5) };
            s.push_str(&e.to_string());
        }
        emit(cx, s.as_bytes());
    }
}

/// a Lua float of ANY value returned by a script (`lua_to_resp`: `n as i64`) against `LuaConv.f64ToI64` on the bit
/// pattern: fractions (both signs), ±0, subnormals, the neighbourhood of ±2^63 and ±2^53, infinities, NaNs, random
/// bit patterns; the double reaches the script byte-exactly through ARGV and `string.unpack`
fn float_reply_sweep(cx: &mut Ctx, rng: &mut Rng, n: u64) {
    let mut vals: Vec<u64> = vec![
        3.7f64.to_bits(), (-3.7f64).to_bits(), 0.5f64.to_bits(), (-0.99f64).to_bits(), 0f64.to_bits(), (-0f64).to_bits(), 5f64.to_bits(), 1e20f64.to_bits(), (-1e20f64).to_bits(),
        f64::INFINITY.to_bits(), f64::NEG_INFINITY.to_bits(), f64::NAN.to_bits(), 0x7ff0000000000001, 0xfff8000000000000, 1, 0x8000000000000001, 0x000fffffffffffff, 0x0010000000000000,
        f64::MAX.to_bits(), f64::MIN.to_bits(), 1.5e300f64.to_bits(),
    ];
    for base in [9223372036854775808f64, 9007199254740992f64, 4294967296f64, 1f64, 2f64] {
        let b = base.to_bits();
        for d in [-2i64, -1, 0, 1, 2] {
            vals.push((b as i64 + d) as u64);
            vals.push(((b as i64 + d) as u64) | (1u64 << 63));
        }
    }
    for _ in 0..n {
        let exp = match rng.below(4) { 0 => rng.range(1015, 1030), 1 => rng.range(1070, 1090), 2 => rng.below(2048), _ => rng.range(1023, 1086) };
        let bits = (rng.below(2) << 63) | (exp << 52) | (rng.next() & ((1u64 << 52) - 1));
        vals.push(bits);
    }
    for bits in vals {
        let x = f64::from_bits(bits);
        let mut ex = CommandExecutor::new();
        let r = eval(&mut ex, "return (string.unpack('<d', ARGV[1]))", &vec![x.to_le_bytes().to_vec()]);
        let line = match &r { Ok(v) => show_resp(v), Err(()) => "crash".to_string() };
        cx.out.op(format!("N2I {:016x}", bits), line.clone());
        cx.out.count("float-reply");
        // Redis documents: a Lua number becomes an integer reply with the fraction dropped
        if x.is_finite() && x.abs() < 9.0e18 {
            if line != format!(":{}", x.trunc() as i64) {
                cx.out.violation("C16:lua:float-reply-not-truncated", "a finite Lua float inside the i64 range returned by a script is not answered as the integer with the fraction dropped", json!({"bits": format!("{:016x}", bits), "value": format!("{:e}", x), "reply": line}));
            }
        }
        cx.out.case(&format!("N2I {:016x}", bits), true);
    }
}

/// a Lua FLOAT as a redis.call argument (`parse_multivalue_to_bytes`: `n.to_string()`): the double reaches the script
/// byte-exactly through ARGV + string.unpack, is handed to SET as a NUMBER, and the stored bytes are compared with the
/// model's `fmtF64` (`LF` op).  Oracle: the stored text parses back to the very same double (lossless), NaN / inf apart.
fn float_arg_sweep(cx: &mut Ctx, rng: &mut Rng, n: u64) {
    let mut vals: Vec<u64> = vec![
        0.1f64.to_bits(), 0.5f64.to_bits(), 3.7f64.to_bits(), (-3.7f64).to_bits(), 5f64.to_bits(), 1e20f64.to_bits(), 1e21f64.to_bits(), 1e22f64.to_bits(), 1e23f64.to_bits(),
        1e-7f64.to_bits(), 1e-5f64.to_bits(), 123456.789f64.to_bits(), (1.0f64 / 3.0).to_bits(), 2.5e-320f64.to_bits(), 0f64.to_bits(), (-0f64).to_bits(),
        f64::INFINITY.to_bits(), f64::NEG_INFINITY.to_bits(), f64::NAN.to_bits(), 0xfff8000000000001, 1, 2, 0x000fffffffffffff, 0x0010000000000000, 0x0010000000000001,
        f64::MAX.to_bits(), f64::MIN.to_bits(), f64::MIN_POSITIVE.to_bits(), f64::EPSILON.to_bits(), 9007199254740993f64.to_bits(), 0.30000000000000004f64.to_bits(),
        5e-324f64.to_bits(), 1.7976931348623157e308f64.to_bits(), 4.35f64.to_bits(), 0.285f64.to_bits(), 9.5367431640625e-7f64.to_bits(), 2f64.powi(-20).to_bits(),
    ];
    // binade boundaries (the rounding interval is asymmetric there) and their neighbours
    for e in [1u64, 2, 52, 53, 54, 1000, 1022, 1023, 1024, 1075, 1076, 1100, 2000, 2046] {
        for d in [-1i64, 0, 1] { vals.push(((e << 52) as i64 + d) as u64); }
    }
    for base in [9007199254740992f64, 1e15, 1e16, 1e17, 0.001, 1024.0] {
        let b = base.to_bits();
        for d in [-2i64, -1, 0, 1, 2] { vals.push((b as i64 + d) as u64); vals.push(((b as i64 + d) as u64) | (1u64 << 63)); }
    }
    for _ in 0..n {
        let exp = match rng.below(5) { 0 => rng.range(1000, 1050), 1 => rng.range(1070, 1100), 2 => rng.below(2047), 3 => rng.below(3), _ => rng.range(960, 1030) };
        let mant = match rng.below(4) { 0 => rng.below(16), 1 => ((1u64 << 52) - 1) - rng.below(16), _ => rng.next() & ((1u64 << 52) - 1) };
        vals.push((rng.below(2) << 63) | (exp << 52) | mant);
    }
    for bits in vals {
        let x = f64::from_bits(bits);
        let mut ex = CommandExecutor::new();
        let r = eval(&mut ex, "local x = (string.unpack('<d', ARGV[1])) redis.call('SET', 'fa', x) return redis.call('GET', 'fa')", &vec![x.to_le_bytes().to_vec()]);
        let line = match &r { Ok(RespValue::BulkString(Some(b))) => format!("${}", hex(b)), Ok(v) => show_resp(v), Err(()) => "crash".to_string() };
        cx.out.op(format!("LF {:016x}", bits), line.clone());
        cx.out.count("float-argument");
        if let Ok(RespValue::BulkString(Some(b))) = &r {
            let text = String::from_utf8_lossy(b).to_string();
            let back = text.parse::<f64>().ok();
            let lossless = match back { Some(y) => (x.is_nan() && y.is_nan()) || y.to_bits() == bits, None => false };
            if !lossless {
                cx.out.violation("C16:lua:float-argument-not-lossless", "a Lua float handed to redis.call as an argument does not reach the command as a text that denotes the same double", json!({"bits": format!("{:016x}", bits), "stored": text}));
            }
        } else {
            cx.out.violation("C16:lua:float-argument-refused", "a Lua float handed to redis.call('SET', k, x) is not stored as a string", json!({"bits": format!("{:016x}", bits), "reply": line}));
        }
        cx.out.case(&format!("LF {:016x}", bits), x.fract() != 0.0);
    }
}

/// what a script can call: the fields of the `redis` table (the model knows `call` and `pcall` — `redis.error_reply`,
/// `status_reply`, `sha1hex`, `log`, `setresp`, `breakpoint` … do not exist in this code); a field that appears is an entry
/// path nobody drives
fn redis_table_fields(cx: &mut Ctx) {
    let mut ex = CommandExecutor::new();
    let r = eval(&mut ex, "local t = {} for k, v in pairs(redis) do t[#t + 1] = tostring(k) .. ':' .. type(v) end table.sort(t) return t", &vec![]);
    let got: Vec<String> = match &r { Ok(RespValue::Array(Some(xs))) => xs.iter().filter_map(|x| match x { RespValue::BulkString(Some(b)) => Some(String::from_utf8_lossy(b).to_string()), _ => None }).collect(), _ => vec!["?".to_string()] };
    cx.out.count("redis-table-fields");
    for f in &got {
        if f != "call:function" && f != "pcall:function" {
            cx.out.violation(&format!("C16:coverage:redis-table-field-not-driven:{}", f), "the `redis` table a script sees has a field the harness does not drive (the model of execute_lua_script knows redis.call and redis.pcall)", json!({"fields": got}));
        }
    }
    for want in ["call:function", "pcall:function"] {
        if !got.iter().any(|f| f == want) {
            cx.out.violation(&format!("C16:lua:redis-table-field-missing:{}", want), "redis.call / redis.pcall is not a function of the `redis` table", json!({"fields": got}));
        }
    }
    // the functions Redis has and this code has not: calling one ends the script with a Lua error (observation: which
    // error), never with a silent nil result
    let mut obs = Vec::new();
    for f in ["error_reply('ERR x')", "status_reply('OK')", "sha1hex('')", "log(0, 'x')"] {
        let mut ex = CommandExecutor::new();
        let r = eval(&mut ex, &format!("return redis.{}", f), &vec![]);
        let line = r.as_ref().map(show_resp).unwrap_or("crash".to_string());
        if !matches!(r, Ok(RespValue::Error(_))) {
            cx.out.violation(&format!("C16:coverage:redis-table-field-not-driven:{}", f.split('(').next().unwrap_or(f)), "a function of the `redis` table that the model does not know answers something other than a Lua error: it exists now and is not driven", json!({"call": f, "reply": line}));
        }
        obs.push(json!({"call": format!("redis.{}", f), "reply": unhex_show(&line)}));
    }
    cx.out.extra.insert("redis_table".into(), json!({"fields": got, "absent_functions_observed": obs}));
}

fn unhex_show(line: &str) -> String {
    match line.strip_prefix("-x") { Some(h) => format!("-{}", String::from_utf8_lossy(&(0..h.len()).step_by(2).filter_map(|i| u8::from_str_radix(h.get(i..i + 2)?, 16).ok()).collect::<Vec<u8>>())), None => line.to_string() }
}

/// integer literals: `str::parse::<i64 / u64 / u32>` against `parseI64` / `parseUnsigned` (accepted language,
/// value and — unsigned — the error kind), on the boundary numerals and on random strings over the alphabet
/// that matters (digits, signs, the characters other number syntaxes use)
fn int_sweep(cx: &mut Ctx, rng: &mut Rng, n: u64) {
    use std::num::IntErrorKind;
    let emit = |cx: &mut Ctx, raw: &[u8]| {
        let s = String::from_utf8_lossy(raw).to_string();
        let i = match s.parse::<i64>() { Ok(v) => format!("i{}", v), Err(_) => "none".to_string() };
        cx.out.op(format!("I {}", hex(s.as_bytes())), i);
        let kind = |k: &IntErrorKind| match k { IntErrorKind::Empty => "empty", IntErrorKind::InvalidDigit => "invalid", IntErrorKind::PosOverflow => "overflow", _ => "other" }.to_string();
        let u = match s.parse::<u64>() { Ok(v) => format!("n{}", v), Err(e) => kind(e.kind()) };
        cx.out.op(format!("U64 {}", hex(s.as_bytes())), u);
        let w = match s.parse::<u32>() { Ok(v) => format!("n{}", v), Err(e) => kind(e.kind()) };
        cx.out.op(format!("U32 {}", hex(s.as_bytes())), w);
        cx.out.count(if s.parse::<i64>().is_ok() { "int:accepted" } else { "int:rejected" });
    };
    for s in NUMS { emit(cx, s.as_bytes()); }
    for base in ["9223372036854775807", "9223372036854775808", "18446744073709551615", "18446744073709551616", "4294967295", "4294967296"] {
        for pre in ["", "+", "-", "0", "00", "+0", "-0", "++", "+-", " "] {
            for suf in ["", "0", "x", " ", "_", "."] { emit(cx, format!("{}{}{}", pre, base, suf).as_bytes()); }
        }
    }
    const ALPHA: &[u8] = b"00112233445566778899+-_ .exXa\xff";
    for _ in 0..n {
        let len = if rng.chance(1, 3) { rng.below(4) } else { rng.below(23) };
        let mut v: Vec<u8> = Vec::new();
        if rng.chance(1, 3) { v.push(*rng.pick(&[b'+', b'-'])); }
        for _ in 0..len {
            v.push(if rng.chance(9, 10) { b'0' + rng.below(10) as u8 } else { *rng.pick(ALPHA) });
        }
        emit(cx, &v);
    }
}

// ---------------------------------------------------------------------------------------------
// RESP <-> Lua conversion through scripts
// ---------------------------------------------------------------------------------------------

#[derive(Clone, Debug)]
enum LuaV {
    Nil,
    Bool(bool),
    Int(i64),
    Num(i64),
    Str(Vec<u8>),
    OkT(Vec<u8>),
    ErrT(Vec<u8>),
    Arr(Vec<LuaV>),
    /// a function value: neither nil nor convertible
    Other,
}

fn lua_str_lit(b: &[u8]) -> String {
    let mut s = String::from("\"");
    for x in b {
        s.push_str(&format!("\\x{:02x}", x));
    }
    s.push('"');
    s
}

impl LuaV {
    fn literal(&self) -> String {
        match self {
            LuaV::Nil => "nil".into(),
            LuaV::Bool(b) => b.to_string(),
            LuaV::Int(i) => if *i == i64::MIN { "math.mininteger".into() } else if *i < 0 { format!("({})", i) } else { i.to_string() },
            LuaV::Num(i) => if *i < 0 { format!("({}.0)", i) } else { format!("{}.0", i) },
            LuaV::Str(b) => lua_str_lit(b),
            LuaV::OkT(b) => format!("{{ok={}}}", lua_str_lit(b)),
            LuaV::ErrT(b) => format!("{{err={}}}", lua_str_lit(b)),
            LuaV::Arr(xs) => format!("{{{}}}", xs.iter().map(|x| x.literal()).collect::<Vec<_>>().join(",")),
            LuaV::Other => "(function() end)".into(),
        }
    }
    fn show(&self) -> String {
        match self {
            LuaV::Nil => "nil".into(),
            LuaV::Bool(b) => b.to_string(),
            LuaV::Int(i) => format!("i{}", i),
            LuaV::Num(i) => format!("n{}", i),
            LuaV::Str(b) => format!("s{}", hex(b)),
            LuaV::OkT(b) => format!("ok{}", hex(b)),
            LuaV::ErrT(b) => format!("err{}", hex(b)),
            LuaV::Arr(xs) => {
                let mut v = vec![format!("t{}", xs.len())];
                v.extend(xs.iter().map(|x| x.show()));
                v.join(" ")
            }
            LuaV::Other => "other".into(),
        }
    }
}

fn rand_lua(rng: &mut Rng, depth: u32) -> LuaV {
    let strs: [&[u8]; 6] = [b"OK", b"", b"ERR boom", b"\xff\x00", b"x", b"\xe2\x82\xac"];
    match rng.below(if depth == 0 { 9 } else { 12 }) {
        8 => LuaV::Other,
        0 => LuaV::Nil,
        1 => LuaV::Bool(rng.chance(1, 2)),
        2 => LuaV::Int(*rng.pick(&[0i64, 1, -1, 42, i64::MAX, i64::MIN])),
        3 => LuaV::Num(*rng.pick(&[0i64, 3, -7, 1 << 40, 9007199254740991])),
        4 | 5 => LuaV::Str(rng.pick(&strs).to_vec()),
        6 => LuaV::OkT(rng.pick(&strs).to_vec()),
        7 => LuaV::ErrT(rng.pick(&strs).to_vec()),
        _ => LuaV::Arr((0..rng.below(5)).map(|_| rand_lua(rng, depth - 1)).collect()),
    }
}

/// what Redis documents for Lua -> RESP2 (used by the oracle, independent of the model)
fn redis_lua_to_resp(v: &LuaV) -> Option<RespValue> {
    Some(match v {
        LuaV::Nil | LuaV::Bool(false) | LuaV::Other => RespValue::BulkString(None),
        LuaV::Bool(true) => RespValue::Integer(1),
        LuaV::Int(i) | LuaV::Num(i) => RespValue::Integer(*i),
        LuaV::Str(b) => RespValue::BulkString(Some(b.clone())),
        LuaV::OkT(b) => RespValue::SimpleString(String::from_utf8(b.clone()).ok()?.into()),
        LuaV::ErrT(b) => RespValue::Error(String::from_utf8(b.clone()).ok()?.into()),
        LuaV::Arr(xs) => {
            let mut out = Vec::new();
            for x in xs {
                if matches!(x, LuaV::Nil) { break; }
                out.push(redis_lua_to_resp(x)?);
            }
            RespValue::Array(Some(out))
        }
    })
}

fn has_num(v: &LuaV) -> bool {
    match v {
        LuaV::Num(_) => true,
        LuaV::Arr(xs) => {
            for x in xs {
                if matches!(x, LuaV::Nil) { return false; }
                if has_num(x) { return true; }
            }
            false
        }
        _ => false,
    }
}

fn luaconv(cx: &mut Ctx, rng: &mut Rng, n: u64) {
    let run = |cx: &mut Ctx, v: &LuaV, src: &str| {
        let script = format!("return {}", v.literal());
        let mut ex = CommandExecutor::new();
        let got = match eval(&mut ex, &script, &vec![]) { Ok(r) => r, Err(()) => RespValue::err("crash") };
        cx.out.op(format!("L2R {}", v.show()), show_resp(&got));
        cx.out.count(&format!("l2r:{}", src));
        if let Some(want) = redis_lua_to_resp(v) {
            if show_resp(&want) != show_resp(&got) {
                let sig = if has_num(v) { "C16:lua:number-becomes-float-string" } else { "C16:lua:script-result-conversion" };
                cx.out.violation(sig, "a Lua number returned by a script becomes a bulk string with the float's text (Redis: an integer reply, truncated)",
                    json!({"script": script, "reply": show_resp(&got), "redis_documented": show_resp(&want)}));
            }
        }
        cx.out.case(&format!("L2R {}", v.show()), !matches!(v, LuaV::Nil));
    };
    // fixed corpus
    for v in [LuaV::Num(3), LuaV::Arr(vec![LuaV::Int(1), LuaV::Num(5), LuaV::Str(b"x".to_vec())]), LuaV::Arr(vec![LuaV::Int(1), LuaV::Nil, LuaV::Int(3)]), LuaV::OkT(b"OK".to_vec()), LuaV::ErrT(b"ERR x".to_vec()), LuaV::Bool(false), LuaV::Bool(true)] {
        run(cx, &v, "corpus");
    }
    for _ in 0..n {
        let depth = 2 + rng.below(3) as u32;
        let v = rand_lua(rng, depth);
        run(cx, &v, "random");
    }
    // nesting depth 6, every type at the bottom
    let mut deep = LuaV::Arr(vec![LuaV::Int(1), LuaV::Str(b"\xff".to_vec()), LuaV::Bool(true), LuaV::Bool(false), LuaV::Num(2), LuaV::OkT(b"OK".to_vec()), LuaV::ErrT(b"E".to_vec()), LuaV::Other, LuaV::Nil, LuaV::Int(9)]);
    for _ in 0..6 { deep = LuaV::Arr(vec![LuaV::Int(0), deep, LuaV::Str(b"t".to_vec())]); }
    run(cx, &deep, "corpus");
    run(cx, &LuaV::Other, "corpus");
    run(cx, &LuaV::Arr(vec![LuaV::Other, LuaV::Int(1)]), "corpus");
    // table shapes outside the model's value class: observed, no oracle
    {
        let mut obs = Vec::new();
        for lit in ["{err=5}", "{ok=true}", "{err='x', 1, 2}", "{ok='a', err='b'}", "{1, 2, nil, 4}", "{[1]=1, [3]=3}", "{1.5, 2.5}", "setmetatable({}, {__index=function() return 1 end})"] {
            let mut ex = CommandExecutor::new();
            let got = eval(&mut ex, &format!("return {}", lit), &vec![]).unwrap_or(RespValue::err("crash"));
            obs.push(json!({"script": format!("return {}", lit), "reply": show_resp(&got)}));
        }
        cx.out.extra.insert("lua_table_shapes_observed".into(), json!(obs));
        // the shapes Redis documents an answer for: `err` is looked at before `ok`, array part up to the first nil,
        // floats inside tables truncated
        for (lit, want) in [("{ok='a', err='b'}", "-x62"), ("{err='x', 1, 2}", "-x78"), ("{ok='fine', 1, 2}", "+x66696e65"), ("{1, 2, nil, 4}", "*2 :1 :2"), ("{[1]=1, [3]=3}", "*1 :1"), ("{1.5, 2.5}", "*2 :1 :2"),
                            ("{{1, {2, {3}}}, 'x'}", "*2 *2 :1 *2 :2 *1 :3 $x78"), ("{true, false, 7}", "*3 :1 $- :7"), ("{n=3, 1}", "*1 :1")] {
            let mut ex = CommandExecutor::new();
            let got = eval(&mut ex, &format!("return {}", lit), &vec![]).unwrap_or(RespValue::err("crash"));
            cx.out.count("l2r:documented-shape");
            if show_resp(&got) != want {
                cx.out.violation("C16:lua:script-result-conversion", "a table returned by a script is not converted as Redis documents (err before ok, array part up to the first nil, numbers truncated)",
                    json!({"script": format!("return {}", lit), "reply": show_resp(&got), "redis_documented": want}));
            }
        }
    }
    // non-integral float: outside the model's value class, oracle only
    {
        let mut ex = CommandExecutor::new();
        let got = eval(&mut ex, "return 3.7", &vec![]).unwrap_or(RespValue::err("crash"));
        if show_resp(&got) != ":3" {
            cx.out.violation("C16:lua:number-becomes-float-string", "a Lua number returned by a script becomes a bulk string with the float's text (Redis: an integer reply, truncated)",
                json!({"script": "return 3.7", "reply": show_resp(&got), "redis_documented": ":3"}));
        }
        let got = eval(&mut ex, "return 10/2", &vec![]).unwrap_or(RespValue::err("crash"));
        if show_resp(&got) != ":5" {
            cx.out.violation("C16:lua:number-becomes-float-string", "a Lua number returned by a script becomes a bulk string with the float's text (Redis: an integer reply, truncated)",
                json!({"script": "return 10/2", "reply": show_resp(&got), "redis_documented": ":5"}));
        }
    }
    // RESP -> Lua: what a script sees for the reply of redis.call (rendered by a Lua-side printer)
    const SHOW: &str = r#"
local function hexs(s) return 'x' .. (s:gsub('.', function(c) return string.format('%02x', string.byte(c)) end)) end
local function show(v)
  local t = type(v)
  if t == 'nil' then return 'nil'
  elseif t == 'boolean' then return tostring(v)
  elseif t == 'number' then if math.type(v) == 'integer' then return 'i' .. v else return 'n' .. string.format('%d', v) end
  elseif t == 'string' then return 's' .. hexs(v)
  elseif t == 'table' then
    if v.ok ~= nil then return 'ok' .. hexs(v.ok) end
    if v.err ~= nil then return 'err' .. hexs(v.err) end
    local n = 0
    for k, _ in pairs(v) do if type(k) == 'number' and k > n then n = k end end
    local parts = {'t' .. n}
    for i = 1, n do parts[#parts + 1] = show(v[i]) end
    return table.concat(parts, ' ')
  else return '?' .. t end
end
return show(redis.pcall(table.unpack(ARGV)))
"#;
    let calls: Vec<Vec<&[u8]>> = vec![
        vec![b"GET", b"s"], vec![b"GET", b"missing"], vec![b"SET", b"k", b"v"], vec![b"INCR", b"s"], vec![b"INCR", b"t"],
        vec![b"LRANGE", b"l", b"0", b"-1"], vec![b"LRANGE", b"missing", b"0", b"-1"], vec![b"HGET", b"h", b"nofield"],
        vec![b"TYPE", b"z"], vec![b"ZSCORE", b"z", b"a"], vec![b"ZSCORE", b"z", b"nomember"], vec![b"LPOP", b"missing"],
        vec![b"SET", b"s", b"v", b"NX"], vec![b"SET", b"s", b"v", b"GET"], vec![b"ZRANGEBYSCORE", b"z", b"-inf", b"+inf"], vec![b"LPUSH", b"s", b"x"],
        vec![b"EXISTS", b"s", b"missing"], vec![b"TTL", b"s"], vec![b"RPOPLPUSH", b"missing", b"l"],
    ];
    for call in calls {
        let f: Frame = call.iter().map(|x| x.to_vec()).collect();
        let mut ex_d = primed();
        let mut ex_l = primed();
        if let Parsed::Ok(c, _) = parse_sim(&f) {
            let rd = ex_d.execute(&c);
            if let Ok(RespValue::BulkString(Some(shown))) = eval(&mut ex_l, SHOW, &f) {
                let shown = String::from_utf8_lossy(&shown).to_string();
                cx.out.op(format!("R2L {}", show_resp(&rd)), shown.clone());
                cx.out.count("r2l");
                // Redis: nil bulk / nil array are `false` inside a script
                if matches!(rd, RespValue::BulkString(None) | RespValue::Array(None)) && shown != "false" {
                    // recorded only for the value the model of the current code predicts (Lua nil)
                    cx.out.violation(if shown == "nil" { "C16:lua:nil-bulk-becomes-nil-not-false" } else { "C16:lua:nil-reply-conversion:unexpected-lua-value" }, "a nil reply of redis.call is Lua nil inside the script (Redis: false)",
                        json!({"call": call.iter().map(|x| String::from_utf8_lossy(x).to_string()).collect::<Vec<_>>(), "lua_value": shown, "redis_documented": "false"}));
                }
            }
        }
    }
    // the consequence scripts can observe
    let mut ex = primed();
    let got = eval(&mut ex, "if redis.call('GET','missing') == false then return 1 else return 0 end", &vec![]).unwrap_or(RespValue::err("crash"));
    if show_resp(&got) != ":1" {
        cx.out.violation(if show_resp(&got) == ":0" { "C16:lua:nil-bulk-becomes-nil-not-false" } else { "C16:lua:nil-reply-conversion:unexpected-script-result" }, "a nil reply of redis.call is Lua nil inside the script (Redis: false)",
            json!({"script": "if redis.call('GET','missing') == false then return 1 else return 0 end", "reply": show_resp(&got), "redis_documented": ":1"}));
    }
    let got = eval(&mut ex, "return {1, redis.call('GET','missing'), 3}", &vec![]).unwrap_or(RespValue::err("crash"));
    if show_resp(&got) != "*3 :1 $- :3" {
        cx.out.violation(if show_resp(&got) == "*1 :1" { "C16:lua:array-with-nil-truncated" } else { "C16:lua:array-with-nil:unexpected-script-result" }, "an array built from replies that contain a nil bulk is cut at the nil (Redis keeps it: nil bulk is false in Lua, and false converts back to a nil bulk)",
            json!({"script": "return {1, redis.call('GET','missing'), 3}", "reply": show_resp(&got), "redis_documented": "*3 :1 $- :3"}));
    }
}

// ---------------------------------------------------------------------------------------------
// source-derived cross-check: literals per match arm of the two parser files
// ---------------------------------------------------------------------------------------------

fn arm_literals(src: &str) -> BTreeMap<String, BTreeSet<String>> {
    let mut m: BTreeMap<String, BTreeSet<String>> = BTreeMap::new();
    let mut arm = String::new();
    for line in src.lines() {
        let ind = line.len() - line.trim_start().len();
        let t = line.trim();
        if ind == 20 && t.starts_with('"') && t.contains("=>") {
            arm = t.split("=>").next().unwrap_or("").trim().replace('"', "").replace(" | ", "|");
        }
        if arm.is_empty() { continue; }
        if t.contains("Err(") || t.contains("format!(") || t.contains(".to_string()") || t.starts_with('"') {
            let mut rest = t;
            while let Some(i) = rest.find('"') {
                let after = &rest[i + 1..];
                if let Some(j) = after.find('"') {
                    let lit = &after[..j];
                    if lit.contains(' ') { m.entry(arm.clone()).or_default().insert(lit.to_string()); }
                    rest = &after[j + 1..];
                } else { break; }
            }
        }
    }
    m
}

/// the source tree this binary was BUILT against (the `redis-sim` path dependency of harness/Cargo.toml),
/// not a hard-coded /repo
fn repo_dir() -> String {
    // self-tests of the source translator only (harmless rewrites of the source TEXT against the unchanged binary):
    // the override is recorded in the evidence (`shape.repo`)
    if let Ok(d) = std::env::var("VERIF_C16_SRC_OVERRIDE") { if !d.is_empty() { return d; } }
    const MANIFEST: &str = include_str!("../Cargo.toml");
    for line in MANIFEST.lines() {
        if line.trim_start().starts_with("redis-sim") {
            if let Some(i) = line.find("path = \"") {
                let rest = &line[i + 8..];
                if let Some(j) = rest.find('"') { return rest[..j].to_string(); }
            }
        }
    }
    "/repo".to_string()
}

/// the anchored files (roots of the module trees the source scans read)
const PARSER_RS: &str = "src/redis/parser.rs";
const COMMANDS_RS: &str = "src/redis/commands.rs";
const SCRIPT_OPS_RS: &str = "src/redis/executor/script_ops.rs";
const COMMAND_RS: &str = "src/redis/command.rs";

/// what the scans read: per anchored file the files of its module tree, and the `pub` fns of the tree that are not
/// the known entry points (evidence only: a new public function nothing drives is listed, not a violation — a new
/// command ARM or a differing helper is what the shape comparison fails on)
fn source_trees(dir: &str) -> serde_json::Value {
    const KNOWN: &[(&str, &[&str])] = &[
        (PARSER_RS, &["from_resp"]),
        (COMMANDS_RS, &["from_resp_zero_copy"]),
        (SCRIPT_OPS_RS, &["cache_script_internal", "get_script_internal", "has_script_internal", "flush_scripts_internal", "execute_eval", "execute_evalsha",
            "execute_script_load", "execute_script_exists", "execute_script_flush", "execute_lua_script"]),
        (COMMAND_RS, &[]),
    ];
    let mut m = serde_json::Map::new();
    for (rel, known) in KNOWN {
        let t = shape::module_tree(dir, rel);
        let extract = |n: &str| n.starts_with("extract_");
        let new_fns: Vec<String> = t.pub_fns.iter().filter(|(_, _, n)| *rel != COMMAND_RS && !known.contains(&n.as_str()) && !extract(n))
            .map(|(f, v, n)| format!("{} {} fn {}", f, v, n)).collect();
        let moved: Vec<String> = t.pub_fns.iter().filter(|(_, _, n)| extract(n)).map(|(f, v, n)| format!("{} {} fn {}", f, v, n)).collect();
        m.insert(rel.to_string(), json!({"files": t.files, "mod_declarations_without_file": t.missing, "pub_fns_not_in_the_known_list": new_fns, "extract_helpers_with_a_visibility": moved}));
    }
    serde_json::Value::Object(m)
}

fn source_diff(cx: &mut Ctx) {
    let a = arm_literals(&shape::module_tree(&repo_dir(), PARSER_RS).text);
    let b = arm_literals(&shape::module_tree(&repo_dir(), COMMANDS_RS).text);
    let mut diffs = Vec::new();
    let names: BTreeSet<&String> = a.keys().chain(b.keys()).collect();
    for n in names {
        let (x, y) = (a.get(n).cloned().unwrap_or_default(), b.get(n).cloned().unwrap_or_default());
        if x != y {
            diffs.push(json!({"arm": n, "only_in_parser_rs": x.difference(&y).collect::<Vec<_>>(), "only_in_commands_rs": y.difference(&x).collect::<Vec<_>>()}));
        }
    }
    cx.out.extra.insert("source_literal_diff".into(), json!({"arms_parser_rs": a.len(), "arms_commands_rs": b.len(), "differences": diffs}));
}

// ---------------------------------------------------------------------------------------------

/// frames with elements that are not bulk strings (integers, nil, status, nested arrays) and values
/// that are not arrays: outside the model (`List Bytes`), the two RESP parsers are compared directly
fn nonbulk(cx: &mut Ctx, rng: &mut Rng) {
    #[derive(Clone)]
    enum El { B(Vec<u8>), I(i64), Nil, S(String), A }
    let to_sim = |e: &El| match e {
        El::B(b) => RespValue::BulkString(Some(b.clone())),
        El::I(i) => RespValue::Integer(*i),
        El::Nil => RespValue::BulkString(None),
        El::S(s) => RespValue::SimpleString(s.clone().into()),
        El::A => RespValue::Array(Some(vec![])),
    };
    let to_zc = |e: &El| match e {
        El::B(b) => RespValueZeroCopy::BulkString(Some(Bytes::from(b.clone()))),
        El::I(i) => RespValueZeroCopy::Integer(*i),
        El::Nil => RespValueZeroCopy::BulkString(None),
        El::S(s) => RespValueZeroCopy::SimpleString(Bytes::from(s.clone().into_bytes())),
        El::A => RespValueZeroCopy::Array(Some(vec![])),
    };
    let line = |r: Result<Result<Command, String>, ()>| match r {
        Ok(Ok(c)) => canon(&c),
        Ok(Err(e)) => format!("ERR {}", e),
        Err(()) => "crash".to_string(),
    };
    for sh in SHAPES {
        for _ in 0..3 {
            let mut els: Vec<El> = base_frame(rng, sh, 0).into_iter().map(El::B).collect();
            for _ in 0..rng.below(3) { els.push(El::B(slot(rng, 'I'))); }
            let pos = rng.below(els.len() as u64) as usize;
            els[pos] = match rng.below(5) { 0 => El::I(*rng.pick(&[0i64, 1, -1, 5, i64::MAX, i64::MIN])), 1 => El::Nil, 2 => El::S("OK".into()), 3 => El::A, _ => El::I(rng.below(20) as i64) };
            let a = line(quiet_panics(|| Command::from_resp(&RespValue::Array(Some(els.iter().map(to_sim).collect())))));
            let b = line(quiet_panics(|| Command::from_resp_zero_copy(&RespValueZeroCopy::Array(Some(els.iter().map(to_zc).collect())))));
            cx.out.count("non-bulk-frame");
            if a != b && !(sh.name == "ACL" || sh.name == "LPUSH" || sh.name == "RPUSH" || sh.name == "SADD") {
                cx.out.violation(&format!("C16:parsers-differ:non-bulk:{}", sh.name), "from_resp and from_resp_zero_copy disagree on a frame with a non-bulk element",
                    json!({"from_resp": a, "from_resp_zero_copy": b, "position": pos}));
            }
        }
    }
    let tops_sim = [RespValue::Array(None), RespValue::Array(Some(vec![])), RespValue::BulkString(Some(b"PING".to_vec())), RespValue::Integer(1), RespValue::SimpleString("PING".into())];
    let tops_zc = [RespValueZeroCopy::Array(None), RespValueZeroCopy::Array(Some(vec![])), RespValueZeroCopy::BulkString(Some(Bytes::from_static(b"PING"))), RespValueZeroCopy::Integer(1), RespValueZeroCopy::SimpleString(Bytes::from_static(b"PING"))];
    for (x, y) in tops_sim.iter().zip(tops_zc.iter()) {
        let a = line(quiet_panics(|| Command::from_resp(x)));
        let b = line(quiet_panics(|| Command::from_resp_zero_copy(y)));
        cx.out.count("non-array-value");
        if a != b {
            cx.out.violation("C16:parsers-differ:non-array-value", "from_resp and from_resp_zero_copy disagree on a value that is not an array", json!({"from_resp": a, "from_resp_zero_copy": b}));
        }
    }
}

/// element frames, systematically: every shape (with and without options), every position (the command name and
/// the sub-command included) x an integer (0, 5, -1, i64::MAX, i64::MIN), a nil bulk, a simple string, an error, a
/// nested array in that position — through both RESP parsers and the model's `parseE` (`PE` op)
fn elem_sweep(cx: &mut Ctx, rng: &mut Rng) {
    #[derive(Clone)]
    enum El { B(Vec<u8>), I(i64), Nil, S, E, A }
    let to_sim = |e: &El| match e {
        El::B(b) => RespValue::BulkString(Some(b.clone())),
        El::I(i) => RespValue::Integer(*i),
        El::Nil => RespValue::BulkString(None),
        El::S => RespValue::SimpleString("OK".into()),
        El::E => RespValue::Error("ERR x".into()),
        El::A => RespValue::Array(Some(vec![RespValue::BulkString(Some(b"GET".to_vec()))])),
    };
    let to_zc = |e: &El| match e {
        El::B(b) => RespValueZeroCopy::BulkString(Some(Bytes::from(b.clone()))),
        El::I(i) => RespValueZeroCopy::Integer(*i),
        El::Nil => RespValueZeroCopy::BulkString(None),
        El::S => RespValueZeroCopy::SimpleString(Bytes::from_static(b"OK")),
        El::E => RespValueZeroCopy::Error(Bytes::from_static(b"ERR x")),
        El::A => RespValueZeroCopy::Array(Some(vec![RespValueZeroCopy::BulkString(Some(Bytes::from_static(b"GET")))])),
    };
    let show = |e: &El| match e { El::B(b) => hex(b), El::I(i) => format!(":{}", i), _ => "~".to_string() };
    let line = |r: Result<Result<Command, String>, ()>| match r {
        Ok(Ok(c)) => canon(&c),
        Ok(Err(e)) => format!("ERR {}", hex(e.as_bytes())),
        Err(()) => "crash".to_string(),
    };
    let variants = [El::I(0), El::I(5), El::I(-1), El::I(i64::MAX), El::I(i64::MIN), El::Nil, El::S, El::E, El::A];
    for sh in SHAPES {
        for with_opts in [false, true] {
            let mut f = base_frame(rng, sh, 0);
            if with_opts { add_options(rng, sh, &mut f); f.push(slot(rng, 'I')); }
            for pos in 0..f.len() {
                for v in &variants {
                    let mut els: Vec<El> = f.iter().cloned().map(El::B).collect();
                    els[pos] = v.clone();
                    let a = line(quiet_panics(|| Command::from_resp(&RespValue::Array(Some(els.iter().map(to_sim).collect())))));
                    let b = line(quiet_panics(|| Command::from_resp_zero_copy(&RespValueZeroCopy::Array(Some(els.iter().map(to_zc).collect())))));
                    let op = format!("PE {}", els.iter().map(show).collect::<Vec<_>>().join(" "));
                    cx.out.op(op.clone(), a.clone());
                    cx.out.count("elem-frame");
                    if a != b {
                        cx.out.violation(&format!("C16:parsers-differ:element:{}", sh.name), "from_resp and from_resp_zero_copy disagree on a command array with an element that is not a bulk string",
                            json!({"elements": els.iter().map(show).collect::<Vec<_>>(), "position": pos, "from_resp": a, "from_resp_zero_copy": b}));
                    }
                    cx.out.case(&op, true);
                }
            }
        }
    }
}

/// every command x option combination the translator accepts, on every primed key (with and
/// without a TTL, every type, and a missing key): the effect on values AND remaining TTLs must be
/// the one of the direct path
fn effect_sweep(cx: &mut Ctx) {
    const TEMPLATES: &[&str] = &[
        "GET $K", "SET $K v2", "SET $K v2 NX", "SET $K v2 XX", "SET $K v2 GET", "SET $K v2 EX 7", "SET $K v2 PX 7000", "SET $K v2 EX 70",
        "SET $K v2 PX 1500 GET", "SET $K v2 EX 7 NX", "SET $K v2 XX EX 70", "SET $K v2 XX GET", "SET $K v2 NX GET", "SET $K v2 EX 7 PX 70000",
        "SET $K v2 EX 0", "SET $K v2 EX -5", "SET $K 12", "set $K v2 ex 7 xx get",
        "DEL $K", "DEL $K $J", "EXISTS $K", "EXISTS $K $J", "TYPE $K", "TTL $K",
        "INCR $K", "DECR $K", "INCRBY $K 5", "INCRBY $K -50", "INCRBY $K 9223372036854775807",
        "EXPIRE $K 7", "EXPIRE $K 70", "EXPIRE $K 1000", "EXPIRE $K 0", "EXPIRE $K -1",
        "HGET $K f", "HSET $K f 2", "HSET $K new 1", "HSET $K new 1 f 9", "HDEL $K f", "HDEL $K f g", "HDEL $K nofield", "HINCRBY $K f 3", "HINCRBY $K new 3", "HGETALL $K",
        "LPUSH $K x", "RPUSH $K x y", "LPOP $K", "RPOP $K", "LLEN $K", "LRANGE $K 0 -1", "LRANGE $K 1 1",
        "RPOPLPUSH $K $J", "RPOPLPUSH $K $K", "LMOVE $K $J LEFT RIGHT", "LMOVE $K $J right left", "LMOVE $K $K LEFT LEFT",
        "SADD $K a c", "SADD $K zz", "SREM $K a", "SREM $K a b", "SREM $K a c", "SMEMBERS $K", "SISMEMBER $K a",
        "ZADD $K 5 a", "ZADD $K 5 new", "ZADD $K NX 5 a", "ZADD $K XX 5 new", "ZADD $K XX CH 5 a", "ZADD $K GT 0 a", "ZADD $K LT 0 a", "ZADD $K CH 1 a 7 q",
        "ZREM $K a", "ZREM $K a b c", "ZREM $K a m", "ZRANGE $K 0 -1", "ZSCORE $K a", "ZCARD $K", "ZCOUNT $K 0 10", "ZCOUNT $K (1 +inf",
        "ZRANGEBYSCORE $K 0 10", "ZRANGEBYSCORE $K -inf +inf WITHSCORES", "ZRANGEBYSCORE $K 0 10 LIMIT 1 1", "ZRANGEBYSCORE $K 0 10 WITHSCORES LIMIT 0 5",
    ];
    const ALL: &[&str] = &["s", "t", "n", "c", "l", "l2", "st", "st2", "h", "h2", "z", "z2", "missing", "x"];
    cx.call_path = true;
    for tmpl in TEMPLATES {
        for k in ALL {
            let js: &[&str] = if tmpl.contains("$J") { &["l", "l2", "s", "t", "missing2", "z"] } else { &[""] };
            for j in js {
                let f: Frame = tmpl.split(' ').map(|w| match w { "$K" => k.as_bytes().to_vec(), "$J" => j.as_bytes().to_vec(), x => x.as_bytes().to_vec() }).collect();
                cx.check_frame(&f, "effect-sweep");
            }
        }
    }
    // byte-exactness of EVERY argument position of every translator arm (also the variadic tails: second
    // member, second field/value pair, second key …): non-UTF-8, empty, and lengths around the SDS
    // small-string limit (23 bytes inline, 24 on the heap)
    let variants: [Vec<u8>; 6] = [b"\xff\x00\xfe".to_vec(), b"".to_vec(), b"\xc3\x28".to_vec(), vec![b'q'; 23], vec![b'q'; 24], b"\xe2\x82".to_vec()];
    for tmpl in TEMPLATES {
        let words: Vec<&str> = tmpl.split(' ').collect();
        for pos in 1..words.len() {
            for (vi, v) in variants.iter().enumerate() {
                for k in ["s", "l", "st", "h", "z", "missing"] {
                    let mut f: Frame = words.iter().map(|w| match *w { "$K" => k.as_bytes().to_vec(), "$J" => b"l2".to_vec(), x => x.as_bytes().to_vec() }).collect();
                    f[pos] = v.clone();
                    cx.check_frame(&f, if vi < 3 || vi == 5 { "effect-sweep:bytes" } else { "effect-sweep:sso-boundary" });
                }
            }
        }
    }
    // large arguments (1 MiB): oracle only (the three real paths and the twins), not sent to the model driver
    cx.with_model = false;
    let big: Vec<u8> = (0..(1usize << 20)).map(|i| (i * 31 % 251) as u8).collect();
    for tmpl in ["SET missing $B", "LPUSH missing a $B", "SADD missing a $B", "HSET missing f 1 g $B", "ZADD missing 1 a 2 $B", "SET $B v"] {
        let f: Frame = tmpl.split(' ').map(|w| if w == "$B" { big.clone() } else { w.as_bytes().to_vec() }).collect();
        cx.check_frame(&f, "effect-sweep:1MiB");
    }
    // many arguments
    for (name, per) in [("DEL", 1usize), ("SADD", 1), ("HSET", 2), ("ZADD", 2), ("LPUSH", 1)] {
        let mut f: Frame = vec![name.as_bytes().to_vec()];
        if name != "DEL" { f.push(b"missing".to_vec()); }
        for i in 0..300 {
            if per == 2 && name == "ZADD" { f.push(i.to_string().into_bytes()); } else if per == 2 { f.push(format!("f{}", i).into_bytes()); }
            f.push(format!("m{}", i).into_bytes());
        }
        cx.check_frame(&f, "effect-sweep:300-args");
    }
    cx.with_model = true;
    cx.call_path = false;
}


// ---------------------------------------------------------------------------------------------
// enumeration DERIVED FROM THE SOURCE the binary was built against: every command name / sub-command /
// option keyword that appears as a match arm (or in a string comparison) of the three grammars
// ---------------------------------------------------------------------------------------------

#[derive(Default, Debug)]
struct SourceGrammar {
    names: BTreeSet<String>,
    kws: BTreeMap<String, BTreeSet<String>>, // command name -> words matched inside its arm
}

fn quoted_words(t: &str) -> Vec<String> {
    // "A" | "B" => …   → [A, B]
    let head = t.split("=>").next().unwrap_or("");
    head.split('|').filter_map(|w| { let w = w.trim(); w.strip_prefix('"').and_then(|x| x.strip_suffix('"')).map(|x| x.to_string()) }).collect()
}

fn is_word(w: &str) -> bool {
    !w.is_empty() && w.bytes().all(|c| c.is_ascii_uppercase() || c.is_ascii_digit() || c == b'-')
}

fn scan_source(src: &str, start: Option<&str>, end: Option<&str>, arm_indent: usize) -> SourceGrammar {
    let mut g = SourceGrammar::default();
    let mut on = start.is_none();
    let mut cur: Vec<String> = Vec::new();
    for line in src.lines() {
        if let Some(st) = start { if line.contains(st) { on = true; continue; } }
        if let Some(en) = end { if on && line.contains(en) { break; } }
        if !on { continue; }
        let ind = line.len() - line.trim_start().len();
        let t = line.trim();
        if ind == arm_indent && t.starts_with('"') && t.contains("=>") {
            cur = quoted_words(t).into_iter().filter(|w| is_word(w)).collect();
            for n in &cur { g.names.insert(n.clone()); g.kws.entry(n.clone()).or_default(); }
            continue;
        }
        if ind <= arm_indent && t.starts_with("_ =>") { cur.clear(); continue; }
        if cur.is_empty() || ind <= arm_indent { continue; }
        let mut found: Vec<String> = Vec::new();
        if t.starts_with('"') && t.contains("=>") { found.extend(quoted_words(t)); }
        for op in ["== \"", "!= \""] {
            let mut rest = t;
            while let Some(i) = rest.find(op) {
                let after = &rest[i + op.len()..];
                if let Some(j) = after.find('"') { found.push(after[..j].to_string()); rest = &after[j + 1..]; } else { break; }
            }
        }
        for w in found.into_iter().filter(|w| is_word(w)) {
            for n in &cur { g.kws.entry(n.clone()).or_default().insert(w.clone()); }
        }
    }
    g
}

/// command names and the words matched inside each arm, from the shape translator's rows (token based: indifferent to
/// indentation, line breaks, renamed locals and arms moved into a private helper)
fn grammar_of_rows(ex: &shape::Extracted) -> SourceGrammar {
    let mut g = SourceGrammar::default();
    for f in &ex.families {
        if let Some(n) = f.get("name") {
            g.names.insert(n.clone());
            let e = g.kws.entry(n.clone()).or_default();
            for w in f.get("subwords").map(|w| w.split(',').filter(|x| !x.is_empty()).map(|x| x.to_string()).collect::<Vec<_>>()).unwrap_or_default() {
                if is_word(&w) { e.insert(w); }
            }
        }
    }
    for r in &ex.rows {
        let name = r.get("name").cloned().unwrap_or_default();
        let (top, sub) = match name.split_once('.') { Some((a, b)) => (a.to_string(), Some(b.to_string())), None => (name.clone(), None) };
        g.names.insert(top.clone());
        let e = g.kws.entry(top).or_default();
        if let Some(sw) = sub { if is_word(&sw) { e.insert(sw); } }
        for w in r.get("words").map(|w| w.split(',').filter(|x| !x.is_empty()).map(|x| x.to_string()).collect::<Vec<_>>()).unwrap_or_default() {
            if is_word(&w) { e.insert(w); }
        }
    }
    g
}

fn shape_of(name: &str) -> Option<&'static Shape> {
    SHAPES.iter().find(|s| s.name == name)
}

fn source_enumeration(cx: &mut Ctx) {
    let dir = repo_dir();
    // names and words come from the token-based shape translator (indifferent to indentation, line breaks, renamed
    // locals, arms moved into a private helper); the older indentation-based scanner is kept as a debugging aid
    // every anchored file is read WITH ITS MODULE TREE (`foo.rs` + the `foo/*.rs` it declares by `mod x;`, recursively)
    let read = |rel: &str| shape::module_tree(&dir, rel).text;
    let types = shape::field_types(&read(COMMAND_RS));
    let sim = grammar_of_rows(&shape::extract(&read(PARSER_RS), "from_resp", shape::Style::Resp, &types));
    let zc = grammar_of_rows(&shape::extract(&read(COMMANDS_RS), "from_resp_zero_copy", shape::Style::Resp, &types));
    let lua = grammar_of_rows(&shape::extract(&read(SCRIPT_OPS_RS), "parse_lua_command_bytes", shape::Style::Lua, &types));
    if std::env::var("VERIF_C16_DEBUG_SCAN").is_ok() {
        let o_sim = scan_source(&read(PARSER_RS), None, Some("fn extract_string"), 20);
        let o_zc = scan_source(&read(COMMANDS_RS), None, Some("fn extract_string_zc"), 20);
        let o_lua = scan_source(&read(SCRIPT_OPS_RS), Some("fn parse_lua_command_bytes"), Some("fn lua_to_resp"), 12);
        for (tag, old, new) in [("sim", &o_sim, &sim), ("zc", &o_zc, &zc), ("lua", &o_lua, &lua)] {
            eprintln!("SCAN {} names equal: {} kws equal: {}", tag, old.names == new.names, old.kws == new.kws);
            for n in old.names.symmetric_difference(&new.names) { eprintln!("  name {}", n); }
            for (k, v) in &old.kws { if new.kws.get(k) != Some(v) { eprintln!("  kws {} old {:?} new {:?}", k, v, new.kws.get(k)); } }
        }
    }
    if sim.names.len() < 60 || zc.names.len() < 60 || lua.names.len() < 20 {
        cx.out.violation("C16:coverage:source-scan-failed", "the match arms of the three grammars could not be enumerated from the source (layout changed?): the coverage of command names is no longer derived from the source",
            json!({"repo": dir, "from_resp_arms": sim.names.len(), "zero_copy_arms": zc.names.len(), "translator_arms": lua.names.len()}));
    }
    // (a) the two RESP parsers list the same names and the same words per name
    for n in sim.names.symmetric_difference(&zc.names) {
        cx.out.violation(&format!("C16:source:command-name-in-one-parser-only:{}", n), "a command name is a match arm of one RESP parser and not of the other",
            json!({"name": n, "in_from_resp": sim.names.contains(n), "in_from_resp_zero_copy": zc.names.contains(n)}));
    }
    for n in sim.names.intersection(&zc.names) {
        let (a, b) = (&sim.kws[n], &zc.kws[n]);
        for w in a.symmetric_difference(b) {
            cx.out.violation(&format!("C16:source:keyword-in-one-parser-only:{}:{}", n, w), "a sub-command / option word is matched by one RESP parser and not by the other",
                json!({"command": n, "word": w, "in_from_resp": a.contains(w), "in_from_resp_zero_copy": b.contains(w)}));
        }
    }
    // (b) everything the source lists is driven by the generators
    let all: BTreeSet<&String> = sim.names.iter().chain(zc.names.iter()).chain(lua.names.iter()).collect();
    for n in &all {
        match shape_of(n) {
            None => cx.out.violation(&format!("C16:coverage:command-not-driven:{}", n), "a command name of the source has no generator shape: no frame with this name is sent through the three paths", json!({"name": n})),
            Some(sh) => {
                let words: BTreeSet<&String> = [&sim, &zc, &lua].iter().filter_map(|g| g.kws.get(*n)).flatten().collect();
                for w in words {
                    if !sh.kws.contains(&w.as_str()) {
                        cx.out.violation(&format!("C16:coverage:keyword-not-driven:{}:{}", n, w), "a sub-command / option word of the source is not in the generator's keyword list for the command", json!({"command": n, "word": w}));
                    }
                }
            }
        }
    }
    // (c) the translator's arms are the rows of the model-synchronised table
    let tbl: BTreeSet<String> = LUA_TABLE.iter().map(|r| r.0.to_string()).collect();
    for n in tbl.symmetric_difference(&lua.names) {
        cx.out.violation(&format!("C16:source:translator-arm-changed:{}", n), "the match arms of parse_lua_command_bytes are not the rows of the model's translator table", json!({"name": n, "in_source": lua.names.contains(n), "in_model_table": tbl.contains(n)}));
    }
    // (d) the model's command table lists exactly the names of from_resp (compared by the driver)
    let mut names: Vec<&String> = sim.names.iter().collect();
    names.sort();
    cx.out.op("TN".to_string(), names.iter().map(|n| n.as_str()).collect::<Vec<_>>().join(","));
    let only_resp: Vec<&String> = sim.names.iter().filter(|n| !lua.names.contains(*n)).collect();
    cx.out.extra.insert("source_enumeration".into(), json!({
        "repo": dir, "from_resp_names": sim.names.len(), "zero_copy_names": zc.names.len(), "translator_names": lua.names.len(),
        "names_without_translator_arm": only_resp,
        "keywords_per_command": sim.kws.iter().filter(|(_, v)| !v.is_empty()).map(|(k, v)| (k.clone(), v.iter().cloned().collect::<Vec<_>>())).collect::<BTreeMap<_, _>>(),
    }));
}

fn unhex(h: &str) -> String {
    let b: Vec<u8> = (1..h.len()).step_by(2).filter_map(|i| u8::from_str_radix(h.get(i..i + 2)?, 16).ok()).collect();
    String::from_utf8_lossy(&b).to_string()
}

/// a field value with its hex texts decoded, for replay files
fn readable(v: &str) -> String {
    let mut out = String::new();
    let mut rest = v;
    while let Some(i) = rest.find('x') {
        let tail = &rest[i + 1..];
        let n = tail.bytes().take_while(|c| c.is_ascii_hexdigit() && !c.is_ascii_uppercase()).count();
        let boundary_ok = i == 0 || !rest.as_bytes()[i - 1].is_ascii_alphanumeric();
        if boundary_ok && n >= 2 && n % 2 == 0 {
            out.push_str(&rest[..i]);
            out.push_str(&format!("{:?}", unhex(&rest[i..i + 1 + n])));
            rest = &rest[i + 1 + n..];
        } else {
            out.push_str(&rest[..i + 1]);
            rest = tail;
        }
    }
    out.push_str(rest);
    out
}

/// a shape difference names a command and two descriptor values; the integer literals in them (arity bounds,
/// thresholds of extra guards) are where a concrete differing frame is to be found: frames of the command with
/// element counts around every such literal go through the three-way oracle
fn shape_guided_search(cx: &mut Ctx, name: &str, values: &[&str]) {
    let top = name.split('.').next().unwrap_or(name);
    let sub = name.split('.').nth(1);
    let sh = match shape_of(top) { Some(s) => s, None => return };
    let mut lens: BTreeSet<usize> = BTreeSet::new();
    for v in values {
        let mut cur = String::new();
        for c in v.chars().chain(std::iter::once(' ')) {
            if c.is_ascii_digit() { cur.push(c); } else {
                if let Ok(n) = cur.parse::<usize>() { if n <= 20000 { for d in 0..4usize { lens.insert((n + d).saturating_sub(1)); } } }
                cur.clear();
            }
        }
    }
    let tmpl: Vec<char> = sh.tmpl.chars().collect();
    for total in lens {
        if total == 0 { continue; }
        let mut f: Frame = vec![top.as_bytes().to_vec()];
        if let Some(sw) = sub { f.push(sw.as_bytes().to_vec()); }
        let mut k = 0usize;
        while f.len() < total {
            let c = if tmpl.is_empty() { 'V' } else if k < tmpl.len() { tmpl[k] } else if tmpl.len() == 1 { tmpl[0] } else { tmpl[1 + (k - tmpl.len()) % (tmpl.len() - 1)] };
            f.push(match c { 'K' => format!("k{}", k).into_bytes(), 'I' | 'U' => b"1".to_vec(), 'F' => b"1.5".to_vec(), _ => format!("v{}", k).into_bytes() });
            k += 1;
        }
        cx.check_frame(&f, "shape-guided");
    }
}

/// shape descriptors translated from the match arms of the three grammars, against each other and against
/// the model's shape table
fn shape_check(cx: &mut Ctx) {
    // (0) the embedded copy of the model's table is the live model's table
    let mut model: BTreeMap<&str, Vec<shape::Row>> = BTreeMap::new();
    for (tag, op) in [("R", "SH R"), ("L", "SH L"), ("F", "FA"), ("H", "HL")] {
        let lines: Vec<&str> = MODEL_SHAPES.lines().filter(|l| l.starts_with(tag) && l.as_bytes().get(1) == Some(&b' ')).map(|l| &l[2..]).collect();
        for (i, l) in lines.iter().enumerate() {
            cx.out.op(format!("{} {}", op, i), l.to_string());
        }
        cx.out.op(format!("{} {}", op, lines.len()), "end".to_string());
        model.insert(tag, lines.iter().map(|l| shape::parse_row(l)).collect());
    }
    let model_default = MODEL_SHAPES.lines().find(|l| l.starts_with("D ")).map(|l| l[2..].to_string()).unwrap_or_default();
    cx.out.op("DF".to_string(), model_default.clone());
    let dir = repo_dir();
    // every anchored file is read WITH ITS MODULE TREE (`foo.rs` + the `foo/*.rs` it declares by `mod x;`, recursively)
    let read = |rel: &str| shape::module_tree(&dir, rel).text;
    let types = shape::field_types(&read(COMMAND_RS));
    let sim = shape::extract(&read(PARSER_RS), "from_resp", shape::Style::Resp, &types);
    let zc = shape::extract(&read(COMMANDS_RS), "from_resp_zero_copy", shape::Style::Resp, &types);
    let lua = shape::extract(&read(SCRIPT_OPS_RS), "parse_lua_command_bytes", shape::Style::Lua, &types);
    if sim.rows.len() < 100 || zc.rows.len() < 100 || lua.rows.len() < 30 || sim.families.len() < 5 {
        cx.out.violation("C16:source:shape-scan-failed", "the match arms of the three grammars could not be translated into shape descriptors (layout changed?): the shape table is no longer compared with the source",
            json!({"repo": dir, "from_resp_rows": sim.rows.len(), "zero_copy_rows": zc.rows.len(), "translator_rows": lua.rows.len(), "families": sim.families.len(), "problems": [sim.problems, zc.problems, lua.problems]}));
        return;
    }
    // the three tables REGENERATED from the source as a Lean file: `./check` elaborates it after the run (the
    // regenerated tables against each other, against the hand-written model, and the theorems of Props/C16Src.lean
    // instantiated on them)
    let names = |tag: &str| -> Vec<String> { model[tag].iter().map(|r| r.get("name").cloned().unwrap_or_default()).collect() };
    let (lean_text, unprinted) = shape::lean_file(&dir, &sim, &zc, &lua, &names("R"), &names("L"), &names("F"));
    if let Err(e) = std::fs::write(cx.out.dir.join("GrammarSrcGen.lean"), &lean_text) {
        cx.out.violation("C16:source:regenerated-table-not-written", "the Lean file with the regenerated grammar tables could not be written", json!({"error": e.to_string()}));
    }
    for u in &unprinted {
        if !u.contains('?') {
            cx.out.violation(&format!("C16:source:shape-not-printable:{}", u), "a field of a translated shape row has a form the Lean printer of the regenerated tables does not know", json!({"row_field": u}));
        }
    }
    cx.out.extra.insert("regenerated_tables".into(), json!({"file": "GrammarSrcGen.lean", "bytes": lean_text.len(), "rows_not_printed": unprinted}));
    const FIELDS: &[&str] = &["arity", "aerr", "ctor", "slots", "opt", "tail", "opts", "unk", "flits", "checks"];
    let by_name = |rows: &[shape::Row]| -> BTreeMap<String, shape::Row> { rows.iter().map(|r| (r.get("name").cloned().unwrap_or_default(), r.clone())).collect() };
    let mut unrecognised: BTreeSet<String> = BTreeSet::new();
    // the construct the translator could not read, per command (named in the report)
    let mut construct: BTreeMap<String, String> = BTreeMap::new();
    for (g, ex) in [("from_resp", &sim), ("from_resp_zero_copy", &zc), ("parse_lua_command_bytes", &lua)] {
        for r in &ex.rows {
            if let (Some(n), Some(w)) = (r.get("name"), r.get("why")) { construct.entry(n.clone()).or_default().push_str(&format!("[{}] {} ", g, w)); }
        }
    }
    let mut compared = 0u64;
    // (i) the two RESP parsers, every field (also the source-only ones: all literals, compared words, conditions)
    let (a, b) = (by_name(&sim.rows), by_name(&zc.rows));
    for n in a.keys().chain(b.keys()).collect::<BTreeSet<_>>() {
        match (a.get(n), b.get(n)) {
            (Some(x), Some(y)) => {
                for (f, vx) in x {
                    if f == "why" { continue; }
                    let vy = y.get(f).cloned().unwrap_or_default();
                    if (vx.contains('?') || vy.contains('?')) && FIELDS.contains(&f.as_str()) {
                        unrecognised.insert(format!("parsers:{}:{}", n, f));
                        continue;
                    }
                    compared += 1;
                    if *vx != vy {
                        cx.out.violation(&format!("C16:source:parsers-shape-differs:{}:{}", n, f), "the match arms of from_resp and from_resp_zero_copy for this command translate to different shape descriptors",
                            json!({"command": n, "field": f, "from_resp": readable(vx), "from_resp_zero_copy": readable(&vy)}));
                    }
                }
            }
            _ => cx.out.violation(&format!("C16:source:parsers-shape-differs:{}:row", n), "a command (or sub-command) arm exists in one RESP parser only", json!({"command": n, "in_from_resp": a.contains_key(n), "in_from_resp_zero_copy": b.contains_key(n)})),
        }
    }
    let (fa, fb) = (by_name(&sim.families), by_name(&zc.families));
    if fa != fb {
        cx.out.violation("C16:source:parsers-shape-differs:families", "the sub-command families of from_resp and from_resp_zero_copy differ (names, text of a missing sub-command, answer to an unknown sub-command)", json!({"from_resp": fa, "from_resp_zero_copy": fb}));
    }
    // (ii) source against the model's shape table
    for (grammar, src, tag) in [("resp", &sim, "R"), ("lua", &lua, "L")] {
        let s = by_name(&src.rows);
        let m = by_name(&model[tag]);
        for n in s.keys().chain(m.keys()).collect::<BTreeSet<_>>() {
            match (s.get(n), m.get(n)) {
                (Some(x), Some(y)) => {
                    for f in FIELDS {
                        let (vx, vy) = (x.get(*f).cloned().unwrap_or_default(), y.get(*f).cloned().unwrap_or_default());
                        if vx.contains('?') {
                            unrecognised.insert(format!("{}:{}:{}", grammar, n, f));
                            continue;
                        }
                        compared += 1;
                        if !shape::field_eq(f, &vx, &vy) {
                            cx.out.violation(&format!("C16:source:shape:{}:{}:{}", grammar, n, f), "the shape descriptor translated from the command's match arm differs from the row of the model's shape table (which is proved to be the model grammar: parse_is_generic)",
                                json!({"grammar": grammar, "command": n, "field": f, "source": readable(&vx), "model": readable(&vy), "source_row": x, "model_row": y}));
                        }
                    }
                }
                _ => cx.out.violation(&format!("C16:source:shape:{}:{}:row", grammar, n), "a command (or sub-command) arm of the source has no row in the model's shape table, or the reverse", json!({"grammar": grammar, "command": n, "in_source": s.contains_key(n), "in_model": m.contains_key(n)})),
            }
        }
    }
    let mf = by_name(&model["F"]);
    for n in fa.keys().chain(mf.keys()).collect::<BTreeSet<_>>() {
        match (fa.get(n), mf.get(n)) {
            (Some(x), Some(y)) => {
                for f in ["aerr", "probe"] {
                    let (vx, vy) = (x.get(f).cloned().unwrap_or_default(), y.get(f).cloned().unwrap_or_default());
                    if vx.contains('?') { unrecognised.insert(format!("resp:{}:{}", n, f)); continue; }
                    compared += 1;
                    if vx != vy {
                        cx.out.violation(&format!("C16:source:shape:resp:{}:family-{}", n, f), "the family arm of the source differs from the model's family entry (text of a missing sub-command / answer to an unknown sub-command)",
                            json!({"family": n, "field": f, "source": readable(&vx), "model": readable(&vy)}));
                    }
                }
            }
            _ => cx.out.violation(&format!("C16:source:shape:resp:{}:family-row", n), "a sub-command family exists in the source only or in the model only", json!({"family": n, "in_source": fa.contains_key(n), "in_model": mf.contains_key(n)})),
        }
    }
    // a shape difference is a pointer to inputs: search them for a concrete differing frame
    let targets: Vec<(String, Vec<String>)> = cx.out.oracle.iter().filter_map(|v| {
        let sig = v["signature"].as_str()?;
        if !(sig.starts_with("C16:source:parsers-shape-differs:") || sig.starts_with("C16:source:shape:")) { return None; }
        let r = &v["replay"];
        let name = r["command"].as_str()?.to_string();
        let mut vals: Vec<String> = ["from_resp", "from_resp_zero_copy", "source", "model"].iter().filter_map(|k| r[*k].as_str().map(|s| s.to_string())).collect();
        // the conditions of the command's arms carry the thresholds
        for rows in [&a, &b] {
            if let Some(c) = rows.get(&name).and_then(|row| row.get("conds")) { vals.push(c.clone()); }
        }
        Some((name, vals))
    }).collect();
    for (name, vals) in targets {
        let refs: Vec<&str> = vals.iter().map(|s| s.as_str()).collect();
        shape_guided_search(cx, &name, &refs);
    }
    // the extract helpers and the arm of a name without a table entry
    let (ha, hb, hm) = (by_name(&sim.helpers), by_name(&zc.helpers), by_name(&model["H"]));
    if ha != hb {
        // the site: which helper, which field (parsed type / text of a parse failure / literals), and the file of the
        // module tree each twin was read from
        let (ta, tb) = (shape::module_tree(&dir, PARSER_RS), shape::module_tree(&dir, COMMANDS_RS));
        let file_of = |t: &shape::ModTree, fnname: &str| -> String {
            t.files.iter().find(|f| std::fs::read_to_string(format!("{}/{}", dir, f)).map(|s| s.contains(&format!("fn {}(", fnname))).unwrap_or(false)).cloned().unwrap_or_else(|| "?".into())
        };
        let mut sites = Vec::new();
        for n in ha.keys().chain(hb.keys()).collect::<BTreeSet<_>>() {
            let (fa_, fb_) = (file_of(&ta, n), file_of(&tb, &format!("{}_zc", n)));
            match (ha.get(n), hb.get(n)) {
                (Some(x), Some(y)) => for f in ["ty", "perr", "lits"] {
                    if x.get(f) != y.get(f) {
                        sites.push(json!({"helper": n, "field": f, "from_resp": x.get(f).map(|v| readable(v)), "from_resp_zero_copy": y.get(f).map(|v| readable(v)), "from_resp_file": fa_, "from_resp_zero_copy_file": fb_}));
                        cx.out.violation(&format!("C16:source:parsers-shape-differs:extract-helpers:{}:{}", n, f), "this extract helper differs between the two RESP parsers (ty: parsed type; perr: text of a parse failure; lits: every literal of the helper)",
                            json!({"helper": n, "field": f, "from_resp": x.get(f).map(|v| readable(v)), "from_resp_zero_copy": y.get(f).map(|v| readable(v)), "from_resp_file": fa_, "from_resp_zero_copy_file": fb_}));
                    }
                },
                (x, _) => {
                    sites.push(json!({"helper": n, "field": "row", "in_from_resp_tree": x.is_some(), "in_from_resp_zero_copy_tree": hb.contains_key(n), "trees": [ta.files, tb.files]}));
                    cx.out.violation(&format!("C16:source:parsers-shape-differs:extract-helpers:{}:row", n), "this extract helper was found in the module tree of one RESP parser only", json!({"helper": n, "in_from_resp_tree": x.is_some(), "in_from_resp_zero_copy_tree": hb.contains_key(n), "from_resp_tree": ta.files, "from_resp_zero_copy_tree": tb.files}));
                }
            }
        }
        cx.out.violation("C16:source:parsers-shape-differs:extract-helpers", "the extract helpers of the two RESP parsers differ (parsed type, error texts)", json!({"sites": sites, "from_resp": ha, "from_resp_zero_copy": hb}));
    }
    for n in ha.keys().chain(hm.keys()).collect::<BTreeSet<_>>() {
        match (ha.get(n), hm.get(n)) {
            (Some(x), Some(y)) => for f in ["ty", "perr"] {
                compared += 1;
                if x.get(f) != y.get(f) {
                    cx.out.violation(&format!("C16:source:shape:resp:{}:{}", n, f), "an extract helper of the RESP parsers differs from the slot kind that models it (parsed type / text of a parse failure)",
                        json!({"helper": n, "field": f, "source": x.get(f).map(|v| readable(v)), "model": y.get(f).map(|v| readable(v))}));
                }
            },
            _ => cx.out.violation(&format!("C16:source:shape:resp:{}:helper-row", n), "an extract helper exists in the source only or in the model only", json!({"helper": n})),
        }
    }
    let src_default = format!("resp={} lua={}", sim.default_arm, lua.default_arm);
    compared += 1;
    if sim.default_arm != zc.default_arm || src_default != model_default {
        cx.out.violation("C16:source:shape:default-arm", "what a command name without a match arm answers differs between the sources or from the model (RESP parsers: Command::Unknown(name); translator: the 'Unknown Redis command' error)",
            json!({"from_resp": sim.default_arm, "from_resp_zero_copy": zc.default_arm, "translator": lua.default_arm, "model": readable(&model_default)}));
    }
    // a field the translator could not read is not compared — and is never skipped silently: it must be in the
    // reviewed list below (empty on the pinned tree), otherwise it is reported (the differential run still covers
    // the command; the report says which arm to look at and the list to extend after review)
    const REVIEWED_UNRECOGNISED: &[&str] = &[];
    for u in &unrecognised {
        if !REVIEWED_UNRECOGNISED.contains(&u.as_str()) {
            let cmd = u.split(':').nth(1).unwrap_or("");
            let why = construct.get(cmd).cloned().unwrap_or_else(|| "(no detail recorded)".to_string());
            cx.out.violation(&format!("C16:source:shape-not-recognised:{}", u), &format!("pattern not recognised: the match arm of this command is written in a form the shape translator does not read, so this field of its descriptor is no longer compared with the other parser / the model's shape table (review the arm, then extend the translator or the reviewed list). Construct: {}", why),
                json!({"field": u, "construct": why, "reviewed_list": REVIEWED_UNRECOGNISED}));
        }
    }
    cx.out.count_n("shape:fields-compared", compared);
    cx.out.count_n("shape:fields-unrecognised", unrecognised.len() as u64);
    cx.out.extra.insert("shape".into(), json!({
        "repo": dir, "from_resp_rows": sim.rows.len(), "zero_copy_rows": zc.rows.len(), "translator_rows": lua.rows.len(), "families": sim.families.len(),
        "model_rows": {"resp": model["R"].len(), "lua": model["L"].len(), "families": model["F"].len()},
        "fields_compared": compared,
        "unrecognised": unrecognised,
        "read_through": {"from_resp": sim.notes, "from_resp_zero_copy": zc.notes, "parse_lua_command_bytes": lua.notes},
        "module_trees": source_trees(&dir),
        "sample_rows": {"SET": a.get("SET"), "lua:ZADD": by_name(&lua.rows).get("ZADD"), "ACL.LOG": a.get("ACL.LOG")},
    }));
}

/// the word with one ASCII letter group replaced by a non-ASCII character that upper-cases to it
fn special_variants(w: &str) -> Vec<Vec<u8>> {
    let up = w.to_ascii_uppercase();
    let mut v = Vec::new();
    for (pat, rep) in [("SS", "\u{df}"), ("ST", "\u{fb06}"), ("FI", "\u{fb01}"), ("FL", "\u{fb02}"), ("FF", "\u{fb00}"), ("S", "\u{17f}"), ("I", "\u{131}"), ("J", "\u{1f0}"), ("H", "\u{1e96}"), ("T", "\u{1e97}"), ("W", "\u{1e98}"), ("Y", "\u{1e99}")] {
        if up.contains(pat) {
            let x = up.replacen(pat, rep, 1);
            // ǰ ẖ ẗ ẘ ẙ upper-case to the letter PLUS a combining mark: not the keyword — a negative case
            v.push(x.clone().into_bytes());
            v.push(x.to_ascii_lowercase().into_bytes());
        }
    }
    v
}

fn unicode_keyword_sweep(cx: &mut Ctx, rng: &mut Rng) {
    for sh in SHAPES {
        // command name
        for nv in special_variants(sh.name) {
            let mut f = base_frame(rng, sh, 0);
            f[0] = nv;
            cx.check_frame(&f, "unicode:name");
        }
        // every keyword, in every position
        for kw in sh.kws {
            for kv in special_variants(kw) {
                let base = base_frame(rng, sh, 0);
                for pos in 1..=base.len() {
                    for with_val in [false, true] {
                        let mut f = base.clone();
                        f.insert(pos, kv.clone());
                        if with_val { f.insert(pos + 1, b"5".to_vec()); }
                        cx.check_frame(&f, "unicode:keyword");
                    }
                }
            }
        }
    }
    // cased non-ASCII letters (é → É, ω → Ω, ǆ → Ǆ …): outside the model's alphabet, the three real
    // paths are compared with each other
    cx.with_model = false;
    for sh in SHAPES {
        for (from, to) in [("E", "\u{e9}"), ("E", "\u{c9}"), ("O", "\u{3c9}"), ("A", "\u{e5}"), ("D", "\u{1c6}"), ("N", "\u{f1}"), ("U", "\u{fc}")] {
            if sh.name.contains(from) {
                let mut f = base_frame(rng, sh, 0);
                f[0] = sh.name.replacen(from, to, 1).into_bytes();
                cx.check_frame(&f, "unicode:cased-non-ascii:name");
                f[0] = sh.name.to_lowercase().replacen(&from.to_lowercase(), to, 1).into_bytes();
                cx.check_frame(&f, "unicode:cased-non-ascii:name");
            }
            for kw in sh.kws {
                if kw.contains(from) {
                    let mut f = base_frame(rng, sh, 0);
                    f.push(kw.replacen(from, to, 1).into_bytes());
                    f.push(b"5".to_vec());
                    cx.check_frame(&f, "unicode:cased-non-ascii:keyword");
                }
            }
        }
        // and as plain arguments in every slot (keys are lossy Strings, values are bytes: no case mapping at all)
        for i in 0..sh.tmpl.len() {
            let mut f = base_frame(rng, sh, 1);
            f[i + 1] = "\u{e9}\u{df}\u{3c9}".as_bytes().to_vec();
            cx.check_frame(&f, "unicode:cased-non-ascii:argument");
        }
    }
    cx.with_model = true;
}

// ---------------------------------------------------------------------------------------------
// Lua-side argument kinds of redis.call (parse_multivalue_to_bytes): strings, integers, floats;
// booleans / nil / tables are refused
// ---------------------------------------------------------------------------------------------

fn lua_args(cx: &mut Ctx) {
    let cases: Vec<(LuaV, &str)> = vec![
        (LuaV::Str(b"plain".to_vec()), "model"), (LuaV::Str(b"\xff\x00".to_vec()), "model"), (LuaV::Str(vec![]), "model"),
        (LuaV::Int(0), "model"), (LuaV::Int(-1), "model"), (LuaV::Int(42), "model"), (LuaV::Int(i64::MAX), "model"), (LuaV::Int(i64::MIN), "model"),
        (LuaV::Num(3), "model"), (LuaV::Num(-7), "model"), (LuaV::Num(0), "model"), (LuaV::Num(1 << 40), "model"), (LuaV::Num(9007199254740991), "model"),
        (LuaV::Bool(true), "model"), (LuaV::Bool(false), "model"), (LuaV::Nil, "model"), (LuaV::Arr(vec![LuaV::Int(1)]), "model"),
    ];
    for (v, _) in cases {
        // a trailing nil would simply shorten the argument list: put the value in the middle
        let script = format!("return redis.pcall('SET', 'argk', {}, 'GET')", v.literal());
        let mut ex = CommandExecutor::new();
        let r = eval(&mut ex, &script, &vec![]);
        let stored = ex.execute(&Command::Get("argk".into()));
        let line = match (&r, &stored) {
            (Ok(RespValue::Error(t)), _) if t.contains("Invalid argument type") => "refused".to_string(),
            (Ok(RespValue::Error(t)), _) => format!("ERR {}", hex(t.as_bytes())),
            (Ok(_), RespValue::BulkString(Some(b))) => format!("${}", hex(b)),
            (Ok(o), _) => format!("? {}", show_resp(o)),
            (Err(()), _) => "crash".to_string(),
        };
        cx.out.op(format!("LA {}", v.show()), line);
        cx.out.count("lua-arg-kind");
        cx.out.case(&format!("LA {}", v.show()), true);
    }
    // integers given as Lua numbers reach the command unchanged: same effect as the digits sent by a client
    let mut a = primed();
    let mut b = primed();
    let ra = a.execute(&Command::IncrBy("s".into(), 9223372036854775797));
    let rb = eval(&mut b, "return redis.pcall('INCRBY', 's', math.maxinteger - 10)", &vec![]).unwrap_or(RespValue::err("crash"));
    if show_resp(&ra) != show_resp(&rb) || dump(&mut a) != dump(&mut b) {
        cx.out.violation("C16:lua:integer-argument", "an integer passed to redis.call as a Lua number has another effect than its digits sent by a client",
            json!({"script": "return redis.pcall('INCRBY', 's', math.maxinteger - 10)", "direct": show_resp(&ra), "lua": show_resp(&rb)}));
    }
    // observations outside the model's value class (no oracle): non-integral and huge floats
    let mut obs = Vec::new();
    for lit in ["1.5", "1e20", "-0.0", "1/0", "0/0", "2^53", "0.1"] {
        let mut ex = CommandExecutor::new();
        let _ = eval(&mut ex, &format!("return redis.pcall('SET', 'argk', {})", lit), &vec![]);
        obs.push(json!({"lua_number": lit, "stored": show_resp(&ex.execute(&Command::Get("argk".into())))}));
    }
    cx.out.extra.insert("lua_float_arguments_observed".into(), json!(obs));
}

// ---------------------------------------------------------------------------------------------
// EVAL / EVALSHA plumbing: numkeys against the argument count, binary KEYS / ARGV, the script cache
// (EVAL caches, SCRIPT LOAD / FLUSH, shared cache), scripts inside MULTI
// ---------------------------------------------------------------------------------------------

fn exec_frame(ex: &mut CommandExecutor, f: &Frame, zero_copy: bool) -> Option<RespValue> {
    let p = if zero_copy { parse_zc(f) } else { parse_sim(f) };
    match p {
        Parsed::Ok(c, _) => quiet_panics(|| ex.execute(&c)).ok(),
        _ => None,
    }
}

fn eval_plumbing(cx: &mut Ctx) {
    const SCRIPT: &[u8] = b"return {KEYS[1] or 'nokey', ARGV[1] or 'noarg', #KEYS, #ARGV, redis.call('SET', KEYS[1] or 'dflt', ARGV[1] or 'v')}";
    let extra: [&[u8]; 3] = [b"k\xff\x00", b"a\xfe\x00\r\n", b"third"];
    for numkeys in ["0", "1", "2", "3", "4", "-0", "+1", "007", "1.0", "", "18446744073709551615", "9223372036854775807", "-1"] {
        for zero_copy in [false, true] {
            let mut f: Frame = vec![b"EVAL".to_vec(), SCRIPT.to_vec(), numkeys.as_bytes().to_vec()];
            f.extend(extra.iter().map(|x| x.to_vec()));
            if !zero_copy { cx.check_frame(&f, "eval:numkeys"); }
            let parsed = if zero_copy { parse_zc(&f) } else { parse_sim(&f) };
            if let Parsed::Ok(Command::Eval { keys, args, .. }, _) = &parsed {
                let mut ex = primed();
                let got = exec_frame(&mut ex, &f, zero_copy);
                // what the parsed command must make the script see (keys are Strings: lossy by construction)
                let k1 = keys.first().map(|k| k.as_bytes().to_vec()).unwrap_or(b"nokey".to_vec());
                let a1 = args.first().map(|a| a.as_bytes().to_vec()).unwrap_or(b"noarg".to_vec());
                let want = RespValue::Array(Some(vec![RespValue::BulkString(Some(k1.clone())), RespValue::BulkString(Some(a1.clone())),
                    RespValue::Integer(keys.len() as i64), RespValue::Integer(args.len() as i64), RespValue::SimpleString("OK".into())]));
                let n: usize = String::from_utf8_lossy(numkeys.as_bytes()).parse::<isize>().unwrap_or(0) as usize;
                let split_ok = keys.len() == n && keys.len() + args.len() == extra.len() && (0..args.len()).all(|i| args[i].as_bytes() == extra[n + i]);
                cx.out.count("eval-plumbing");
                if got.as_ref().map(show_resp) != Some(show_resp(&want)) || !split_ok {
                    cx.out.violation("C16:eval:keys-argv-plumbing", "EVAL does not hand the script the KEYS / ARGV the frame carries (numkeys keys, the rest byte-exact arguments)",
                        json!({"numkeys": numkeys, "zero_copy": zero_copy, "reply": got.as_ref().map(show_resp), "expected": show_resp(&want)}));
                }
                // the value really stored is ARGV[1], byte-exact
                let stored = ex.execute(&Command::Get(keys.first().cloned().unwrap_or("dflt".to_string())));
                let a_stored = args.first().map(|a| a.as_bytes().to_vec()).unwrap_or(b"v".to_vec());
                if show_resp(&stored) != show_resp(&RespValue::BulkString(Some(a_stored))) {
                    cx.out.violation("C16:eval:argv-not-byte-exact", "a binary ARGV element written by the script is not stored byte-exactly", json!({"numkeys": numkeys, "stored": show_resp(&stored)}));
                }
            }
        }
    }
    // script cache: EVAL caches; EVALSHA = EVAL; SCRIPT LOAD / EXISTS / FLUSH; shared cache
    let body = "return {redis.call('INCRBY', KEYS[1], ARGV[1]), ARGV[2]}";
    let sha = redis_sim::redis::ScriptCache::compute_sha1(body);
    let fr_ = |parts: &[&[u8]]| -> Frame { parts.iter().map(|p| p.to_vec()).collect() };
    let evalsha = fr_(&[b"EVALSHA", sha.as_bytes(), b"1", b"c", b"5", b"\xff\x00"]);
    let evalf = fr_(&[b"EVAL", body.as_bytes(), b"1", b"c", b"5", b"\xff\x00"]);
    cx.check_frame(&evalsha, "eval:evalsha");
    let mut a = primed();
    let mut b = primed();
    let r0 = exec_frame(&mut a, &evalsha, false);
    let r1 = exec_frame(&mut a, &fr_(&[b"SCRIPT", b"LOAD", body.as_bytes()]), false);
    let r2 = exec_frame(&mut a, &evalsha, true);
    let r3 = exec_frame(&mut b, &evalf, false);
    let (da, db) = (dump(&mut a), dump(&mut b));
    let r4 = exec_frame(&mut b, &evalsha, false); // cached by the EVAL
    let r5 = exec_frame(&mut b, &fr_(&[b"SCRIPT", b"FLUSH"]), true);
    let r6 = exec_frame(&mut b, &evalsha, false);
    let r7 = exec_frame(&mut b, &fr_(&[b"SCRIPT", b"EXISTS", sha.as_bytes(), b"ffff"]), false);
    let sh = |r: &Option<RespValue>| r.as_ref().map(show_resp).unwrap_or("none".into());
    let want = "*2 :46 $xff00";
    let problems: Vec<String> = [
        (sh(&r0).starts_with("-") && sh(&r0).contains(&hex(b"NOSCRIPT")[1..]), "EVALSHA of an unknown script is not NOSCRIPT"),
        (sh(&r1) == format!("${}", hex(sha.as_bytes())), "SCRIPT LOAD does not answer the SHA1"),
        (sh(&r2) == want, "EVALSHA after SCRIPT LOAD differs from the expected reply"),
        (sh(&r3) == want, "EVAL differs from the expected reply"),
        (da == db, "EVALSHA and EVAL of the same script leave different keyspaces"),
        (sh(&r4) == "*2 :51 $xff00", "EVALSHA after EVAL (cached) differs"),
        (sh(&r5) == format!("+{}", hex(b"OK")), "SCRIPT FLUSH"),
        (sh(&r6).contains(&hex(b"NOSCRIPT")[1..]), "EVALSHA after SCRIPT FLUSH is not NOSCRIPT"),
        (sh(&r7) == "*2 :0 :0", "SCRIPT EXISTS after FLUSH"),
    ].iter().filter(|(ok, _)| !ok).map(|(_, m)| m.to_string()).collect();
    cx.out.count("eval-script-cache-scenario");
    if !problems.is_empty() {
        cx.out.violation("C16:eval:script-cache", "EVALSHA / SCRIPT LOAD / FLUSH do not behave as EVAL of the same script", json!({"problems": problems, "replies": [sh(&r0), sh(&r1), sh(&r2), sh(&r3), sh(&r4), sh(&r5), sh(&r6), sh(&r7)]}));
    }
    // shared script cache (multi-shard mode): loaded through one executor, visible through the other
    let shared = redis_sim::redis::lua::SharedScriptCache::default();
    let mut s1 = CommandExecutor::with_shared_script_cache(shared.clone());
    let mut s2 = CommandExecutor::with_shared_script_cache(shared);
    let _ = exec_frame(&mut s1, &fr_(&[b"SCRIPT", b"LOAD", body.as_bytes()]), false);
    let r = exec_frame(&mut s2, &fr_(&[b"EVALSHA", sha.as_bytes(), b"1", b"c", b"5", b"x"]), false);
    if sh(&r) != "*2 :5 $x78" {
        cx.out.violation("C16:eval:shared-script-cache", "a script loaded through one executor of a shared cache is not runnable through another", json!({"reply": sh(&r)}));
    }
    // a script queued inside MULTI runs at EXEC with the effect of the queued command
    let mut m1 = primed();
    let mut m2 = primed();
    for f in [fr_(&[b"MULTI"]), fr_(&[b"EVAL", b"return redis.call('SET', KEYS[1], ARGV[1], 'EX', '7')", b"1", b"s", b"\xff"]), fr_(&[b"EXEC"])] { let _ = exec_frame(&mut m1, &f, false); }
    for f in [fr_(&[b"MULTI"]), fr_(&[b"SET", b"s", b"\xff", b"EX", b"7"]), fr_(&[b"EXEC"])] { let _ = exec_frame(&mut m2, &f, true); }
    let (d1, d2) = (dumps(&mut m1), dumps(&mut m2));
    if d1 != d2 {
        cx.out.violation("C16:eval:inside-multi", "a script queued in MULTI leaves another keyspace than the command it calls queued directly", json!({"script_dumps": d1, "direct_dumps": d2}));
    }
}


/// the coverage audit of C16 against the eleven classes of missed inputs (also DESIGN §4 C16 "coverage audit")
fn audit() -> serde_json::Value {
    json!([
      {"class": 1, "topic": "entry paths / command variants never driven",
       "covered": "from_resp, from_resp_zero_copy, redis.pcall AND redis.call (third twin) for every frame; command names, sub-commands and option words are ENUMERATED FROM THE SOURCE the binary was built against (match arms of parser.rs / commands.rs / parse_lua_command_bytes) and checked against the generator shapes, the model's table (TN op) and the translator table (LT ops): a new arm breaks the check (C16:coverage:command-not-driven / keyword-not-driven / C16:source:*); non-bulk frame elements and non-array values (oracle); Lua-side argument kinds of redis.call (string / integer / float / boolean / nil / table: LA ops); EVAL and EVALSHA through both RESP parsers and the executor, SCRIPT LOAD / EXISTS / FLUSH, shared script cache, EVAL inside MULTI",
       "open": "Command::BatchSet / BatchGet are internal (no parser arm); redis.error_reply / status_reply / sha1hex / redis.log are not implemented by the code (only call and pcall exist) — nothing to drive; since session 4 the fields of the `redis` table are enumerated at run time (C16:coverage:redis-table-field-not-driven:<name> when one appears)"},
      {"class": 2, "topic": "input alphabet",
       "covered": "every argument position of every translator arm incl. variadic tails (2nd member, 2nd field/value pair, 2nd key) with non-UTF-8, truncated UTF-8, empty, 23/24-byte (SDS inline limit) values; 1 MiB arguments and 300-argument frames (oracle only); keys with spaces, empty, non-UTF-8; every keyword and command name in upper / lower / mixed case and with each of the 17 non-ASCII characters whose upper case contains an ASCII letter, in every position; cased non-ASCII letters (é ω ǆ ñ ü å) in names, keywords and arguments on the three real paths (oracle only); multi-field HSET / HDEL, multi-member SADD / ZADD",
       "open": "cased non-ASCII letters other than the 17 special ones are outside the Lean model (identity there): compared between the three real paths only"},
      {"class": 3, "topic": "comparisons at equality",
       "covered": "arity 0..max+2 for every name; SELECT 15/16; SETBIT bit 0/1/2/-1; SETRANGE offset -1/0; u32 / i64 / u64 / usize limits ±1; f64 largest finite / first overflow / smallest subnormal / halfway cases; EVAL numkeys below / equal / above the number of arguments and in non-canonical spellings; LIMIT with 0/1/2 following values",
       "open": ""},
      {"class": 4, "topic": "configuration", "covered": "none needed: the three grammars and the conversions read no configuration (checked: no config access in parser.rs, commands.rs, script_ops.rs parse / convert functions)", "open": ""},
      {"class": 5, "topic": "capacity thresholds", "covered": "SDS inline limit 23/24; Vec::with_capacity paths with 300 pairs; 1 MiB values", "open": "Lua C-stack limit of table.unpack (≈ 1M results) is a property of the test script, not of the code"},
      {"class": 6, "topic": "fault kinds", "covered": "panics of every path are caught and compared (catch_unwind)", "open": "no I/O in scope"},
      {"class": 7, "topic": "history shapes",
       "covered": "twins primed at t=1000 s with every type with and without TTL, plus a key whose deadline has passed but which was never evicted; keyspace compared right after and at +8 s / +60 s / +2000 s; EVALSHA before / after SCRIPT LOAD, after EVAL, after SCRIPT FLUSH; script queued in MULTI",
       "open": "multi-command histories are C01 / C05's subject; C16 compares single commands on a primed state"},
      {"class": 8, "topic": "node-global state outside the model", "covered": "script cache (local and shared) driven by the EVALSHA scenarios; a fresh Lua state per EVAL (globals cannot leak) is exercised by every EVAL", "open": "math.random seeding from the virtual clock (determinism is C20's subject)"},
      {"class": 9, "topic": "observations",
       "covered": "canonical field-by-field rendering of the parsed Command (both parsers); reply AND keyspace with remaining PTTL at four instants for direct / pcall / call; exact error texts; the exact shape of the error redis.call raises (found: mangled by mlua, C16:lua:call-error-text-mangled)",
       "open": "the translator's Command itself is private (observed through its effect)"},
      {"class": 10, "topic": "finding signatures", "covered": "every recorded signature fires only for inputs the model of the current code predicts (tables synced with Lean by LT ops; lua_error_alphabet, lua_unknown_iff_not_in_luaTable, lua_rejects_accepted_only_on)", "open": ""},
      {"class": 11, "topic": "harness fragility", "covered": "the source files are read from the tree the binary was built against (path taken from harness/Cargo.toml at compile time, not a hard-coded /repo); a failed source scan is itself a violation (C16:coverage:source-scan-failed); duplicate frames are skipped, not fatal", "open": ""},
      {"class": "session-3", "topic": "extensions (task B) against the same classes",
       "covered": "1: every match arm of the three grammars is TRANSLATED into a shape descriptor and compared with the model's row and with the other RESP parser (a new arm / option arm / guard / literal is a table diff even when no generated frame reaches it); multi-statement scripts (redis.call / redis.pcall mixed, refused / unknown / bad-argument / empty statements, KEYS / ARGV references, nested return tables) generated from the modelled script language. 3 and 5: the integer literals of a differing descriptor and of the arm's conditions (arity bounds, capacity thresholds of extra guards) drive a search with element counts just below / at / above each. 7: effects of earlier statements after a raising one, statements after it. 9: the number of completed statements of a script (trace markers), the exact reply of an EVAL that ends in a raised error (code-word rule), per-field source descriptors incl. every condition and literal of every arm. 10: a nil inside the reply of a translator command has its own signature (the model proves there is none). 11: unread source syntax is `?` = reported unless reviewed (C16:source:shape-not-recognised), too few rows = C16:source:shape-scan-failed; the embedded copy of the model's shape table is compared with the live model on every run",
       "open": "conditions of the finishing checks (`conds`) have no model counterpart: compared between the two RESP parsers only; Lua scripts outside the modelled shape (loops, tostring, cjson …) are not generated"},
      {"class": "session-4", "topic": "tables regenerated from the source per run; conversions for every reply; float arguments; harmless rewrites",
       "covered": "1: the translator's rows are written as a Lean file on every run (GrammarSrcGen.lean) and elaborated by ./check: zcRows = respRows, regenerated tables = normal form of the hand-written ones (proved at build time to describe them), theorems of Props/C16Src.lean instantiated on them — a changed descriptor refutes a NAMED theorem; fields of the `redis` table enumerated by a script. 2: a Lua FLOAT of any bit pattern as a redis.call argument (LF ops: binade boundaries ± 1 ulp, subnormals, 2^53 ± 2, powers of ten, ties, random) with a lossless-ness oracle. 9: table shapes Redis documents an answer for ({ok=,err=}, named fields next to the array part, holes, floats, nesting, booleans) as oracle cases. 11 / harmless rewrites: the translator reads roles, not names (renamed dispatch variable / argument array / closures / loop indices / word variables, an arm moved into a private helper, reordered arms, re-indentation, comments) and lists what it read through (shape.read_through); equivalent spellings of the arity guard; an untyped .parse() resolved from the constructor's field type in command.rs; command / keyword enumeration token-based instead of indentation-based; unread syntax is reported with the construct quoted",
       "open": "a guard moved into a helper function (`if Self::too_few(elements, 2)`) is read as `no arity test + one more finishing literal` and reported as a shape difference, not read through; partial helpers (a helper that parses only the options) are not inlined"}
    ])
}

fn fr(parts: &[&[u8]]) -> Frame {
    parts.iter().map(|p| p.to_vec()).collect()
}

fn corpus(cx: &mut Ctx) {
    let c: Vec<Frame> = vec![
        // error texts of the two parsers
        fr(&[b"LPUSH", b"k"]), fr(&[b"RPUSH", b"k"]), fr(&[b"SADD", b"k"]), fr(&[b"lpush"]),
        // ACL stubs only in the zero-copy parser
        fr(&[b"ACL", b"HELP"]), fr(&[b"acl", b"load"]), fr(&[b"ACL", b"SAVE"]),
        // translator: unknown commands, unknown SET options, missing conflict test
        fr(&[b"APPEND", b"t", b"x"]), fr(&[b"SETNX", b"k", b"v"]), fr(&[b"GETSET", b"s", b"v"]), fr(&[b"MSET", b"a", b"1"]),
        fr(&[b"SET", b"s", b"v", b"KEEPTTL"]), fr(&[b"SET", b"k", b"v", b"EXAT", b"100"]), fr(&[b"SET", b"k", b"v", b"PXAT", b"100000"]),
        fr(&[b"SET", b"s", b"v", b"NX", b"XX"]), fr(&[b"SET", b"k", b"v", b"EX", b"10", b"NX"]), fr(&[b"SET", b"k", b"v", b"PX", b"abc"]),
        fr(&[b"EXPIRE", b"s", b"100", b"NX"]), fr(&[b"ZRANGE", b"z", b"0", b"-1", b"WITHSCORES"]),
        fr(&[b"ZRANGEBYSCORE", b"z", b"-inf", b"+inf", b"LIMIT", b"0", b"-1"]),
        fr(&[b"GET"]), fr(&[b"INCRBY", b"s", b"x"]), fr(&[b"INCR", b"s", b"extra"]),
        // panics
        fr(&[b"SCAN", b"0", b"MATCH"]), fr(&[b"SCAN", b"0", b"COUNT"]), fr(&[b"HSCAN", b"h", b"0", b"MATCH"]), fr(&[b"ZSCAN", b"z", b"0", b"COUNT"]),
        fr(&[b"EVAL", b"return 1", b"-1"]), fr(&[b"EVALSHA", b"abc", b"-3"]), fr(&[b"EVAL", b"return 1", b"-4"]),
        // case / unicode
        fr(&["ſet".as_bytes(), b"k", b"v"]), fr(&[b"SeT", b"k", b"v", b"eX", b"5"]), fr(&["\u{fb02}ushall".as_bytes()]),
        // numbers at the limits
        fr(&[b"INCRBY", b"s", b"9223372036854775807"]), fr(&[b"INCRBY", b"s", b"9223372036854775808"]), fr(&[b"INCRBY", b"s", b"-9223372036854775808"]),
        fr(&[b"SELECT", b"99999999999999999999x"]), fr(&[b"SELECT", b""]), fr(&[b"SELECT", b"-1"]), fr(&[b"SELECT", b"16"]),
        fr(&[b"INCRBYFLOAT", b"s", b"1e400"]), fr(&[b"INCRBYFLOAT", b"s", b"nan"]), fr(&[b"ZADD", b"z", b"1e3", b"m", b"inf", b"n"]),
        vec![],
    ];
    for f in c {
        cx.check_frame(&f, "corpus");
    }
}

fn systematic(cx: &mut Ctx, rng: &mut Rng) {
    for sh in SHAPES {
        let max = sh.tmpl.len() + 3;
        for arity in 0..=max + 2 {
            for case_mode in 0..4u64 {
                let mut f = base_frame(rng, sh, case_mode);
                if rng.chance(1, 2) { add_options(rng, sh, &mut f); }
                f.truncate(arity + 1);
                while f.len() < arity + 1 {
                    let c = if !sh.kws.is_empty() && rng.chance(1, 2) { 'O' } else { sh.tmpl.chars().last().unwrap_or('V') };
                    if c == 'O' { let kw = *rng.pick(sh.kws); let m = rng.below(3); f.push(recase(rng, kw, m)); } else { f.push(slot(rng, c)); }
                }
                cx.check_frame(&f, "systematic:arity");
            }
        }
        // every option keyword in every position
        for kw in sh.kws {
            let base = base_frame(rng, sh, 0);
            for pos in 1..=base.len() {
                for with_val in [false, true] {
                    let mut f = base.clone();
                    let m = rng.below(3);
                    f.insert(pos, recase(rng, kw, m));
                    if with_val { f.insert(pos + 1, slot(rng, 'I')); }
                    cx.check_frame(&f, "systematic:option-position");
                }
            }
        }
        // numeric arguments at / beyond the limits in every numeric slot
        for (i, c) in sh.tmpl.chars().enumerate() {
            if matches!(c, 'I' | 'U' | 'F') {
                for n in NUMS {
                    let mut f = base_frame(rng, sh, 0);
                    // keep the other slots tame so that the numeric slot decides
                    for (j, cj) in sh.tmpl.chars().enumerate() {
                        if j != i { f[j + 1] = match cj { 'K' => b"s".to_vec(), 'I' | 'U' | 'F' => b"1".to_vec(), _ => b"v".to_vec() }; }
                    }
                    f[i + 1] = n.as_bytes().to_vec();
                    cx.check_frame(&f, "systematic:numeric");
                }
            }
        }
        // empty and non-UTF-8 arguments in every slot
        for i in 0..sh.tmpl.len() {
            for bad in [&b""[..], b"\xff\xfe", b"\xc3\x28", b"\xe2\x82"] {
                let mut f = base_frame(rng, sh, 1);
                f[i + 1] = bad.to_vec();
                cx.check_frame(&f, "systematic:bytes");
            }
        }
    }
    // numeric values of options
    for (name, pre, kw) in [("SET", "KV", "EX"), ("SET", "KV", "PX"), ("SET", "KV", "EXAT"), ("SET", "KV", "PXAT"), ("GETEX", "K", "EX"), ("GETEX", "K", "PXAT"), ("SCAN", "U", "COUNT"), ("HSCAN", "KU", "COUNT"), ("ZRANGEBYSCORE", "KFF", "LIMIT"), ("SPOP", "K", ""), ("ACL", "", "GENPASS"), ("ACL", "", "LOG"), ("DEBUG", "", "SLEEP"), ("EVAL", "S", "")] {
        for n in NUMS {
            let mut f: Frame = vec![name.as_bytes().to_vec()];
            for c in pre.chars() { f.push(match c { 'K' => b"s".to_vec(), 'U' => b"0".to_vec(), 'F' => b"0".to_vec(), 'S' => b"return 1".to_vec(), _ => b"v".to_vec() }); }
            if !kw.is_empty() { f.push(kw.as_bytes().to_vec()); }
            f.push(n.as_bytes().to_vec());
            if kw == "LIMIT" { let mut g = f.clone(); g.push(b"5".to_vec()); cx.check_frame(&g, "systematic:option-numeric"); f.insert(f.len() - 1, b"0".to_vec()); }
            if name == "EVAL" { f.push(b"s".to_vec()); f.push(b"t".to_vec()); }
            cx.check_frame(&f, "systematic:option-numeric");
        }
    }
}

pub fn run(a: &Args) {
    // the parsers' panics are part of what is observed: keep the default hook from flooding the log
    std::panic::set_hook(Box::new(|_| {}));
    let mut cx = Ctx { out: Out::new(&a.out), with_model: true, call_path: false, call_error_samples: Vec::new(), lua_unknown: BTreeSet::new(), lua_errtext: BTreeSet::new(), parse_crash: BTreeSet::new(), seen: BTreeSet::new() };
    let mut rng = Rng::new(a.seed);
    lua_table_sync(&mut cx);
    corpus(&mut cx);
    unicode_sweep(&mut cx);
    float_sweep(&mut cx, &mut rng, (a.n / 4).max(200));
    int_sweep(&mut cx, &mut rng, (a.n / 8).max(200));
    float_reply_sweep(&mut cx, &mut rng, (a.n / 40).max(200));
    float_arg_sweep(&mut cx, &mut rng, (a.n / 40).max(200));
    redis_table_fields(&mut cx);
    luaconv(&mut cx, &mut rng, (a.n / 10).max(100));
    lua_args(&mut cx);
    eval_plumbing(&mut cx);
    source_enumeration(&mut cx);
    shape_check(&mut cx);
    unicode_keyword_sweep(&mut cx, &mut rng);
    effect_sweep(&mut cx);
    systematic(&mut cx, &mut rng);
    nonbulk(&mut cx, &mut rng);
    elem_sweep(&mut cx, &mut rng);
    let mut done = 0u64;
    while done < a.n {
        let sh = rng.pick(SHAPES);
        let mode = rng.below(5).min(3);
        let mut f = base_frame(&mut rng, sh, mode);
        add_options(&mut rng, sh, &mut f);
        if rng.chance(1, 10) && f.len() > 1 { let i = rng.range(1, f.len() as u64 - 1) as usize; f.remove(i); }
        if rng.chance(1, 10) { let i = rng.range(1, f.len() as u64) as usize; let c = *rng.pick(&['K', 'V', 'I']); let s = slot(&mut rng, c); f.insert(i, s); }
        if rng.chance(1, 12) && f.len() > 2 { let i = rng.range(1, f.len() as u64 - 1) as usize; let j = rng.range(1, f.len() as u64 - 1) as usize; f.swap(i, j); }
        cx.check_frame(&f, "random");
        done += 1;
    }
    script::scripts(&mut cx, &mut rng, (a.n / 40).max(150));
    source_diff(&mut cx);
    cx.out.extra.insert("commands_unknown_to_lua_translator".into(), json!(cx.lua_unknown));
    cx.out.extra.insert("commands_with_different_lua_error_text".into(), json!(cx.lua_errtext));
    cx.out.extra.insert("commands_with_parser_panic".into(), json!(cx.parse_crash));
    cx.out.extra.insert("audit".into(), audit());
    cx.out.extra.insert("redis_call_error_shape_samples".into(), json!(cx.call_error_samples));
    cx.out.finish("case = one command frame (array of bulk strings) sent through from_resp, from_resp_zero_copy and redis.pcall on primed twin executors; drawn from (i) a fixed corpus, (ii) every command name of the three grammars x 4 letter-case modes (incl. non-ASCII characters that upper-case to ASCII) x arity 0..max+2, every option keyword in every position, every numeric slot x boundary numerals, empty / non-UTF-8 bytes in every slot, (iii) random structured frames with mutations; plus Lua value literals for lua_to_resp, float and integer literals, shape-guided frames, and EVAL scripts generated from the modelled script language (distinct by source text); distinct by frame bytes; non-trivial iff the command name is known to from_resp");
}
