//! C03 over the M7 reference executor: the whole command set of `Model/Redis.lean` (five value
//! types, expiry commands, two-key and multi-key commands) as TIMED streams through the real
//! `ShardedActorState::execute` on 1 and N shards, against `Shards.M7.execNT7code` (the sharding model
//! instantiated with the M7 executor; theorems in `Props/C03M7.lean`).
//!
//! Lines (driver `C03`): `M7NEW <N> <n> (<key> <route>)*`, `M7 <now> <op in the C01 line syntax>`,
//! `M7EVICT <now>` (the TTL tick), `M7DUMP <now>` (what a client reads of every key through routed
//! commands + what KEYS * lists).  The model runs FREE (no resynchronisation): one disagreement
//! cascades to the end of its case only.
//!
//! The generator stays inside the part of the command set where the real executor conforms to the M7
//! model (C01's six listed conformance findings are avoided BY INPUT, never by filtering results:
//! no GETSET, no GETRANGE with two negative indices start > end, set members / hash fields / sorted-set
//! members valid UTF-8) and where the answer is a function (no SPOP / RANDOMKEY: the choice is the
//! implementation's, two instances choose differently); two-key commands and MSETNX keep their keys
//! on one shard (the cross-shard case is the listed findings `C03:two-key:*` / `C03:multi-key:MSETNX`,
//! driven by the classes of c03.rs and refuted on the M7 instance by `m7_two_key_counterexample`).
use crate::c03::{new_state_ctx, set_now, Ctx, Pending};
use crate::enc::{hex, key_cmp};
use crate::out::Out;
use crate::redisx::{enc_cmd, gen_cmd, reply_order, reply_text, score_text, BASE_MS, KEYS};
use crate::rng::Rng;
use redis_sim::redis::{Command, RespValue, SDS};
use serde_json::json;

fn bcmp(a: &[u8], b: &[u8]) -> std::cmp::Ordering {
    (a.len(), a).cmp(&(b.len(), b))
}

fn utf8(v: &SDS) -> bool {
    std::str::from_utf8(v.as_bytes()).is_ok()
}

/// inside the fragment where the executor conforms to M7 and the answer is a function of the state
pub(crate) fn admissible(cmd: &Command) -> bool {
    match cmd {
        Command::GetSet(_, _) => false,
        Command::GetRange(_, a, b) => !(*a < 0 && *b < 0 && a > b),
        Command::SPop(_, _) | Command::RandomKey => false,
        Command::SAdd(_, ms) | Command::SRem(_, ms) | Command::HDel(_, ms) | Command::ZRem(_, ms) => ms.iter().all(utf8),
        Command::SIsMember(_, m) | Command::HGet(_, m) | Command::HExists(_, m) | Command::HIncrBy(_, m, _) | Command::ZScore(_, m) | Command::ZRank(_, m) => utf8(m),
        Command::HSet(_, fvs) => fvs.iter().all(|(f, _)| utf8(f)),
        Command::ZAdd { pairs, .. } => pairs.iter().all(|(_, m)| utf8(m)),
        _ => true,
    }
}

/// the Lua texts of `Redis.scriptCatalog` (lean/RedisVerif/Model/Script7.lean), same ids
pub const SCRIPTS: [&str; 4] = [
    "local v = redis.call('GET', KEYS[1]) redis.call('SET', KEYS[1], ARGV[1]) return v",
    "local v = redis.call('RPOP', KEYS[1]) if v then redis.call('LPUSH', KEYS[2], v) end return v",
    "redis.call('INCR', KEYS[1]) return redis.call('INCR', KEYS[1])",
    "local o = redis.call('HGET', KEYS[1], ARGV[1]) redis.call('HSET', KEYS[1], ARGV[1], ARGV[2]) return o",
];

#[derive(Clone)]
pub enum Step {
    /// EVAL of script `id` (1-based) of `SCRIPTS`: (now, id, KEYS, ARGV)
    Script(u64, usize, Vec<String>, Vec<Vec<u8>>),
    Cmd(u64, Command),
    Evict(u64),
    Dump(u64),
}

fn bulks(r: &RespValue) -> Vec<Vec<u8>> {
    match r {
        RespValue::Array(Some(v)) => v.iter().filter_map(|x| if let RespValue::BulkString(Some(b)) = x { Some(b.clone()) } else { None }).collect(),
        _ => vec![],
    }
}

/// the keyspace as a client sees it: every key of the universe read through ROUTED commands
/// (TYPE, PTTL, the value by type), in the dump syntax of the C01 driver, plus what KEYS * lists
pub(crate) async fn dump7<T: redis_sim::io::TimeSource>(st: &redis_sim::production::ShardedActorState<T>, universe: &[String]) -> String {
    let mut keys: Vec<String> = universe.to_vec();
    keys.sort_by(|a, b| key_cmp(a, b));
    let mut parts: Vec<String> = Vec::new();
    for k in &keys {
        let ty = match st.execute(&Command::TypeOf(k.clone())).await {
            RespValue::SimpleString(s) => s.to_string(),
            other => format!("?{:?}", other),
        };
        if ty == "none" {
            continue;
        }
        let ttl = match st.execute(&Command::Pttl(k.clone())).await {
            RespValue::Integer(i) => i,
            _ => -3,
        };
        let v = match ty.as_str() {
            "string" => match st.execute(&Command::Get(k.clone())).await {
                RespValue::BulkString(Some(b)) => format!("S {}", hex(&b)),
                other => format!("S?{:?}", other),
            },
            "list" => {
                let items = bulks(&st.execute(&Command::LRange(k.clone(), 0, -1)).await);
                let mut s = format!("L {}", items.len());
                for i in items {
                    s.push(' ');
                    s.push_str(&hex(&i));
                }
                s
            }
            "set" => {
                let mut m = bulks(&st.execute(&Command::SMembers(k.clone())).await);
                m.sort_by(|a, b| bcmp(a, b));
                let mut s = format!("T {}", m.len());
                for i in m {
                    s.push(' ');
                    s.push_str(&hex(&i));
                }
                s
            }
            "hash" => {
                let flat = bulks(&st.execute(&Command::HGetAll(k.clone())).await);
                let mut m: Vec<(Vec<u8>, Vec<u8>)> = flat.chunks(2).filter(|c| c.len() == 2).map(|c| (c[0].clone(), c[1].clone())).collect();
                m.sort_by(|a, b| bcmp(&a.0, &b.0));
                let mut s = format!("H {}", m.len());
                for (f, v) in m {
                    s.push_str(&format!(" {} {}", hex(&f), hex(&v)));
                }
                s
            }
            "zset" => {
                let flat = bulks(&st.execute(&Command::ZRange(k.clone(), 0, -1, true)).await);
                let mut s = format!("Z {}", flat.len() / 2);
                for c in flat.chunks(2).filter(|c| c.len() == 2) {
                    let sc = String::from_utf8_lossy(&c[1]).parse::<f64>().map(score_text).unwrap_or_else(|_| format!("?{}", hex(&c[1])));
                    s.push_str(&format!(" {} {}", hex(&c[0]), sc));
                }
                s
            }
            other => format!("?{}", other),
        };
        parts.push(format!("{} {} {}", hex(k.as_bytes()), ttl, v));
    }
    let mut s = parts.len().to_string();
    for p in parts {
        s.push(' ');
        s.push_str(&p);
    }
    let mut all = bulks(&st.execute(&Command::Keys("*".into())).await);
    all.sort_by(|a, b| bcmp(a, b));
    format!("{} | keys=[{}]", s, all.iter().map(|k| hex(k)).collect::<Vec<_>>().join(","))
}

fn step_line(s: &Step, reply: &RespValue) -> Option<String> {
    match s {
        Step::Cmd(now, c) => enc_cmd(c, reply).map(|o| format!("M7 {} {}", now, o)),
        Step::Script(now, id, keys, args) => {
            // script 4: ARGV[1] is a hash field (a key code for the model), ARGV[2] its value
            let (vals, fields): (Vec<&Vec<u8>>, Vec<&Vec<u8>>) = if *id == 4 { (vec![&args[1]], vec![&args[0]]) } else { (args.iter().collect(), vec![]) };
            let mut l = format!("M7S {} {} {}", now, id, keys.len());
            for k in keys {
                l.push_str(&format!(" {}", hex(k.as_bytes())));
            }
            l.push_str(&format!(" {}", vals.len()));
            for v in vals {
                l.push_str(&format!(" {}", hex(v)));
            }
            l.push_str(&format!(" {}", fields.len()));
            for f in fields {
                l.push_str(&format!(" {}", hex(f)));
            }
            Some(l)
        }
        Step::Evict(now) => Some(format!("M7EVICT {}", now)),
        Step::Dump(now) => Some(format!("M7DUMP {}", now)),
    }
}

async fn run_on(n: usize, steps: &[Step], universe: &[String]) -> Vec<String> {
    let (st, sim) = new_state_ctx(n);
    let mut out = Vec::new();
    for s in steps {
        match s {
            Step::Cmd(now, c) => {
                set_now(&sim, *now);
                let r = st.execute(c).await;
                out.push(reply_text(&r, reply_order(c)));
            }
            Step::Script(now, id, keys, args) => {
                set_now(&sim, *now);
                let c = Command::Eval { script: SCRIPTS[*id - 1].to_string(), keys: keys.clone(), args: args.iter().map(|a| SDS::new(a.clone())).collect() };
                let r = st.execute(&c).await;
                out.push(reply_text(&r, crate::redisx::Order::AsIs));
            }
            Step::Evict(now) => {
                set_now(&sim, *now);
                st.evict_expired_all_shards().await;
                out.push("evict".into());
            }
            Step::Dump(now) => {
                set_now(&sim, *now);
                out.push(dump7(&st, universe).await);
            }
        }
    }
    out
}

pub(crate) fn same_shard(ctx: &Ctx, n: usize, c: &Command) -> bool {
    let ks = c.get_keys();
    match c {
        Command::Rename(..) | Command::RenameNx(..) | Command::RPopLPush(..) | Command::LMove { .. } | Command::MSetNx(_) => {
            ks.iter().all(|k| ctx.gen(k.as_bytes(), n) == ctx.gen(ks[0].as_bytes(), n))
        }
        Command::Sort { store: Some(_), .. } => ks.iter().all(|k| ctx.gen(k.as_bytes(), n) == ctx.gen(ks[0].as_bytes(), n)),
        _ => true,
    }
}

/// a random timed stream; the clock stands still, ticks, jumps, or lands just before / at / just
/// past a deadline that some key currently has ON THE N-SHARD INSTANCE's model of time (deadlines are
/// remembered from the PX / EX / PEXPIRE arguments the generator itself issued)
pub fn random_steps(ctx: &Ctx, rng: &mut Rng, n: usize) -> Vec<Step> {
    let mut now = BASE_MS + rng.below(1000);
    let mut steps = Vec::new();
    let mut deadlines: Vec<u64> = Vec::new();
    let len = rng.range(8, 36);
    let mut tries = 0;
    while (steps.len() as u64) < len && tries < 2000 {
        tries += 1;
        now = match rng.below(14) {
            0..=5 => now,
            6 => now + 1,
            7 => now + rng.range(2, 2500),
            8 => now + 100_000,
            _ => {
                if deadlines.is_empty() {
                    now + rng.below(3)
                } else {
                    let d = deadlines[rng.below(deadlines.len() as u64) as usize];
                    if d > now + 1 {
                        match rng.below(4) {
                            0 => d - 1,
                            1 | 2 => d,
                            _ => d + 1,
                        }
                    } else {
                        now + rng.below(3)
                    }
                }
            }
        };
        if rng.chance(1, 25) {
            steps.push(Step::Evict(now));
            continue;
        }
        if rng.chance(1, 20) {
            steps.push(Step::Dump(now));
            continue;
        }
        if rng.chance(1, 9) {
            // a multi-call script; its keys on one shard (script 2: KEYS[2] = a key with KEYS[1]'s home)
            let id = rng.range(1, 4) as usize;
            let k1 = rng.pick(&KEYS).to_string();
            let keys = if id == 2 {
                let same: Vec<&str> = KEYS.iter().filter(|k| ctx.gen(k.as_bytes(), n) == ctx.gen(k1.as_bytes(), n)).cloned().collect();
                vec![k1.clone(), rng.pick(&same).to_string()]
            } else {
                vec![k1]
            };
            let args: Vec<Vec<u8>> = match id {
                1 => vec![crate::redisx::payload(rng).as_bytes().to_vec()],
                4 => vec![rng.pick(&["a", "b", "é"]).as_bytes().to_vec(), crate::redisx::payload(rng).as_bytes().to_vec()],
                _ => vec![],
            };
            steps.push(Step::Script(now, id, keys, args));
            continue;
        }
        let c = gen_cmd(rng, now);
        if !admissible(&c) || !same_shard(ctx, n, &c) || enc_cmd(&c, &RespValue::BulkString(None)).is_none() {
            continue;
        }
        match &c {
            Command::Set { px: Some(p), .. } if *p > 0 && *p < 1_000_000 => deadlines.push(now + *p as u64),
            Command::Set { ex: Some(s), .. } if *s > 0 && *s < 1000 => deadlines.push(now + 1000 * *s as u64),
            Command::PExpire { milliseconds, .. } if *milliseconds > 0 && *milliseconds < 1_000_000 => deadlines.push(now + *milliseconds as u64),
            Command::Expire { seconds, .. } if *seconds > 0 && *seconds < 1000 => deadlines.push(now + 1000 * *seconds as u64),
            _ => {}
        }
        steps.push(Step::Cmd(now, c));
    }
    steps.push(Step::Dump(now));
    steps.push(Step::Dump(now + 3_000));
    steps
}

fn s(x: &str) -> SDS {
    SDS::new(x.as_bytes().to_vec())
}

/// fixed streams, run first on every run: a deadline passing on a shard that gets no message in
/// between, for every value type; the TTL tick; type change; fan-outs over a mixed keyspace
pub fn corpus() -> Vec<(&'static str, Vec<Step>)> {
    let t = BASE_MS;
    let k = |i: usize| KEYS[i].to_string();
    let px = |key: String, v: &str, ms: i64| {
        let mut c = Command::set(key, s(v));
        if let Command::Set { px, .. } = &mut c {
            *px = Some(ms);
        }
        c
    };
    let mut all = Vec::new();
    // one value of every type with a deadline; traffic for the other keys only; reads after it
    let mut v = vec![
        Step::Cmd(t, px(k(0), "v", 100)),
        Step::Cmd(t, Command::RPush(k(1), vec![s("x"), s("y")])),
        Step::Cmd(t, Command::PExpire { key: k(1), milliseconds: 100, nx: false, xx: false, gt: false, lt: false }),
        Step::Cmd(t, Command::SAdd(k(2), vec![s("m"), s("n")])),
        Step::Cmd(t, Command::PExpire { key: k(2), milliseconds: 150, nx: false, xx: false, gt: false, lt: false }),
        Step::Cmd(t, Command::HSet(k(3), vec![(s("f"), s("1"))])),
        Step::Cmd(t, Command::ZAdd { key: k(4), pairs: vec![(1.0, s("a")), (2.0, s("b"))], nx: false, xx: false, gt: false, lt: false, ch: false }),
        Step::Dump(t + 50),
    ];
    for (dt, key) in [(99u64, 0usize), (100, 0), (100, 1), (101, 1), (149, 2), (150, 2)] {
        v.push(Step::Cmd(t + dt, Command::Exists(vec![k(key)])));
        v.push(Step::Cmd(t + dt, Command::DbSize));
    }
    v.push(Step::Cmd(t + 200, Command::LLen(k(1))));
    v.push(Step::Cmd(t + 200, Command::SCard(k(2))));
    v.push(Step::Cmd(t + 200, Command::HIncrBy(k(3), s("f"), 41)));
    v.push(Step::Cmd(t + 200, Command::MGet(vec![k(0), k(3), k(4)])));
    v.push(Step::Cmd(t + 200, Command::Keys("*".into())));
    v.push(Step::Dump(t + 200));
    all.push(("every-type-with-deadline", v));
    // the TTL tick between a deadline and the next read; DEL / MSET / FLUSHALL fan-outs
    all.push((
        "tick-and-fanouts",
        vec![
            Step::Cmd(t, Command::MSet(vec![(k(0), s("1")), (k(1), s("2")), (k(2), s("3")), (k(3), s("4"))])),
            Step::Cmd(t, Command::PExpire { key: k(0), milliseconds: 10, nx: false, xx: false, gt: false, lt: false }),
            Step::Cmd(t, Command::Expire { key: k(1), seconds: 1, nx: false, xx: false, gt: false, lt: false }),
            Step::Evict(t + 10),
            Step::Cmd(t + 10, Command::DbSize),
            Step::Cmd(t + 999, Command::Ttl(k(1))),
            Step::Cmd(t + 1000, Command::Del(vec![k(0), k(1), k(2)])),
            Step::Cmd(t + 1000, Command::Exists(vec![k(0), k(1), k(2), k(3), k(3)])),
            Step::Cmd(t + 1001, Command::RPush(k(2), vec![s("a")])),
            Step::Cmd(t + 1001, Command::Incr(k(3))),
            Step::Cmd(t + 1001, Command::TypeOf(k(2))),
            Step::Dump(t + 1002),
            Step::Cmd(t + 1003, Command::FlushAll),
            Step::Cmd(t + 1003, Command::DbSize),
            Step::Dump(t + 1004),
        ],
    ));
    // multi-call scripts: on the right type, on the wrong type (the failing call aborts the script,
    // what earlier calls did stays done), on an expired key, on a key emptied by the script itself
    all.push((
        "scripts",
        vec![
            Step::Script(t, 1, vec![k(0)], vec![b"new".to_vec()]),
            Step::Script(t, 1, vec![k(0)], vec![b"newer".to_vec()]),
            Step::Cmd(t, Command::RPush(k(1), vec![s("x"), s("y")])),
            Step::Script(t, 2, vec![k(1), k(1)], vec![]),
            Step::Script(t, 1, vec![k(1)], vec![b"v".to_vec()]),
            Step::Script(t, 3, vec![k(1)], vec![]),
            Step::Script(t, 3, vec![k(2)], vec![]),
            Step::Script(t, 3, vec![k(2)], vec![]),
            Step::Script(t, 4, vec![k(3)], vec![b"f".to_vec(), b"1".to_vec()]),
            Step::Script(t, 4, vec![k(3)], vec![b"g".to_vec(), b"2".to_vec()]),
            Step::Script(t, 4, vec![k(2)], vec![b"g".to_vec(), b"2".to_vec()]),
            Step::Cmd(t, Command::PExpire { key: k(3), milliseconds: 50, nx: false, xx: false, gt: false, lt: false }),
            Step::Script(t + 49, 4, vec![k(3)], vec![b"h".to_vec(), b"3".to_vec()]),
            Step::Script(t + 50, 4, vec![k(3)], vec![b"h".to_vec(), b"3".to_vec()]),
            Step::Dump(t + 60),
            Step::Script(t + 60, 2, vec![k(1), k(1)], vec![]),
            Step::Script(t + 60, 2, vec![k(1), k(1)], vec![]),
            Step::Script(t + 60, 2, vec![k(1), k(1)], vec![]),
            Step::Dump(t + 61),
        ],
    ));
    all
}

/// THE pattern behind every stale-clock / missing-sweep defect, for EVERY single-key command of every
/// value type: a value of the command's type gets a deadline; the clock passes it; meanwhile only
/// keys whose home is ANOTHER shard see traffic (on one shard that traffic sweeps the store, on N
/// shards the key's own shard hears nothing); then the command itself is the first message the key's
/// shard gets — just before, exactly at, and after the deadline; then the keyspace is read back.
pub fn after_deadline(ctx: &Ctx, n: usize) -> Vec<(String, Vec<Step>)> {
    let t = BASE_MS;
    let k0 = KEYS[0].to_string();
    let others: Vec<String> = KEYS.iter().skip(1).filter(|k| ctx.gen(k.as_bytes(), n) != ctx.gen(k0.as_bytes(), n)).map(|k| k.to_string()).collect();
    let pex = |ms: i64| Command::PExpire { key: KEYS[0].to_string(), milliseconds: ms, nx: false, xx: false, gt: false, lt: false };
    let mk_str = vec![Command::set(k0.clone(), s("10"))];
    let mk_list = vec![Command::RPush(k0.clone(), vec![s("3"), s("1"), s("2")])];
    let mk_set = vec![Command::SAdd(k0.clone(), vec![s("m"), s("n")])];
    let mk_hash = vec![Command::HSet(k0.clone(), vec![(s("f"), s("5")), (s("g"), s("x"))])];
    let mk_zset = vec![Command::ZAdd { key: k0.clone(), pairs: vec![(1.0, s("a")), (2.0, s("b"))], nx: false, xx: false, gt: false, lt: false, ch: false }];
    let k = || k0.clone();
    let fl = |c: Command| c;
    let cmds: Vec<(&Vec<Command>, Command)> = vec![
        (&mk_str, Command::Get(k())),
        (&mk_str, Command::StrLen(k())),
        (&mk_str, Command::GetRange(k(), 0, -1)),
        (&mk_str, Command::Append(k(), s("7"))),
        (&mk_str, Command::Incr(k())),
        (&mk_str, Command::IncrBy(k(), 5)),
        (&mk_str, Command::SetNx(k(), s("new"))),
        (&mk_str, Command::SetRange(k(), 1, s("z"))),
        (&mk_str, Command::GetDel(k())),
        (&mk_str, Command::GetEx { key: k(), ex: None, px: None, exat: None, pxat: None, persist: true }),
        (&mk_str, { let mut c = Command::set(k(), s("w")); if let Command::Set { xx, .. } = &mut c { *xx = true; } c }),
        (&mk_str, { let mut c = Command::set(k(), s("w")); if let Command::Set { nx, .. } = &mut c { *nx = true; } c }),
        (&mk_str, { let mut c = Command::set(k(), s("w")); if let Command::Set { keepttl, .. } = &mut c { *keepttl = true; } c }),
        (&mk_str, Command::TypeOf(k())),
        (&mk_str, Command::Ttl(k())),
        (&mk_str, Command::Pttl(k())),
        (&mk_str, Command::ExpireTime(k())),
        (&mk_str, Command::PExpireTime(k())),
        (&mk_str, Command::Persist(k())),
        (&mk_str, Command::Expire { key: k(), seconds: 5, nx: false, xx: false, gt: false, lt: false }),
        (&mk_str, Command::Exists(vec![k()])),
        (&mk_str, Command::Del(vec![k()])),
        (&mk_str, Command::MGet(vec![k()])),
        (&mk_str, Command::MSetNx(vec![(k(), s("q"))])),
        (&mk_str, Command::Rename(k(), k())),
        (&mk_list, Command::LLen(k())),
        (&mk_list, Command::LRange(k(), 0, -1)),
        (&mk_list, Command::LIndex(k(), 0)),
        (&mk_list, Command::LPush(k(), vec![s("h")])),
        (&mk_list, Command::RPush(k(), vec![s("t")])),
        (&mk_list, Command::LPop(k())),
        (&mk_list, Command::RPop(k())),
        (&mk_list, Command::LSet(k(), 0, s("u"))),
        (&mk_list, Command::LTrim(k(), 0, 0)),
        (&mk_list, Command::RPopLPush(k(), k())),
        (&mk_list, Command::Sort { key: k(), store: None }),
        (&mk_set, Command::SCard(k())),
        (&mk_set, Command::SMembers(k())),
        (&mk_set, Command::SIsMember(k(), s("m"))),
        (&mk_set, Command::SAdd(k(), vec![s("o")])),
        (&mk_set, Command::SRem(k(), vec![s("m")])),
        (&mk_hash, Command::HGet(k(), s("f"))),
        (&mk_hash, Command::HLen(k())),
        (&mk_hash, Command::HGetAll(k())),
        (&mk_hash, Command::HKeys(k())),
        (&mk_hash, Command::HVals(k())),
        (&mk_hash, Command::HExists(k(), s("f"))),
        (&mk_hash, Command::HSet(k(), vec![(s("h"), s("1"))])),
        (&mk_hash, Command::HDel(k(), vec![s("f")])),
        (&mk_hash, Command::HIncrBy(k(), s("f"), 2)),
        (&mk_zset, Command::ZCard(k())),
        (&mk_zset, Command::ZScore(k(), s("a"))),
        (&mk_zset, Command::ZRank(k(), s("b"))),
        (&mk_zset, Command::ZRange(k(), 0, -1, true)),
        (&mk_zset, Command::ZRevRange(k(), 0, -1, false)),
        (&mk_zset, Command::ZCount(k(), "-inf".into(), "+inf".into())),
        (&mk_zset, Command::ZRangeByScore { key: k(), min: "0".into(), max: "5".into(), with_scores: false, limit: None }),
        (&mk_zset, Command::ZAdd { key: k(), pairs: vec![(3.0, s("c"))], nx: false, xx: false, gt: false, lt: false, ch: false }),
        (&mk_zset, Command::ZRem(k(), vec![s("a")])),
    ];
    let mut all = Vec::new();
    for (mk, c) in cmds {
        let c = fl(c);
        if enc_cmd(&c, &RespValue::BulkString(None)).is_none() || !admissible(&c) {
            continue;
        }
        for (state, dt) in [("before", 99u64), ("at", 100), ("after", 101), ("far", 60_000)] {
            let mut v: Vec<Step> = mk.iter().map(|m| Step::Cmd(t, m.clone())).collect();
            v.push(Step::Cmd(t, pex(100)));
            // traffic for the other shards only, while the deadline passes
            for (i, o) in others.iter().enumerate().take(2) {
                v.push(Step::Cmd(t + dt.min(100 + i as u64), Command::set(o.clone(), s("o"))));
            }
            v.push(Step::Cmd(t + dt, c.clone()));
            v.push(Step::Dump(t + dt));
            v.push(Step::Cmd(t + dt, Command::DbSize));
            all.push((format!("after-deadline:{}:{}", c.name(), state), v));
        }
    }
    all
}

pub async fn run_steps(out: &mut Out, pend: &mut Vec<Pending>, ctx: &Ctx, n: usize, label: &str, steps: &[Step]) {
    let universe: Vec<String> = KEYS.iter().map(|k| k.to_string()).collect();
    let start = out.n_ops();
    let a1 = run_on(1, steps, &universe).await;
    let an = run_on(n, steps, &universe).await;
    for (shards, ans) in [(1usize, &a1), (n, &an)] {
        let mut l = format!("M7NEW {} {}", shards, universe.len());
        for k in &universe {
            l.push_str(&format!(" {} {}", hex(k.as_bytes()), ctx.gen(k.as_bytes(), shards)));
        }
        out.op(l, "ok".into());
        for (st, r) in steps.iter().zip(ans.iter()) {
            match st {
                Step::Cmd(_, c) => out.count(&format!("op:M7:{}", c.name())),
                Step::Script(_, id, _, _) => out.count(&format!("op:M7:SCRIPT{}", id)),
                Step::Evict(_) => out.count("op:M7:EVICT"),
                Step::Dump(_) => out.count("op:M7:DUMP"),
            }
            match step_line(st, &RespValue::BulkString(None)) {
                Some(line) => out.op(line, r.clone()),
                None => out.violation("C03:m7:harness:unencodable-op", "an op of the M7 class has no line encoding", json!({"op": format!("{:?}", match st { Step::Cmd(_, c) => Some(c), _ => None })})),
            }
        }
    }
    out.count("class:m7");
    out.count(&format!("m7:shards:{}", n));
    if !label.is_empty() {
        out.count(&format!("m7:{}", label));
    }
    let lines: Vec<String> = steps.iter().map(|s| step_line(s, &RespValue::BulkString(None)).unwrap_or_default()).collect();
    if let Some(i) = (0..steps.len()).find(|&i| a1[i] != an[i]) {
        let at = match &steps[i] {
            Step::Cmd(_, c) => c.name().to_string(),
            Step::Script(_, id, _, _) => format!("SCRIPT{}", id),
            Step::Evict(_) => "EVICT".into(),
            Step::Dump(_) => "DUMP".into(),
        };
        pend.push(Pending::new(
            start,
            out.n_ops(),
            "m7",
            None,
            Some((
                at,
                format!("{} shards answer `{}` with {} where one shard answers {}", n, lines[i], an[i], a1[i]),
                json!({"shards": n, "ops": lines, "first_difference_at": i, "one_shard": a1, "n_shards": an}),
            )),
            n,
        ));
    } else {
        pend.push(Pending::new(start, out.n_ops(), "m7", None, None, n));
    }
    let shards_used: std::collections::BTreeSet<usize> = universe.iter().map(|k| ctx.gen(k.as_bytes(), n)).collect();
    let expiring = steps.iter().any(|s| matches!(s, Step::Cmd(_, Command::Set { px: Some(_), .. }) | Step::Cmd(_, Command::Set { ex: Some(_), .. }) | Step::Cmd(_, Command::PExpire { .. }) | Step::Cmd(_, Command::Expire { .. })));
    out.case(&format!("m7|{}|{}", n, lines.join(";")), shards_used.len() >= 2 && expiring);
    out.sample(json!({"shards": n, "class": "m7", "ops": lines.iter().take(12).collect::<Vec<_>>()}));
}
