//! C20 — simulation is reproducible: same seed, same trace, same verdict.
//!
//! The Lean model PREDICTS what the real simulation code does from (seed, configuration) alone,
//! so any dependence of the real code on a hidden input (per-process hash seeds, wall clock,
//! entropy, addresses, leftovers of an earlier run in the same process) is a model disagreement.
//!
//! Part A (kernel, in-process): `DeterministicRng`, `SimulatedRng`, `simulator::buggify`,
//!   `buggify::should_buggify(_with_prob)`, `simulator::Simulation` (event heap, network),
//!   `io::simulation::SimulationContext` (timer heap, clock), `ClockOffset::apply` — scripted op by
//!   op against `lean/RedisVerif/Model/{SimRng,SimKernel}.lean`.
//! Part B (whole harnesses, in FRESH CHILD PROCESSES): this binary re-executes itself
//!   (`--c20-child <harness> <preset> <seed> <ops>`), K >= 3 children per (harness, preset, seed),
//!   each with its own hash seeds / allocator / ASLR; the child prints the canonical trace of the
//!   REAL harness.  For the modelled families the op line `RUN …` carries the first child's trace
//!   digest as the implementation's answer and `lean/RedisVerif/Model/SimHarness.lean` predicts it.
//!   For the other families the runs are EXPLORED only (no model): see `explored` in the stats.
//! Oracle (independent of the model): all K children print the same trace
//!   (`C20:trace-differs-across-processes:<harness>`), two runs inside one process print the same
//!   trace (`C20:trace-differs-in-process:<harness>`), a run after unrelated simulation activity
//!   on the same thread prints the same trace (`C20:trace-depends-on-earlier-run:<harness>`), plus
//!   range / permutation / delivery-order sanity of the kernel.
use crate::out::Out;
use crate::rng::Rng;
use crate::Args;
use redis_sim::buggify::{self, faults, FaultConfig};
use redis_sim::io::simulation::{ClockOffset, NodeId, SimulatedRng, SimulatedRuntime, SimulatedTimeSource, SimulationContext};
use redis_sim::io::{Runtime as _, TimeSource as _};
use redis_sim::io::{Rng as IoRng, Timestamp};
use redis_sim::simulator::{
    DeterministicRng, Duration, EventType, HostId, Simulation, SimulationConfig, VirtualTime,
};
use serde_json::json;
use std::collections::BTreeMap;
use std::panic::{catch_unwind, AssertUnwindSafe};
use std::sync::atomic::{AtomicU64, Ordering};
use std::sync::{Arc, Mutex};
use std::task::{Wake, Waker};

// ------------------------------------------------------------------------------------------
// trace digest (same as SimHarness.traceDigest)
// ------------------------------------------------------------------------------------------

fn fnv_str(mut h: u64, s: &str) -> u64 {
    for b in s.bytes() {
        h ^= b as u64;
        h = h.wrapping_mul(0x100000001b3);
    }
    h
}

pub fn trace_digest(lines: &[String]) -> String {
    let mut h: u64 = 0xcbf29ce484222325;
    let mut hs: Vec<String> = Vec::new();
    for (i, l) in lines.iter().enumerate() {
        h = fnv_str(fnv_str(h, l), "\n");
        if (i + 1) % 64 == 0 {
            hs.push(format!("{:016x}", h));
        }
    }
    format!("lines={} h={} final={:016x}", lines.len(), hs.join(","), h)
}

/// index of the first differing line of two traces
fn first_diff(a: &[String], b: &[String]) -> usize {
    let mut i = 0;
    while i < a.len() && i < b.len() && a[i] == b[i] {
        i += 1;
    }
    i
}

// ------------------------------------------------------------------------------------------
// Part A — kernel scripts
// ------------------------------------------------------------------------------------------

enum AnyRng {
    Det(DeterministicRng),
    Sim(SimulatedRng),
}

struct WakeRec {
    id: AtomicU64,
    log: Arc<Mutex<Vec<u64>>>,
}

impl Wake for WakeRec {
    fn wake(self: Arc<Self>) {
        self.log.lock().unwrap().push(self.id.load(Ordering::SeqCst));
    }
}

/// the real objects one kernel script talks to
struct Kernel {
    rng: AnyRng,
    sim: Simulation,
    ctx: Arc<SimulationContext>,
    wake_log: Arc<Mutex<Vec<u64>>>,
    /// harness-side shadow of the timers: id -> wake time (oracle only)
    timers: BTreeMap<u64, u64>,
    /// the BUGGIFY layer (ops `F…`, harness/src/c20_bug.rs)
    bug: crate::c20_bug::BugState,
}

fn csv(v: &[u64]) -> String {
    v.iter().map(|x| x.to_string()).collect::<Vec<_>>().join(",")
}

fn tf(b: bool) -> String {
    if b { "t".into() } else { "f".into() }
}

const FAULT_ID: &str = faults::network::PACKET_DROP;

impl Kernel {
    fn new() -> Self {
        Kernel {
            rng: AnyRng::Sim(SimulatedRng::new(0)),
            sim: Simulation::new(SimulationConfig::default()),
            ctx: Arc::new(SimulationContext::new(0, FaultConfig::disabled())),
            wake_log: Arc::new(Mutex::new(Vec::new())),
            timers: BTreeMap::new(),
            bug: crate::c20_bug::BugState::new(),
        }
    }

    /// execute one op line on the REAL code; returns the canonical answer and oracle complaints
    fn exec(&mut self, line: &str, complaints: &mut Vec<(String, String)>) -> String {
        let t: Vec<&str> = line.split(' ').collect();
        let n = |i: usize| -> u64 { t[i].parse::<u64>().unwrap() };
        match t[0] {
            "RNG" => {
                self.rng = if t[1] == "det" { AnyRng::Det(DeterministicRng::new(n(2))) } else { AnyRng::Sim(SimulatedRng::new(n(2))) };
                "ok".into()
            }
            "U64" => match &mut self.rng {
                AnyRng::Det(r) => r.next_u64().to_string(),
                AnyRng::Sim(r) => r.next_u64().to_string(),
            },
            "RANGE" => {
                let (lo, hi) = (n(1), n(2));
                let v = match &mut self.rng {
                    AnyRng::Det(r) => r.gen_range(lo, hi),
                    AnyRng::Sim(r) => r.gen_range(lo, hi),
                };
                if (lo < hi && !(lo <= v && v < hi)) || (lo >= hi && v != lo) {
                    complaints.push(("C20:rng:range-out-of-bounds".into(), format!("{} -> {}", line, v)));
                }
                v.to_string()
            }
            "BOOL" => {
                let p = f64::from_bits(n(1));
                match &mut self.rng {
                    AnyRng::Det(r) => tf(r.gen_bool(p)),
                    AnyRng::Sim(r) => match catch_unwind(AssertUnwindSafe(|| r.gen_bool(p))) {
                        Ok(b) => tf(b),
                        Err(_) => "crash".into(),
                    },
                }
            }
            "SHUF" => {
                let mut v: Vec<u64> = (0..n(1)).collect();
                match &mut self.rng {
                    AnyRng::Det(r) => r.shuffle(&mut v),
                    AnyRng::Sim(r) => r.shuffle(&mut v),
                }
                let mut s = v.clone();
                s.sort();
                if s != (0..n(1)).collect::<Vec<u64>>() {
                    complaints.push(("C20:rng:shuffle-not-a-permutation".into(), line.to_string()));
                }
                format!("p {}", csv(&v))
            }
            "BUG" => match &mut self.rng {
                AnyRng::Det(r) => tf(redis_sim::simulator::buggify(r)),
                AnyRng::Sim(_) => "bad-op".into(),
            },
            "SB" | "SBP" => {
                let AnyRng::Sim(r) = &mut self.rng else { return "bad-op".into() };
                let before = buggify::get_stats();
                let supp = n(1) == 1;
                let _guard = if supp { Some(buggify::BuggifySuppressor::new()) } else { None };
                let res = if t[0] == "SB" {
                    buggify::should_buggify(r, FAULT_ID)
                } else {
                    buggify::should_buggify_with_prob(r, FAULT_ID, f64::from_bits(n(3)))
                };
                let after = buggify::get_stats();
                if crate::c20_bug::count_of(&after.checks, FAULT_ID) != crate::c20_bug::count_of(&before.checks, FAULT_ID) + 1
                    || crate::c20_bug::count_of(&after.triggers, FAULT_ID) != crate::c20_bug::count_of(&before.triggers, FAULT_ID) + res as u64 {
                    complaints.push(("C20:buggify:stats-inconsistent".into(), line.to_string()));
                }
                tf(res)
            }
            "SIM" => {
                self.sim = Simulation::new(SimulationConfig { seed: n(1), max_time: VirtualTime::from_millis(u64::MAX), simulation_start_epoch: 0 });
                "ok".into()
            }
            "HOST" => self.sim.add_host(format!("h{}", t.len())).0.to_string(),
            "TIMER" => self.sim.schedule_timer(HostId(n(1) as usize), Duration::from_millis(n(2))).0.to_string(),
            "DROP" => {
                self.sim.set_network_drop_rate(f64::from_bits(n(1)));
                "ok".into()
            }
            "PART" => {
                self.sim.partition_hosts(HostId(n(1) as usize), HostId(n(2) as usize));
                "ok".into()
            }
            "HEAL" => {
                self.sim.heal_partition(HostId(n(1) as usize), HostId(n(2) as usize));
                "ok".into()
            }
            "SEND" => {
                self.sim.send_message(HostId(n(1) as usize), HostId(n(2) as usize), vec![7u8; n(3) as usize]);
                "ok".into()
            }
            "RUNTO" => {
                let mut evs: Vec<String> = Vec::new();
                let mut times: Vec<u64> = Vec::new();
                self.sim.run_until(VirtualTime::from_millis(n(1)), |_s, e| {
                    let k = match &e.event_type {
                        EventType::HostStart => "start".to_string(),
                        EventType::Timer(id) => format!("timer{}", id.0),
                        EventType::NetworkMessage(m) => format!("msg{}>{}#{}", m.from.0, m.to.0, m.payload.len()),
                    };
                    times.push(e.time.as_millis());
                    evs.push(format!("{}:{}:{}", e.time.as_millis(), e.host_id.0, k));
                });
                if times.windows(2).any(|w| w[0] > w[1]) || times.iter().any(|x| *x > n(1)) {
                    complaints.push(("C20:sim:delivery-not-in-time-order".into(), format!("{} -> {}", line, evs.join(" "))));
                }
                format!("now={} ev {}", self.sim.current_time().as_millis(), evs.join(" "))
            }
            "SIME" => {
                self.sim = Simulation::new(SimulationConfig { seed: n(1), max_time: VirtualTime::from_millis(u64::MAX), simulation_start_epoch: t[2].parse::<i64>().unwrap() });
                "ok".into()
            }
            "EPOCH" => self.sim.simulation_start_epoch().to_string(),
            "SRNG" => self.sim.rng().next_u64().to_string(),
            "RUNALL" => {
                // `run(handler)` = `run_until(config.max_time, handler)`
                let mut evs: Vec<String> = Vec::new();
                self.sim.run(|_s, e| evs.push(format!("{}:{}", e.time.as_millis(), e.host_id.0)));
                format!("now={} n={} {}", self.sim.current_time().as_millis(), evs.len(), evs.join(" "))
            }
            "CTXS" => {
                self.ctx = Arc::new(SimulationContext::new(n(1), FaultConfig::disabled()));
                self.timers.clear();
                self.wake_log.lock().unwrap().clear();
                "ok".into()
            }
            "OFFSET" => {
                let i = |k: usize| -> i64 { t[k].parse::<i64>().unwrap() };
                self.ctx.set_clock_offset(NodeId(n(1) as usize), ClockOffset { fixed_offset_ms: i(2), drift_ppm: i(3), drift_anchor: Timestamp::from_millis(i(4) as u64) });
                "ok".into()
            }
            "LOCAL" => {
                let node = NodeId(n(1) as usize);
                let a = self.ctx.local_time(node).as_millis();
                let ts = SimulatedTimeSource::new(self.ctx.clone(), node);
                let b = ts.now_millis();
                let c = if node.0 == 0 { SimulatedTimeSource::new_default(ts.context().clone()).now_millis() } else { b };
                if a != b || b != c {
                    complaints.push(("C20:clock:time-source-disagrees-with-context".into(), format!("{} -> local_time {} vs SimulatedTimeSource {} / {}", line, a, b, c)));
                }
                a.to_string()
            }
            "NID" => self.ctx.next_id().to_string(),
            "CRANGE" => {
                // the context's own generator, through SimulatedRuntime::rng()
                let rt = SimulatedRuntime::new(self.ctx.clone(), NodeId(0));
                let v = rt.rng().gen_range(n(1), n(2));
                rt.spawn(async {});
                v.to_string()
            }
            "DBG" => {
                let rt = SimulatedRuntime::new(self.ctx.clone(), NodeId(n(1) as usize));
                let ts = SimulatedTimeSource::new(self.ctx.clone(), NodeId(n(1) as usize));
                format!("{:?} | {:?} | {:?}", self.ctx, rt, ts)
            }
            "CTX" => {
                self.ctx = Arc::new(SimulationContext::new(0, FaultConfig::disabled()));
                self.timers.clear();
                self.wake_log.lock().unwrap().clear();
                "ok".into()
            }
            "TADD" => {
                let rec = Arc::new(WakeRec { id: AtomicU64::new(u64::MAX), log: self.wake_log.clone() });
                let id = self.ctx.add_timer(Timestamp::from_millis(n(1)), Waker::from(rec.clone()));
                rec.id.store(id, Ordering::SeqCst);
                self.timers.insert(id, n(1));
                id.to_string()
            }
            "TADV" => {
                self.ctx.advance_to(Timestamp::from_millis(n(1)));
                self.ctx.now().as_millis().to_string()
            }
            "TBY" => {
                self.ctx.advance_by(redis_sim::io::Duration::from_millis(n(1)));
                self.ctx.now().as_millis().to_string()
            }
            "TPROC" => {
                self.wake_log.lock().unwrap().clear();
                self.ctx.process_timers();
                let woken = self.wake_log.lock().unwrap().clone();
                let now = self.ctx.now().as_millis();
                // oracle: exactly the due timers, in (wake, id) order
                let mut due: Vec<(u64, u64)> = self.timers.iter().filter(|(_, w)| **w <= now).map(|(i, w)| (*w, *i)).collect();
                due.sort();
                let want: Vec<u64> = due.iter().map(|x| x.1).collect();
                if want != woken {
                    complaints.push(("C20:timers:wake-order-not-by-key".into(), format!("woken {:?}, due in key order {:?}", woken, want)));
                }
                for i in &woken {
                    self.timers.remove(i);
                }
                format!("w {}", csv(&woken))
            }
            "TNEXT" => match self.ctx.next_timer_time() {
                Some(t) => t.as_millis().to_string(),
                None => "-".into(),
            },
            "CLK" => {
                let i = |k: usize| -> i64 { t[k].parse::<i64>().unwrap() };
                let off = ClockOffset { fixed_offset_ms: i(1), drift_ppm: i(2), drift_anchor: Timestamp::from_millis(i(3) as u64) };
                off.apply(Timestamp::from_millis(i(4) as u64)).as_millis().to_string()
            }
            _ => {
                let rng = match &mut self.rng { AnyRng::Sim(r) => Some(r), AnyRng::Det(_) => None };
                self.bug.exec(&t, rng, complaints).unwrap_or_else(|| "bad-op".into())
            }
        }
    }
}

/// probabilities that occur as literals in /repo's simulation code, plus boundary patterns
fn prob_bits(r: &mut Rng) -> u64 {
    const LIT: [f64; 22] = [0.0, 0.0001, 0.0005, 0.001, 0.002, 0.005, 0.01, 0.015, 0.02, 0.05, 0.1, 0.15, 0.2, 0.25, 0.3, 0.45, 0.5, 0.6, 0.7, 0.9, 0.999999, 1.0];
    match r.below(10) {
        0..=5 => r.pick(&LIT).to_bits(),
        6 => f64::from_bits(r.next() >> 2).to_bits() & !(1 << 63),           // random positive (mostly tiny/huge)
        7 => (r.below(1 << 20) as f64 / (1u64 << 20) as f64).to_bits(),       // dyadic in [0,1)
        8 => *r.pick(&[f64::NAN.to_bits(), f64::INFINITY.to_bits(), f64::NEG_INFINITY.to_bits(), (-0.0f64).to_bits(), (-0.25f64).to_bits(), 1.5f64.to_bits(), 5e-324f64.to_bits(), f64::MIN_POSITIVE.to_bits(), (1.0 - f64::EPSILON / 2.0).to_bits()]),
        _ => (r.below(1_000_001) as f64 / 1_000_000.0).to_bits(),             // k / 10^6 exactly as buggify computes it
    }
}

fn range_bounds(r: &mut Rng) -> (u64, u64) {
    match r.below(12) {
        0 => (r.below(10), r.below(10)),
        1 => { let k = r.below(64); (0, 1u64 << k) }
        2 => { let k = 1 + r.below(63); (0, (1u64 << k) + 1) }
        3 => { let k = 1 + r.below(63); (0, (1u64 << k) - 1) }
        4 => (0, 1_000_000),
        5 => (0, u64::MAX),
        6 => { let lo = r.next(); (lo, lo.saturating_add(1 + r.below(1000))) }
        7 => ((1u64 << 63) - r.below(5), u64::MAX - r.below(5)),              // range just above 2^63: rejection ~1/2
        8 => (r.next() >> 1, u64::MAX),
        9 => { let a = r.next(); let b = r.next(); (a.min(b), a.max(b)) }
        10 => (1, 10),
        _ => (r.below(100), 100 + r.below(5000)),
    }
}

fn seed_value(r: &mut Rng) -> u64 {
    match r.below(6) {
        0 => r.below(8),
        1 => *r.pick(&[42u64, 12345, 777, 99, u64::MAX, u64::MAX - 1, 1 << 32, 1 << 63]),
        _ => r.next(),
    }
}

/// one generated kernel script (a list of op lines)
fn gen_script(r: &mut Rng, flavour: u64) -> Vec<String> {
    let mut s: Vec<String> = Vec::new();
    match flavour {
        // RNG wrappers
        0 | 1 | 2 => {
            let det = flavour == 0 || (flavour == 2 && r.chance(1, 3));
            s.push(format!("RNG {} {}", if det { "det" } else { "sim" }, seed_value(r)));
            // 33 u64 draws cross the 64-word buffer; shuffles (sim: 32-bit draws) make the index odd
            let len = 8 + r.below(50);
            for _ in 0..len {
                match r.below(if det { 9 } else { 12 }) {
                    0 | 1 => s.push("U64".into()),
                    2 | 3 => { let (lo, hi) = range_bounds(r); s.push(format!("RANGE {} {}", lo, hi)); }
                    4 | 5 => s.push(format!("BOOL {}", prob_bits(r))),
                    6 => s.push(format!("SHUF {}", r.below(12))),
                    7 => { for _ in 0..r.below(40) { s.push("U64".into()); } }
                    8 => s.push(if det { "BUG".into() } else { format!("SHUF {}", 2 + r.below(3)) }),
                    9 => s.push(format!("SB {} PROB", r.chance(1, 6) as u8)),
                    10 => s.push(format!("SBP {} EN {}", r.chance(1, 8) as u8, prob_bits(r))),
                    _ => s.push(format!("SHUF {}", 30 + r.below(80))),
                }
            }
        }
        // Simulation: heap ties, re-push at the horizon, network draws
        3 | 4 => {
            if flavour == 3 { s.push(format!("SIM {}", seed_value(r))) } else { s.push(format!("SIME {} {}", seed_value(r), r.below(3_000_000_000) as i64 - 1_000_000_000)); s.push("EPOCH".into()); }
            let hosts = 2 + r.below(4);
            for _ in 0..hosts { s.push("HOST".into()); }
            let tie_delays = [0u64, 5, 5, 5, 10, 10, 20];
            let rounds = 1 + r.below(3);
            let mut horizon = 0u64;
            for _ in 0..rounds {
                for _ in 0..(3 + r.below(25)) {
                    match r.below(10) {
                        0..=4 => s.push(format!("TIMER {} {}", r.below(hosts), if r.chance(2, 3) { *r.pick(&tie_delays) } else { r.below(40) })),
                        5 | 6 | 7 => s.push(format!("SEND {} {} {}", r.below(hosts), r.below(hosts), r.below(5))),
                        8 => s.push(format!("DROP {}", prob_bits(r))),
                        _ => { let (a, b) = (r.below(hosts), r.below(hosts)); s.push(format!("{} {} {}", if r.chance(2, 3) { "PART" } else { "HEAL" }, a, b)); }
                    }
                }
                horizon += r.below(25);
                s.push(format!("RUNTO {}", horizon));
            }
            if r.chance(1, 2) { s.push(format!("RUNTO {}", u64::MAX)) } else { s.push("SRNG".into()); s.push("RUNALL".into()) }
        }
        // SimulationContext timers
        5 => {
            if r.chance(1, 2) { s.push("CTX".into()) } else { s.push(format!("CTXS {}", seed_value(r))) }
            let mut now = 0u64;
            for _ in 0..(10 + r.below(40)) {
                match r.below(14) {
                    10 => s.push(format!("OFFSET {} {} {} {}", r.below(3), r.below(2001) as i64 - 1000, r.below(10_001) as i64 - 5000, r.below(50))),
                    11 => s.push(format!("LOCAL {}", r.below(4))),
                    12 => s.push(if r.chance(1, 2) { "NID".to_string() } else { format!("DBG {}", r.below(3)) }),
                    13 => { let (lo, hi) = range_bounds(r); s.push(format!("CRANGE {} {}", lo, hi)); }
                    0..=5 => s.push(format!("TADD {}", if r.chance(2, 3) { now + *r.pick(&[0u64, 3, 3, 3, 7, 7, 10]) } else { r.below(60) })),
                    6 => { now += r.below(8); s.push(format!("TADV {}", now)); }
                    7 => { let d = r.below(6); now += d; s.push(format!("TBY {}", d)); }
                    8 => s.push("TPROC".into()),
                    _ => s.push("TNEXT".into()),
                }
            }
            s.push(format!("TADV {}", now + 100));
            s.push("TPROC".into());
            s.push("TNEXT".into());
            if r.chance(1, 10) {
                s.push(format!("TBY {}", u64::MAX - 3));
                s.push("TBY 10".into());
            }
        }
        // the BUGGIFY layer: FaultConfig, the thread-local context, decisions, macros
        7 => {
            let seed = seed_value(r);
            s = crate::c20_bug::gen_script(r, seed);
        }
        // ClockOffset::apply
        _ => {
            for _ in 0..(3 + r.below(6)) {
                let fixed = r.below(2_000_001) as i64 - 1_000_000;
                let ppm = r.below(20_001) as i64 - 10_000;
                let anchor = r.below(1_000_000);
                let global = r.below(10_000_000_000);
                s.push(format!("CLK {} {} {} {}", fixed, ppm, anchor, global));
            }
        }
    }
    s
}

/// run a script on fresh real objects; `SB`/`SBP` placeholders are resolved against the real
/// `FaultConfig` (probability = real `config.get`), so the op line carries what the real code used
fn run_script(script: &[String], r: &mut Rng, complaints: &mut Vec<(String, String)>) -> (Vec<String>, Vec<String>) {
    let mut k = Kernel::new();
    let mut ops = Vec::new();
    let mut ans = Vec::new();
    for l in script {
        let mut line = l.clone();
        if line.starts_with("SB ") {
            // a real configuration: a preset, or one fault with a literal probability and multiplier
            let cfg = match r.below(6) {
                0 => FaultConfig::calm(),
                1 => FaultConfig::moderate(),
                2 => FaultConfig::chaos(),
                3 => FaultConfig::disabled(),
                _ => {
                    let mut c = FaultConfig::new();
                    c.global_multiplier = *r.pick(&[0.1, 1.0, 3.0, 0.5, 2.0]);
                    c.set(FAULT_ID, f64::from_bits(prob_bits(r)));
                    c
                }
            };
            let p = cfg.get(FAULT_ID);
            buggify::set_config(cfg);
            line = line.replace("PROB", &p.to_bits().to_string());
        } else if line.starts_with("SBP ") {
            let en = !r.chance(1, 8);
            let mut c = FaultConfig::new();
            c.enabled = en;
            buggify::set_config(c);
            line = line.replace("EN", &(en as u8).to_string());
        }
        let a = k.exec(&line, complaints);
        ops.push(line);
        ans.push(a);
    }
    (ops, ans)
}

fn part_a(a: &Args, out: &mut Out, budget_ops: usize) {
    let mut r = Rng::new(a.seed);
    // fixed corpus first: the seeds the repo's own tests use, long plain streams
    let mut corpus: Vec<Vec<String>> = Vec::new();
    for kind in ["det", "sim"] {
        for seed in [0u64, 1, 2, 42, 12345, u64::MAX] {
            let mut s = vec![format!("RNG {} {}", kind, seed)];
            for _ in 0..70 { s.push("U64".into()); }
            s.push("RANGE 0 1000000".into());
            s.push(format!("BOOL {}", 0.01f64.to_bits()));
            s.push("SHUF 7".into());
            s.push("U64".into());
            corpus.push(s);
        }
    }
    let mut n_scripts = 0u64;
    let mut flavour_cycle = 0u64;
    while out.n_ops() < budget_ops {
        let script = if (n_scripts as usize) < corpus.len() { corpus[n_scripts as usize].clone() } else {
            flavour_cycle += 1;
            gen_script(&mut r, flavour_cycle % 8)
        };
        n_scripts += 1;
        let mut complaints = Vec::new();
        let mut r1 = r.clone();
        let (ops, ans) = run_script(&script, &mut r1, &mut complaints);
        // same process, fresh objects, again: must answer identically
        let mut r2 = r.clone();
        let mut c2 = Vec::new();
        let (ops2, ans2) = run_script(&script, &mut r2, &mut c2);
        r = r1;
        if ops != ops2 || ans != ans2 {
            let i = first_diff(&ans, &ans2);
            out.violation("C20:kernel:rerun-in-process-differs", "the same kernel script on fresh objects in the same process answers differently",
                json!({"script": ops, "first_diff_op": ops.get(i), "first": ans.get(i), "second": ans2.get(i)}));
        }
        for (sig, what) in complaints {
            out.violation(&sig, &what, json!({"script": ops, "seed": a.seed}));
        }
        let kind = ops[0].split(' ').take(2).collect::<Vec<_>>().join("-");
        out.count(&format!("script:{}", if ops[0].starts_with("RNG") { kind } else { ops[0].split(' ').next().unwrap().to_string() }));
        let nontrivial = ans.iter().filter(|x| *x != "ok").count() >= 3;
        out.case(&ops.join(";"), nontrivial);
        if n_scripts % 9 == 3 {
            out.sample(json!({"script": ops, "impl": ans}));
        }
        for (o, i) in ops.into_iter().zip(ans.into_iter()) {
            let tag = o.split(' ').next().unwrap().to_string();
            out.count(&format!("op:{}", tag));
            if i == "crash" { out.count("outcome:crash"); }
            out.op(o, i);
        }
    }
    out.extra.insert("kernel_scripts".into(), json!(n_scripts));
    let (new_ids, gone) = crate::c20_bug::catalogue_drift();
    out.extra.insert("fault_catalogue".into(), json!({"ids_in_repo_not_in_model(consulted by nobody the model knows; regenerate with tools/gen_c20_faults.py)": new_ids, "ids_in_model_not_in_repo": gone}));
}

// ------------------------------------------------------------------------------------------
// Part B — whole harnesses in child processes
// ------------------------------------------------------------------------------------------

mod real {
    //! canonical traces of the REAL harnesses (runs inside the child process, or in-process for
    //! the rerun oracle)
    use redis_sim::replication::crdt_dst::{
        CRDTDSTConfig, CRDTDSTResult, GCounterDSTHarness, ORSetDSTHarness, PNCounterDSTHarness,
        VectorClockDSTHarness,
    };

    pub fn crdt_config(preset: &str, seed: u64) -> Option<CRDTDSTConfig> {
        match preset {
            // a replica count no preset uses (1 … 8), a function of the seed
            "default" => Some(CRDTDSTConfig::new(seed, 1 + (seed % 8) as usize)),
            "calm" => Some(CRDTDSTConfig::calm(seed)),
            "moderate" => Some(CRDTDSTConfig::moderate(seed)),
            "chaos" => Some(CRDTDSTConfig::chaos(seed)),
            // corpus: no message ever arrives (drop probability 1.0, three replicas): the replicas do not
            // converge and the harness reports it — the violation texts become observable
            "corpus-drop1" => {
                let mut c = CRDTDSTConfig::new(seed, 3);
                c.message_drop_prob = 1.0;
                Some(c)
            }
            // GENERATED: replica counts 1 … 8 and the legal extremes of the drop probability (0: every
            // sync merges; 1: no message ever arrives, the replicas never converge and the harness
            // REPORTS it — the violation texts become reachable)
            "gen" => {
                let mut r = Rng::new(seed ^ 0xC4D);
                let mut c = CRDTDSTConfig::new(seed, 1 + r.below(8) as usize);
                c.message_drop_prob = *r.pick(&[0.0, 0.3, 0.9, 1.0, 1.0]);
                Some(c)
            }
            _ => None,
        }
    }

    /// `{"elem_3", "elem_12"}` (HashSet Debug, iteration order) -> `[3,12]` sorted
    fn canon_set(s: &str) -> String {
        let mut v: Vec<u64> = s.split("elem_").skip(1).map(|p| p.chars().take_while(|c| c.is_ascii_digit()).collect::<String>().parse().unwrap()).collect();
        v.sort();
        format!("[{}]", v.iter().map(|x| x.to_string()).collect::<Vec<_>>().join(","))
    }

    /// ORSet violation text with the two sets canonicalised
    pub fn canon_violation(s: &str) -> String {
        if let Some((head, rest)) = s.split_once(" has different elements: ") {
            if let Some((a, b)) = rest.split_once(" vs expected ") {
                return format!("{} has different elements: {} vs expected {}", head, canon_set(a), canon_set(b));
            }
        }
        s.to_string()
    }

    fn per(r: &CRDTDSTResult) -> String {
        let mut v: Vec<(usize, u64)> = r.ops_per_replica.iter().map(|(k, v)| (*k, *v)).collect();
        v.sort();
        v.iter().map(|(k, n)| format!("{}:{}", k, n)).collect::<Vec<_>>().join(",")
    }

    macro_rules! crdt_trace {
        ($H:ident, $cfg:expr, $ops:expr, $lines:expr, $raw:expr) => {{
            let cfg: CRDTDSTConfig = $cfg;
            // probe instance: one op at a time, convergence check after each
            let mut p = $H::new(cfg.clone());
            let mut seen = 0usize;
            let mut prev: std::collections::BTreeMap<usize, u64> = Default::default();
            for k in 1..=$ops {
                p.run(1);
                p.check_convergence();
                let res = p.result();
                let mut idx = usize::MAX;
                for (i, n) in &res.ops_per_replica {
                    if prev.get(i).copied().unwrap_or(0) != *n {
                        idx = *i;
                    }
                    prev.insert(*i, *n);
                }
                let v: Vec<String> = res.invariant_violations[seen..].iter().map(|s| canon_violation(s)).collect();
                seen = res.invariant_violations.len();
                $lines.push(format!("{} r{} {}", k, idx, v.join("|")));
            }
            p.sync_all();
            if cfg.num_replicas > 0 {
                p.check_convergence();
            }
            let res = p.result();
            let v: Vec<String> = res.invariant_violations[seen..].iter().map(|s| canon_violation(s)).collect();
            $lines.push(format!("sync syncs={} drops={} {}", res.syncs_performed, res.messages_dropped, v.join("|")));
            // canonical instance: exactly what run_*_batch does
            let mut q = $H::new(cfg.clone());
            q.run($ops);
            q.sync_all();
            q.check_convergence();
            let res = q.into_result();
            let v: Vec<String> = res.invariant_violations.iter().map(|s| canon_violation(s)).collect();
            $lines.push(format!(
                "result ops={} per={} syncs={} drops={} conv={} viol={}",
                res.total_operations, per(&res), res.syncs_performed, res.messages_dropped, res.converged, v.join("|")
            ));
            // what the harness REALLY reports (not canonicalised): compared across processes only
            $raw.push(format!("summary {}", res.summary()));
            for s in &res.invariant_violations {
                $raw.push(format!("violation {}", s));
            }
        }};
    }

    /// lines = canonical trace (the model predicts it); raw = verbatim harness output that the
    /// model does not predict but that must still be identical in every process
    pub fn crdt(harness: &str, preset: &str, seed: u64, ops: usize, lines: &mut Vec<String>, raw: &mut Vec<String>) -> bool {
        let Some(cfg) = crdt_config(preset, seed) else { return false };
        match harness {
            "crdt-gcounter" => crdt_trace!(GCounterDSTHarness, cfg, ops, lines, raw),
            "crdt-pncounter" => crdt_trace!(PNCounterDSTHarness, cfg, ops, lines, raw),
            "crdt-orset" => crdt_trace!(ORSetDSTHarness, cfg, ops, lines, raw),
            "crdt-vclock" => crdt_trace!(VectorClockDSTHarness, cfg, ops, lines, raw),
            _ => return false,
        }
        true
    }

    // ------------------------------------------------------------------------------------
    // families without a model (EXPLORED only), except `dst` which is modelled with the
    // iteration order of CrashSimulator::node_states as an explicit input
    // ------------------------------------------------------------------------------------
    use redis_sim::buggify::{self, faults, FaultConfig};
    use redis_sim::redis::{
        Command, ExecutorDSTConfig, ExecutorDSTHarness, HashDSTConfig, HashDSTHarness, ListDSTConfig,
        ListDSTHarness, SetDSTConfig, SetDSTHarness, SortedSetDSTConfig, SortedSetDSTHarness,
        TransactionDSTConfig, TransactionDSTHarness, SDS,
    };
    use redis_sim::simulator::dst::{DSTConfig, DSTSimulation};
    use redis_sim::simulator::dst_integration::RedisDSTSimulation;
    use redis_sim::simulator::{
        CrashReason, HostId, NodeState, PipelineSimulator,
        ScenarioBuilder,
    };
    use redis_sim::streaming::compaction_dst::{CompactionDSTConfig, CompactionDSTHarness};
    use redis_sim::streaming::dst::{StreamingDSTConfig, StreamingDSTHarness};
    use redis_sim::streaming::wal_dst::{WalDSTConfig, WalDSTHarness};
    use crate::rng::Rng;

    fn sorted_map<'a, M>(m: &'a M) -> String
    where
        &'a M: IntoIterator<Item = (&'a String, &'a u64)>,
    {
        // whatever map type the counters live in (HashMap today): only its (key, count) pairs are used
        let mut v: Vec<(&String, &u64)> = m.into_iter().collect();
        v.sort();
        v.iter().map(|(k, n)| format!("{}={}", k, n)).collect::<Vec<_>>().join(",")
    }

    pub fn dst_config(preset: &str, seed: u64) -> Option<DSTConfig> {
        match preset {
            "calm" => Some(DSTConfig::calm(seed)),
            "default" => Some(DSTConfig::new(seed)),
            "chaos" => Some(DSTConfig::chaos(seed)),
            // more nodes, shorter recoveries: several nodes are down at once far more often
            "chaos9" => Some(DSTConfig::chaos(seed).with_nodes(9)),
            // comparison at equality (`current_time >= max_time_ms`): the time limit is COMPUTED from the
            // state — the virtual time a probe run of the same seed shows after 40 steps, minus one / exactly / plus one
            "limit-below" | "limit-at" | "limit-above" => {
                let mut probe = DSTSimulation::with_config(DSTConfig::chaos(seed));
                probe.run_operations(40);
                let t = probe.current_time().as_millis();
                let lim = match preset { "limit-below" => t.saturating_sub(1), "limit-at" => t, _ => t + 1 };
                Some(DSTConfig::chaos(seed).with_max_time(lim))
            }
            // a GENERATED configuration (beyond the presets), a function of the seed
            "gen" => {
                let mut r = Rng::new(seed ^ 0xD57);
                let mut fc = FaultConfig::new();
                fc.global_multiplier = *r.pick(&[0.1, 1.0, 3.0]);
                fc.set(faults::process::CRASH, *r.pick(&[0.0, 0.001, 0.01, 0.05, 0.2, 0.5, 1.0]));
                let min_rec = *r.pick(&[0u64, 1, 100, 3000]);
                let mut c = DSTConfig::new(seed).with_nodes(1 + r.below(12) as usize).with_faults(fc)
                    .with_max_time(*r.pick(&[500u64, 5_000, 60_000])).with_clock_skew(r.chance(1, 2));
                c.crash_config.min_recovery_time_ms = min_rec;
                c.crash_config.max_recovery_time_ms = min_rec + *r.pick(&[0u64, 1, 100, 5000]);
                c.crash_config.enable_buggify_crashes = !r.chance(1, 8);
                c.max_clock_skew_ms = *r.pick(&[0i64, 1, 500, 1000]);
                c.max_clock_drift_ppm = *r.pick(&[0i64, 1000, 5000]);
                Some(c)
            }
            _ => None,
        }
    }

    fn node_state(s: Option<&NodeState>) -> String {
        match s {
            Some(NodeState::Running) => "R".into(),
            Some(NodeState::Crashed { crash_time, .. }) => format!("C{}", crash_time.as_millis()),
            Some(NodeState::Recovering { recovery_start, expected_completion }) => format!("V{}-{}", recovery_start.as_millis(), expected_completion.as_millis()),
            None => "?".into(),
        }
    }

    /// DSTSimulation: `run_operations(1)` per line (exactly `step` + the time-limit test), node
    /// states after every step, then the result.  Afterwards — the trace is complete — the fixed
    /// iteration order of `CrashSimulator::node_states` is read out (everything recovered, every
    /// node crashed, `crashed_nodes()`): `pi`.
    pub fn dst(preset: &str, seed: u64, ops: usize, lines: &mut Vec<String>, raw: &mut Vec<String>, pi: &mut Vec<usize>) -> bool {
        let Some(cfg) = dst_config(preset, seed) else { return false };
        let n = cfg.node_count;
        let max_time = cfg.max_time_ms;
        let mut sim = DSTSimulation::with_config(cfg);
        let mut multi = 0usize;
        for k in 1..=ops {
            sim.run_operations(1);
            let st: Vec<String> = (0..n).map(|i| node_state(sim.crash_simulator().get_state(HostId(i)))).collect();
            if sim.crash_simulator().crashed_nodes().len() >= 2 {
                multi += 1;
            }
            lines.push(format!("{} now={} {}", k, sim.current_time().as_millis(), st.join(" ")));
            if sim.current_time().as_millis() >= max_time {
                break;
            }
        }
        let res = sim.finalize().clone();
        lines.push(format!(
            "result time={} ops={} crashes={} recoveries={} lin={} conv={} errors={} history={}",
            res.total_time_ms, res.total_operations, res.crashes, res.recoveries, res.linearizable, res.converged, res.errors.len(), res.operation_history.len()
        ));
        // a second instance through `run_operations(ops)` as ONE call: its own loop and time-limit test
        // (`current_time >= max_time_ms`) decide how many steps are made
        {
            let cfg2 = dst_config(preset, seed).expect("same preset");
            let mut whole = DSTSimulation::with_config(cfg2);
            let r = whole.run_operations(ops).clone();
            lines.push(format!("whole time={} ops={} crashes={} recoveries={}", r.total_time_ms, r.total_operations, r.crashes, r.recoveries));
        }
        raw.push(format!("summary {}", res.summary()));
        raw.push(format!("steps-with-2+-crashed {}", multi));
        raw.push(format!("avg-recovery {:?}", sim.crash_simulator().stats().average_recovery_time_ms.to_bits()));
        // read out the iteration order (does not touch the recorded trace)
        sim.advance_time(1_000_000_000);
        for i in 0..n {
            sim.crash_node(i, CrashReason::TestTriggered);
        }
        *pi = sim.crash_simulator().crashed_nodes().iter().map(|h| h.0).collect();
        true
    }

    /// the fault configuration and key distribution of a `redis-dst` preset
    pub fn redis_dst_setup(preset: &str) -> Option<(FaultConfig, usize, Option<(u64, f64)>, u64, bool)> {
        // (faults, nodes, Some((zipf keys, skew)) | None = uniform, uniform keys, manual stepping)
        Some(match preset {
            "calm" => (FaultConfig::calm(), 5, Some((1000, 1.0)), 0, false),
            "moderate" => (FaultConfig::moderate(), 5, Some((1000, 1.0)), 0, false),
            "chaos" => (FaultConfig::chaos(), 5, Some((1000, 1.0)), 0, false),
            "uniform" => (FaultConfig::chaos(), 4, None, 50, false),
            "zipf-small" => (FaultConfig::moderate(), 3, Some((20, 1.5)), 0, false),
            "steps" => (FaultConfig::chaos(), 5, Some((1000, 1.0)), 0, true),
            _ => return None,
        })
    }

    pub fn redis_dst(preset: &str, seed: u64, ops: usize, lines: &mut Vec<String>, raw: &mut Vec<String>) -> bool {
        use redis_sim::simulator::dst_integration::KeyDistribution;
        let Some((cfg, nodes, zipf, ukeys, manual)) = redis_dst_setup(preset) else { return false };
        // as run_redis_dst_batch does
        buggify::reset_stats();
        buggify::set_config(cfg.clone());
        let mut sim = match (preset, zipf) {
            ("calm" | "moderate" | "chaos" | "steps", _) => RedisDSTSimulation::new(seed, nodes),
            (_, None) => RedisDSTSimulation::new_uniform(seed, nodes, ukeys),
            (_, Some((k, sk))) => RedisDSTSimulation::with_key_distribution(seed, nodes, KeyDistribution::Zipfian { num_keys: k, skew: sk }),
        }
        .with_faults(cfg);
        let res = if manual {
            // `step()` by hand (no time limit) plus one extra `random_operation()` per step
            for _ in 0..ops {
                sim.step();
                sim.random_operation();
            }
            sim.run(0).clone()
        } else {
            sim.run(ops).clone()
        };
        for op in &res.operation_history {
            lines.push(format!("{:?}", op));
        }
        lines.push(format!("result time={} ops={} crashes={} recoveries={} by_type={}", res.total_time_ms, res.total_operations, res.crashes, res.recoveries, sorted_map(&res.operations_by_type)));
        let st = sim.stats();
        lines.push(format!("stats {:?} converged={}", st, sim.check_convergence()));
        raw.push(format!("buggify checks={} triggers={}", sorted_map(&res.buggify_stats.checks), sorted_map(&res.buggify_stats.triggers)));
        true
    }

    /// a generator that answers every draw with one fixed value: probes `ZipfianGenerator::sample`
    struct Fixed(u64);
    impl redis_sim::io::Rng for Fixed {
        fn next_u64(&mut self) -> u64 { self.0 }
        fn gen_bool(&mut self, _p: f64) -> bool { false }
        fn gen_range(&mut self, _lo: u64, _hi: u64) -> u64 { self.0 }
        fn shuffle<T>(&mut self, _s: &mut [T]) {}
    }

    /// the REAL sampler as a step function of its one draw `v = gen_range(0, 10^6)`: the boundaries
    /// `b_1 <= b_2 <= …` with `sample(v) = #{ j | b_j <= v }`; None when it is not monotone
    pub fn zipf_boundaries(num_keys: u64, skew: f64) -> Option<Vec<u64>> {
        use redis_sim::simulator::dst_integration::ZipfianGenerator;
        let z = ZipfianGenerator::new(num_keys, skew);
        let mut b = Vec::new();
        let mut prev = 0u64;
        for v in 0..1_000_000u64 {
            let s = z.sample(&mut Fixed(v));
            if s < prev {
                return None;
            }
            for _ in prev..s {
                b.push(v);
            }
            prev = s;
        }
        // generate_key is `key<sample>`
        if z.generate_key(&mut Fixed(999_999)) != format!("key{}", prev) {
            return None;
        }
        Some(b)
    }

    /// `member:12` / `field:3` / `value:7` -> the number
    fn num(s: &str) -> u64 {
        s.rsplit(':').next().and_then(|x| x.parse().ok()).unwrap_or(u64::MAX)
    }

    pub fn list_config(preset: &str, seed: u64) -> Option<ListDSTConfig> {
        match preset {
            "default" => Some(ListDSTConfig::new(seed)),
            "high_churn" => Some(ListDSTConfig::high_churn(seed)),
            "modify_heavy" => Some(ListDSTConfig::modify_heavy(seed)),
            "gen" => {
                let mut r = Rng::new(seed ^ 0x715);
                let f = |r: &mut Rng| r.below(60) as f64 / 100.0;
                Some(ListDSTConfig { seed, num_values: 1 + r.below(300) as usize, pop_prob: f(&mut r), left_prob: r.below(101) as f64 / 100.0, lset_prob: f(&mut r) / 3.0, trim_prob: f(&mut r) / 4.0 })
            }
            _ => None,
        }
    }
    pub fn set_config(preset: &str, seed: u64) -> Option<SetDSTConfig> {
        match preset {
            "default" => Some(SetDSTConfig::new(seed)),
            "small_members" => Some(SetDSTConfig::small_members(seed)),
            "high_churn" => Some(SetDSTConfig::high_churn(seed)),
            "large_members" => Some(SetDSTConfig::large_members(seed)),
            "gen" => {
                let mut r = Rng::new(seed ^ 0x5E7);
                Some(SetDSTConfig { seed, num_members: 1 + r.below(700) as usize, remove_prob: r.below(101) as f64 / 100.0 })
            }
            _ => None,
        }
    }
    pub fn hash_config(preset: &str, seed: u64) -> Option<HashDSTConfig> {
        match preset {
            "default" => Some(HashDSTConfig::new(seed)),
            "small_fields" => Some(HashDSTConfig::small_fields(seed)),
            "high_churn" => Some(HashDSTConfig::high_churn(seed)),
            "gen" => {
                let mut r = Rng::new(seed ^ 0x4A5);
                Some(HashDSTConfig { seed, num_fields: 1 + r.below(300) as usize, num_values: 1 + r.below(100) as usize, delete_prob: r.below(101) as f64 / 100.0, update_prob: 0.3 })
            }
            _ => None,
        }
    }
    pub fn tx_config(preset: &str, seed: u64) -> Option<TransactionDSTConfig> {
        match preset {
            "default" => Some(TransactionDSTConfig::new(seed)),
            "high_conflict" => Some(TransactionDSTConfig::high_conflict(seed)),
            "error_heavy" => Some(TransactionDSTConfig::error_heavy(seed)),
            "gen" => {
                let mut r = Rng::new(seed ^ 0x7A0);
                let f = |r: &mut Rng| r.below(34) as f64 / 100.0;
                Some(TransactionDSTConfig { seed, num_keys: 1 + r.below(60) as usize, conflict_prob: f(&mut r), discard_prob: f(&mut r), error_prob: f(&mut r) })
            }
            _ => None,
        }
    }
    pub fn zset_config(preset: &str, seed: u64) -> Option<SortedSetDSTConfig> {
        match preset {
            "default" => Some(SortedSetDSTConfig::new(seed)),
            "small_keyspace" => Some(SortedSetDSTConfig::small_keyspace(seed)),
            "large_keyspace" => Some(SortedSetDSTConfig::large_keyspace(seed)),
            "gen" => {
                let mut r = Rng::new(seed ^ 0x25E);
                Some(SortedSetDSTConfig { seed, num_keys: 1 + r.below(1500) as usize, update_prob: 0.3, remove_prob: r.below(101) as f64 / 100.0, max_score: *r.pick(&[0.01, 1.0, 100.0, 1000.0, 100000.0]) })
            }
            _ => None,
        }
    }

    pub fn typed(harness: &str, preset: &str, seed: u64, ops: usize, lines: &mut Vec<String>) -> bool {
        match harness {
            "executor" => {
                let cfg = match preset {
                    "default" => ExecutorDSTConfig::new(seed),
                    "calm" => ExecutorDSTConfig::calm(seed),
                    "chaos" => ExecutorDSTConfig::chaos(seed),
                    "string_heavy" => ExecutorDSTConfig::string_heavy(seed),
                    "gen" => {
                        let mut r = Rng::new(seed ^ 0xE8E);
                        let mut w = |r: &mut Rng| if r.chance(1, 4) { 0 } else { r.below(60) };
                        let mut c = ExecutorDSTConfig::new(seed);
                        c.num_keys = 1 + r.below(200) as usize;
                        c.num_values = 1 + r.below(80) as usize;
                        c.num_fields = 1 + r.below(40) as usize;
                        c.weight_string = w(&mut r);
                        c.weight_key = w(&mut r);
                        c.weight_list = w(&mut r);
                        c.weight_set = w(&mut r);
                        c.weight_hash = w(&mut r);
                        c.weight_sorted_set = w(&mut r);
                        c.weight_expiry = 1 + w(&mut r);
                        c.zipf_exponent = *r.pick(&[0.5, 1.0, 1.0, 1.5, 2.0]);
                        c
                    }
                    _ => return false,
                };
                let mut h = ExecutorDSTHarness::new(cfg);
                for k in 1..=ops {
                    h.run(1);
                    let r = h.result();
                    lines.push(format!("{} {:?} viol={}", k, r.last_op, r.invariant_violations.len()));
                    if !r.invariant_violations.is_empty() {
                        break;
                    }
                }
                let r = h.result().clone();
                lines.push(format!("result {:?}", r));
                let mut keys: Vec<String> = h.executor().get_data().keys().cloned().collect();
                keys.sort();
                lines.push(format!("state keys={}", keys.join(",")));
            }
            "list" => {
                use redis_sim::redis::list_dst::ListOp;
                let Some(cfg) = list_config(preset, seed) else { return false };
                let mut h = ListDSTHarness::new(cfg);
                for k in 1..=ops {
                    h.run(1);
                    let r = h.result();
                    let t = match r.last_op.as_ref() {
                        Some(ListOp::LPush { value }) => format!("lpush {}", num(value)),
                        Some(ListOp::RPush { value }) => format!("rpush {}", num(value)),
                        Some(ListOp::LPop) => "lpop".to_string(),
                        Some(ListOp::RPop) => "rpop".to_string(),
                        Some(ListOp::LSet { index, value }) => format!("lset {} {}", index, num(value)),
                        Some(ListOp::Trim { start, stop }) => format!("trim {} {}", start, stop),
                        None => "none".to_string(),
                    };
                    lines.push(format!("{} {} viol={}", k, t, r.invariant_violations.len()));
                    if !r.invariant_violations.is_empty() {
                        break;
                    }
                }
                let r = h.result();
                lines.push(format!("result ops={} lpushes={} rpushes={} lpops={} rpops={} lsets={} trims={} viol={}",
                    r.total_operations, r.lpushes, r.rpushes, r.lpops, r.rpops, r.lsets, r.trims, r.invariant_violations.len()));
                let items: Vec<String> = h.list().range(0, -1).iter().map(|x| num(&x.to_string()).to_string()).collect();
                lines.push(format!("state {}", items.join(",")));
            }
            "set" => {
                use redis_sim::redis::set_dst::SetOp;
                let Some(cfg) = set_config(preset, seed) else { return false };
                let mut h = SetDSTHarness::new(cfg);
                for k in 1..=ops {
                    h.run(1);
                    let r = h.result();
                    let t = match r.last_op.as_ref() {
                        Some(SetOp::Add { member }) => format!("add {}", num(member)),
                        Some(SetOp::Remove { member }) => format!("rem {}", num(member)),
                        None => "none".to_string(),
                    };
                    lines.push(format!("{} {} viol={}", k, t, r.invariant_violations.len()));
                    if !r.invariant_violations.is_empty() {
                        break;
                    }
                }
                let r = h.result();
                lines.push(format!("result ops={} adds={} existed={} removes={} notfound={} viol={}",
                    r.total_operations, r.adds, r.add_existed, r.removes, r.remove_not_found, r.invariant_violations.len()));
                let mut m: Vec<u64> = h.set().members().iter().map(|x| num(&x.to_string())).collect();
                m.sort();
                lines.push(format!("state {}", m.iter().map(|x| x.to_string()).collect::<Vec<_>>().join(",")));
            }
            "hash" => {
                use redis_sim::redis::hash_dst::HashOp;
                let Some(cfg) = hash_config(preset, seed) else { return false };
                let mut h = HashDSTHarness::new(cfg);
                for k in 1..=ops {
                    h.run(1);
                    let r = h.result();
                    let t = match r.last_op.as_ref() {
                        Some(HashOp::Set { field, value }) => format!("set {} {}", num(field), num(value)),
                        Some(HashOp::Delete { field }) => format!("del {}", num(field)),
                        None => "none".to_string(),
                    };
                    lines.push(format!("{} {} viol={}", k, t, r.invariant_violations.len()));
                    if !r.invariant_violations.is_empty() {
                        break;
                    }
                }
                let r = h.result();
                lines.push(format!("result ops={} sets={} updates={} deletes={} viol={}", r.total_operations, r.sets, r.updates, r.deletes, r.invariant_violations.len()));
                let mut m: Vec<(u64, u64)> = h.hash().get_all().iter().map(|(f, v)| (num(&f.to_string()), num(&v.to_string()))).collect();
                m.sort();
                lines.push(format!("state {}", m.iter().map(|(f, v)| format!("{}={}", f, v)).collect::<Vec<_>>().join(",")));
            }
            "sorted-set" => {
                use redis_sim::redis::sorted_set_dst::SortedSetOp;
                let Some(cfg) = zset_config(preset, seed) else { return false };
                let mut h = SortedSetDSTHarness::new(cfg);
                let cents = |x: f64| -> u64 { (x * 100.0).round() as u64 };
                for k in 1..=ops {
                    h.run(1);
                    let r = h.result();
                    let t = match r.last_op.as_ref() {
                        Some(SortedSetOp::Add { member, score }) => format!("add {} {}", num(member), cents(*score)),
                        Some(SortedSetOp::Remove { member }) => format!("rem {}", num(member)),
                        None => "none".to_string(),
                    };
                    lines.push(format!("{} {} viol={}", k, t, r.invariant_violations.len()));
                    if !r.invariant_violations.is_empty() {
                        break;
                    }
                }
                let r = h.result();
                lines.push(format!("result ops={} adds={} updates={} removes={} viol={}", r.total_operations, r.adds, r.updates, r.removes, r.invariant_violations.len()));
                let m: Vec<String> = h.sorted_set().range(0, -1).iter().map(|(mem, sc)| format!("{}:{}", num(&mem.to_string()), cents(*sc))).collect();
                lines.push(format!("state {}", m.join(",")));
            }
            "transaction" => {
                use redis_sim::redis::transaction_dst::TransactionOp;
                let Some(cfg) = tx_config(preset, seed) else { return false };
                let mut h = TransactionDSTHarness::new(cfg);
                for k in 1..=ops {
                    h.run(1);
                    let r = h.result();
                    let t = match r.last_op.as_ref() {
                        Some(TransactionOp::WatchExecNoConflict(d)) => format!("WatchExecNoConflict {}", d),
                        Some(TransactionOp::WatchExecConflict(d)) => format!("WatchExecConflict {}", d),
                        Some(TransactionOp::MultiExecSimple(d)) => format!("MultiExecSimple {}", d),
                        Some(TransactionOp::DiscardAfterMulti(d)) => format!("DiscardAfterMulti {}", d),
                        Some(TransactionOp::ErrorScenario(d)) => format!("ErrorScenario {}", d),
                        Some(TransactionOp::UnwatchThenExec(d)) => format!("UnwatchThenExec {}", d),
                        None => "none".to_string(),
                    };
                    lines.push(format!("{} {} viol={}", k, t, r.invariant_violations.len()));
                    if !r.invariant_violations.is_empty() {
                        break;
                    }
                }
                let r = h.result();
                lines.push(format!("result ops={} no_conflict={} conflict={} exec={} discard={} error={} unwatch={} viol={}",
                    r.total_operations, r.watch_no_conflict, r.watch_conflict, r.simple_exec, r.discards, r.error_scenarios, r.unwatch_scenarios, r.invariant_violations.len()));
                lines.push("state -".to_string());
            }
            _ => return false,
        }
        true
    }

    pub fn wal_config(preset: &str) -> Option<WalDSTConfig> {
        match preset {
            "default" => Some(WalDSTConfig::default()),
            "baseline" => Some(WalDSTConfig::baseline()),
            "crash_only" => Some(WalDSTConfig::crash_only()),
            "chaos" => Some(WalDSTConfig::chaos()),
            // no fsync after a write (EverySecond / No mode), faults on
            "chaos_nofsync" => Some(WalDSTConfig { fsync_after_write: false, ..WalDSTConfig::chaos() }),
            // rotation after every entry
            "chaos_tiny_files" => Some(WalDSTConfig { max_file_size: 17, num_writes: 300, ..WalDSTConfig::chaos() }),
            _ => None,
        }
    }

    /// GENERATED WAL DST configuration (a function of the seed): file sizes around the entry
    /// size (one entry per file … never rotating), extreme fault rates
    pub fn wal_config_for(preset: &str, seed: u64) -> Option<WalDSTConfig> {
        if preset != "gen" {
            return wal_config(preset);
        }
        let mut r = Rng::new(seed ^ 0x3A1);
        let p = [0.0, 0.01, 0.05, 0.3, 0.9];
        let mut c = WalDSTConfig::default();
        c.num_writes = *r.pick(&[1usize, 5, 100, 400]);
        c.max_file_size = *r.pick(&[17usize, 100, 113, 114, 512, 4096, 1 << 20]);
        c.store_config.write_fail_prob = *r.pick(&p);
        c.store_config.partial_write_prob = *r.pick(&p);
        c.store_config.fsync_fail_prob = *r.pick(&p);
        c.store_config.disk_full_prob = *r.pick(&p);
        c.simulate_crash = r.chance(2, 3);
        c.fsync_after_write = r.chance(2, 3);
        Some(c)
    }

    /// encoded length of the entry the harness writes for timestamp `ts` (its private
    /// `make_test_delta`, rebuilt from the public constructors)
    pub fn wal_entry_len(ts: u64) -> usize {
        use redis_sim::replication::{LamportClock, ReplicaId, ReplicatedValue, ReplicationDelta};
        let rid = ReplicaId::new(1);
        let rv = ReplicatedValue::with_value(SDS::from_str(&format!("val-{}", ts)), LamportClock { time: ts, replica_id: rid });
        let d = ReplicationDelta::new("key-000123".to_string(), rv, rid);
        redis_sim::streaming::WalEntry::from_delta(&d, ts).expect("serialize").encode().len()
    }

    pub fn wal(preset: &str, seed: u64, lines: &mut Vec<String>) -> bool {
        let Some(cfg) = wal_config_for(preset, seed) else { return false };
        let mut h = WalDSTHarness::new(seed, cfg);
        let r = h.run();
        lines.push(format!("{:?}", r));
        true
    }

    fn gen_store(r: &mut Rng, sc: &mut redis_sim::streaming::SimulatedStoreConfig) {
        use redis_sim::streaming::SimulatedStoreConfig;
        // the store's own presets, or (half the time) field-by-field
        match r.below(6) {
            0 => { *sc = SimulatedStoreConfig::no_faults(); return; }
            1 => { *sc = SimulatedStoreConfig::high_chaos(); return; }
            2 => { *sc = SimulatedStoreConfig::default(); return; }
            _ => {}
        }
        let p = [0.0, 0.01, 0.1, 0.4];
        sc.put_fail_prob = *r.pick(&p);
        sc.get_fail_prob = *r.pick(&p);
        sc.get_corrupt_prob = *r.pick(&[0.0, 0.0, 0.05]);
        sc.timeout_prob = *r.pick(&p);
        sc.partial_write_prob = *r.pick(&p);
        sc.delete_fail_prob = *r.pick(&p);
        sc.list_incomplete_prob = *r.pick(&p);
        sc.rename_fail_prob = *r.pick(&p);
        sc.latency_range_us = *r.pick(&[(0u64, 0u64), (100, 10_000), (5, 5)]);
    }

    pub fn paused_runtime() -> tokio::runtime::Runtime {
        // virtual tokio time: the simulated stores' latency sleeps complete immediately
        tokio::runtime::Builder::new_current_thread().enable_time().start_paused(true).build().expect("runtime")
    }

    pub fn streaming_config(preset: &str, seed: u64) -> Option<StreamingDSTConfig> {
        Some(match preset {
            "default" => StreamingDSTConfig::new(seed),
            "calm" => StreamingDSTConfig::calm(seed),
            "moderate" => StreamingDSTConfig::moderate(seed),
            "chaos" => StreamingDSTConfig::chaos(seed),
            "gen" => {
                let mut r = Rng::new(seed ^ 0x57E);
                let mut c = StreamingDSTConfig::new(seed);
                gen_store(&mut r, &mut c.store_config);
                c.write_buffer_config.max_deltas = *r.pick(&[1usize, 3, 100]);
                c.write_buffer_config.max_size_bytes = *r.pick(&[64usize, 1024, 65536]);
                c.write_buffer_config.backpressure_threshold_bytes = *r.pick(&[128usize, 4096, 262144]);
                c.flush_probability = *r.pick(&[0.0, 0.1, 0.5, 0.9]);
                c.crash_probability = *r.pick(&[0.0, 0.02, 0.3]);
                c
            }
            _ => return None,
        })
    }

    /// `parts` = 1: `run(ops)` as one call; otherwise the run is cut into `parts` consecutive `run` calls and,
    /// when `stall_ms > 0`, REAL time (the wall clock — the simulation is not told) passes between them
    pub fn streaming_parts(preset: &str, seed: u64, ops: usize, parts: usize, stall_ms: u64, lines: &mut Vec<String>) -> bool {
        let cfg = match streaming_config(preset, seed) { Some(c) => c, None => return false };
        paused_runtime().block_on(async {
            let mut h = StreamingDSTHarness::new(cfg).await;
            for (i, n) in split_ops(ops, parts).into_iter().enumerate() {
                if i > 0 && stall_ms > 0 {
                    std::thread::sleep(std::time::Duration::from_millis(stall_ms));
                }
                h.run(n).await;
            }
            h.check_invariants().await;
            let r = h.result();
            for op in &r.history {
                lines.push(format!("{:?}", op));
            }
            lines.push(format!("result total={} ok={} failed={} flushes={} crashes={} stats={:?} violations={:?}",
                r.total_operations, r.successful_operations, r.failed_operations, r.flushes, r.crashes, r.store_stats, r.invariant_violations));
        });
        true
    }

    pub fn streaming(preset: &str, seed: u64, ops: usize, lines: &mut Vec<String>) -> bool {
        streaming_parts(preset, seed, ops, 1, 0, lines)
    }

    fn split_ops(ops: usize, parts: usize) -> Vec<usize> {
        let parts = parts.max(1);
        (0..parts).map(|i| ops * (i + 1) / parts - ops * i / parts).collect()
    }

    pub fn compaction_config(preset: &str, seed: u64) -> Option<CompactionDSTConfig> {
        Some(match preset {
            "default" => CompactionDSTConfig::new(seed),
            "calm" => CompactionDSTConfig::calm(seed),
            "aggressive" => CompactionDSTConfig::aggressive(seed),
            "chaos" => CompactionDSTConfig::chaos(seed),
            "gen" => {
                let mut r = Rng::new(seed ^ 0xC03);
                let mut c = CompactionDSTConfig::new(seed);
                gen_store(&mut r, &mut c.store_config);
                c.write_buffer_config.max_deltas = *r.pick(&[1usize, 3, 100]);
                c.compaction_config.max_segments = *r.pick(&[1usize, 2, 5, 10]);
                c.compaction_config.min_segments_to_compact = *r.pick(&[1usize, 2, 5]);
                c.compaction_config.max_segments_per_compaction = *r.pick(&[1usize, 2, 5, 50]);
                c.compaction_config.target_segment_size = *r.pick(&[1usize, 256, 1024, 1 << 20]);
                c.flush_probability = *r.pick(&[0.1, 0.3, 0.6]);
                c.compact_probability = *r.pick(&[0.05, 0.3, 0.4]);
                c
            }
            _ => return None,
        })
    }

    pub fn compaction_parts(preset: &str, seed: u64, ops: usize, parts: usize, stall_ms: u64, lines: &mut Vec<String>) -> bool {
        let cfg = match compaction_config(preset, seed) { Some(c) => c, None => return false };
        paused_runtime().block_on(async {
            let mut h = CompactionDSTHarness::new(cfg).await;
            for (i, n) in split_ops(ops, parts).into_iter().enumerate() {
                if i > 0 && stall_ms > 0 {
                    std::thread::sleep(std::time::Duration::from_millis(stall_ms));
                }
                h.run(n).await;
            }
            h.check_invariants().await;
            let r = h.result().clone();
            for op in &r.history {
                lines.push(format!("{:?}", op));
            }
            let mut rr = r.clone();
            rr.history.clear();
            lines.push(format!("result {:?}", rr));
        });
        true
    }

    pub fn compaction(preset: &str, seed: u64, ops: usize, lines: &mut Vec<String>) -> bool {
        compaction_parts(preset, seed, ops, 1, 0, lines)
    }

    /// how long a wall-clock stall has to be to cross the smallest wall-clock-typed time constant of the
    /// configuration (comparison at equality, computed from the configuration): just above the tombstone TTL
    /// of the compaction configuration when that is short, 120 ms otherwise
    pub fn stall_ms(harness: &str, preset: &str, seed: u64) -> u64 {
        if harness == "compaction" {
            if let Some(c) = compaction_config(preset, seed) {
                let ttl = c.compaction_config.tombstone_ttl.as_millis() as u64;
                if ttl <= 400 {
                    return ttl + 60;
                }
            }
        }
        120
    }

    /// the store-based harnesses under a wall-clock stall: (trace of the run cut into four `run` calls,
    /// trace of the same with real time passing between the calls)
    pub fn stalled_pair(harness: &str, preset: &str, seed: u64, ops: usize) -> Option<(Vec<String>, Vec<String>, u64)> {
        let ms = stall_ms(harness, preset, seed);
        let (mut a, mut b) = (Vec::new(), Vec::new());
        let ok = match harness {
            "compaction" => compaction_parts(preset, seed, ops, 4, 0, &mut a) && compaction_parts(preset, seed, ops, 4, ms, &mut b),
            "streaming" => streaming_parts(preset, seed, ops, 4, 0, &mut a) && streaming_parts(preset, seed, ops, 4, ms, &mut b),
            _ => false,
        };
        if ok { Some((a, b, ms)) } else { None }
    }

    pub fn pipeline(seed: u64, lines: &mut Vec<String>) -> bool {
        let mut p = PipelineSimulator::new(seed);
        for r in p.run() {
            lines.push(format!("{:?}", r));
        }
        lines.push(p.summary());
        true
    }

    pub fn scenario(preset: &str, seed: u64, ops: usize, lines: &mut Vec<String>) -> bool {
        let mut r = Rng::new(seed ^ 0x5CE);
        let mut b = ScenarioBuilder::new(seed);
        b = match preset {
            "plain" => b,
            "buggify" => b.with_buggify(0.3),
            _ => return false,
        };
        let mut t = 0u64;
        for k in 0..ops {
            t += r.below(20);
            let key = format!("k{}", r.below(5));
            let cmd = match r.below(5) {
                0 | 1 => Command::set(key, SDS::from_str(&format!("v{}", k))),
                2 => Command::Get(key),
                3 => Command::Incr(format!("c{}", r.below(2))),
                _ => Command::Del(vec![key]),
            };
            b = b.at_time(t).client(k % 3, cmd);
        }
        let h = b.run();
        for op in h.history() {
            lines.push(format!("{:?}", op));
        }
        lines.push(format!("result now={} history={}", h.current_time().as_millis(), h.history().len()));
        true
    }

    /// unrelated simulation activity on this thread: another built-in harness with a legal
    /// configuration of its own (it leaves its fault configuration in the thread-local context)
    pub fn unrelated_activity() {
        let cfg = DSTConfig { fault_config: FaultConfig::disabled(), ..DSTConfig::new(7) };
        let mut sim = DSTSimulation::with_config(cfg);
        sim.run_operations(5);
        let _ = faults::process::CRASH;
    }
}

pub fn paused_runtime() -> tokio::runtime::Runtime {
    real::paused_runtime()
}

/// one real harness run: canonical trace (what a model predicts, where there is one), verbatim
/// report lines (compared between processes only) and, for `dst`, the iteration order `pi`
#[derive(Clone, PartialEq, Debug, Default)]
pub struct Trace {
    pub lines: Vec<String>,
    pub raw: Vec<String>,
    pub pi: Vec<usize>,
}

/// the canonical trace of one real harness run, in THIS process
pub fn harness_trace(harness: &str, preset: &str, seed: u64, ops: usize) -> Option<Trace> {
    // a generated configuration may make a harness panic: that is an outcome (it must be the same
    // outcome in every process), not a failure of the check
    match catch_unwind(AssertUnwindSafe(|| harness_trace_inner(harness, preset, seed, ops))) {
        Ok(t) => t,
        Err(e) => {
            let msg = e.downcast_ref::<String>().cloned().or_else(|| e.downcast_ref::<&str>().map(|x| x.to_string())).unwrap_or_default();
            Some(Trace { lines: vec![format!("panic: {}", msg.replace('\n', " "))], raw: vec!["shape panic".into()], pi: vec![] })
        }
    }
}

fn harness_trace_inner(harness: &str, preset: &str, seed: u64, ops: usize) -> Option<Trace> {
    let mut t = Trace::default();
    let ok = if harness.starts_with("crdt-") {
        real::crdt(harness, preset, seed, ops, &mut t.lines, &mut t.raw)
    } else {
        match harness {
            "dst" => real::dst(preset, seed, ops, &mut t.lines, &mut t.raw, &mut t.pi),
            "redis-dst" => real::redis_dst(preset, seed, ops, &mut t.lines, &mut t.raw),
            "executor" | "list" | "set" | "hash" | "sorted-set" | "transaction" => real::typed(harness, preset, seed, ops, &mut t.lines),
            "wal" => real::wal(preset, seed, &mut t.lines),
            "streaming" => real::streaming(preset, seed, ops, &mut t.lines),
            "compaction" => real::compaction(preset, seed, ops, &mut t.lines),
            "multi-node" => crate::c20_mn::multi_node(preset, seed, ops, &mut t.lines, &mut t.raw),
            "multi-node-gen" => crate::c20_mn::multi_node_gen(preset, seed, ops, &mut t.lines, &mut t.raw),
            "partition" => crate::c20_mn::partition(preset, seed, &mut t.lines, &mut t.raw),
            "connection" => real::pipeline(seed, &mut t.lines),
            "scenario" => real::scenario(preset, seed, ops, &mut t.lines),
            "batch" => crate::c20_more::batch(preset, seed, ops, &mut t.lines, &mut t.raw),
            "dst-api" => crate::c20_more::dst_api(preset, seed, ops, &mut t.lines, &mut t.raw),
            "scenario-timing" => crate::c20_more::scenario_timing(preset, seed, ops, &mut t.lines, &mut t.raw),
            "streaming-workload" | "compaction-workload" => crate::c20_more::workload(harness, preset, seed, ops, &mut t.lines, &mut t.raw),
            "connection-gen" => crate::c20_more::connection_gen(preset, seed, ops, &mut t.lines, &mut t.raw),
            "multi-node-api" => crate::c20_more::multi_node_api(preset, seed, ops, &mut t.lines, &mut t.raw),
            "sim-executor" => {
                // the kernel script generator of part A, Simulation / timer flavours
                let mut r = Rng::new(seed);
                let mut c = Vec::new();
                for fl in [3u64, 4, 5] {
                    let script = gen_script(&mut r, fl);
                    let (ops_l, ans) = run_script(&script, &mut r, &mut c);
                    for (o, a) in ops_l.iter().zip(ans.iter()) {
                        t.lines.push(format!("{} -> {}", o, a));
                    }
                }
                true
            }
            _ => false,
        }
    };
    for l in t.lines.iter_mut().chain(t.raw.iter_mut()) {
        if l.contains('\n') {
            *l = l.replace('\n', "\\n");
        }
    }
    if ok { Some(t) } else { None }
}

/// `rvharness --c20-child stall:<harness> <preset> <seed> <ops>`: the replay of a
/// `C20:trace-depends-on-wall-clock` finding — both traces side by side from the first difference
fn stall_replay(harness: &str, preset: &str, seed: u64, ops: usize) {
    match real::stalled_pair(harness, preset, seed, ops) {
        None => {
            eprintln!("no wall-clock stall run for {} {}", harness, preset);
            std::process::exit(2);
        }
        Some((a, b, ms)) => {
            if a == b {
                println!("same trace with and without {} ms of real time between the run() calls ({} lines)", ms, a.len());
            } else {
                let i = first_diff(&a, &b);
                println!("traces differ from line {} on (stall {} ms):", i + 1, ms);
                for k in i..(i + 3).min(a.len().max(b.len())) {
                    println!("  straight  {}: {}", k + 1, a.get(k).map(|x| x.as_str()).unwrap_or("-"));
                    println!("  stalled   {}: {}", k + 1, b.get(k).map(|x| x.as_str()).unwrap_or("-"));
                }
                std::process::exit(1);
            }
        }
    }
}

/// `rvharness --c20-child <harness> <preset> <seed> <ops>`: print the trace, `#raw ` / `#pi ` lines last
pub fn child(args: &[String]) {
    if args.len() == 4 {
        if let Some(h) = args[0].strip_prefix("stall:") {
            std::panic::set_hook(Box::new(|_| {}));
            stall_replay(h, &args[1], args[2].parse().expect("seed"), args[3].parse().expect("ops"));
            return;
        }
    }
    if args.len() != 4 {
        eprintln!("usage: --c20-child <harness> <preset> <seed> <ops>");
        std::process::exit(2);
    }
    std::panic::set_hook(Box::new(|_| {}));
    let seed: u64 = args[2].parse().expect("seed");
    let ops: usize = args[3].parse().expect("ops");
    match harness_trace(&args[0], &args[1], seed, ops) {
        Some(t) => {
            let mut s = String::new();
            for l in t.lines {
                s.push_str(&l.replace('\n', "\\n"));
                s.push('\n');
            }
            for l in t.raw {
                s.push_str("#raw ");
                s.push_str(&l.replace('\n', "\\n"));
                s.push('\n');
            }
            s.push_str(&format!("#pi {}\n", t.pi.iter().map(|x| x.to_string()).collect::<Vec<_>>().join(",")));
            use std::io::Write;
            std::io::stdout().write_all(s.as_bytes()).unwrap();
        }
        None => {
            eprintln!("unknown harness/preset {} {}", args[0], args[1]);
            std::process::exit(2);
        }
    }
}

fn run_child(harness: &str, preset: &str, seed: u64, ops: usize) -> Result<Trace, String> {
    let exe = std::env::current_exe().expect("current_exe");
    let o = std::process::Command::new(exe)
        .args(["--c20-child", harness, preset, &seed.to_string(), &ops.to_string()])
        .output()
        .map_err(|e| format!("spawn: {}", e))?;
    if !o.status.success() {
        return Err(format!("child exited with {:?}: {}", o.status.code(), String::from_utf8_lossy(&o.stderr).chars().take(400).collect::<String>()));
    }
    let text = String::from_utf8_lossy(&o.stdout).to_string();
    let mut t = Trace::default();
    for l in text.lines() {
        if let Some(r) = l.strip_prefix("#raw ") {
            t.raw.push(r.to_string());
        } else if let Some(r) = l.strip_prefix("#pi ") {
            t.pi = r.split(',').filter(|x| !x.is_empty()).map(|x| x.parse().unwrap()).collect();
        } else if l == "#pi" {
        } else {
            t.lines.push(l.to_string());
        }
    }
    Ok(t)
}

/// configuration numbers of the REAL preset, appended to the `RUN` line for the model
fn cfg_numbers(harness: &str, preset: &str, seed: u64, ops: usize) -> Option<String> {
    if harness.starts_with("crdt-") {
        let c = real::crdt_config(preset, seed)?;
        return Some(format!("{} {}", c.num_replicas, c.message_drop_prob.to_bits()));
    }
    // thresholds: the harnesses' own expression `(p * 100.0) as u64` on the REAL preset values
    let pct = |p: f64| -> u64 { (p * 100.0) as u64 };
    match harness {
        "set" => {
            let c = real::set_config(preset, seed)?;
            return Some(format!("{} {}", c.num_members, pct(c.remove_prob)));
        }
        "hash" => {
            let c = real::hash_config(preset, seed)?;
            return Some(format!("{} {} {}", c.num_fields, c.num_values, pct(c.delete_prob)));
        }
        "list" => {
            let c = real::list_config(preset, seed)?;
            let t = pct(c.trim_prob);
            let l = t + pct(c.lset_prob);
            let p = l + pct(c.pop_prob);
            return Some(format!("{} {} {} {} {}", c.num_values, t, l, p, pct(c.left_prob)));
        }
        "transaction" => {
            let c = real::tx_config(preset, seed)?;
            let e = pct(c.error_prob);
            let d = e + pct(c.discard_prob);
            return Some(format!("{} {} {} {}", c.num_keys, e, d, d + pct(c.conflict_prob)));
        }
        "sorted-set" => {
            let c = real::zset_config(preset, seed)?;
            return Some(format!("{} {} {}", c.num_keys, pct(c.remove_prob), (c.max_score * 100.0) as u64));
        }
        _ => {}
    }
    if harness == "wal" {
        let c = real::wal_config_for(preset, seed)?;
        let sc = &c.store_config;
        // `ser`: the encoded length of the entries the harness writes, from the real serializer
        let l: Vec<String> = [1u64, 10, 100].iter().map(|ts| real::wal_entry_len(*ts).to_string()).collect();
        return Some(format!(
            "{} {} {} {} {} {} {} {} {}",
            c.num_writes, c.max_file_size, sc.write_fail_prob.to_bits(), sc.partial_write_prob.to_bits(), sc.fsync_fail_prob.to_bits(),
            sc.disk_full_prob.to_bits(), c.simulate_crash as u8, c.fsync_after_write as u8, l.join(" ")
        ));
    }
    if harness == "redis-dst" {
        let (fc, nodes, zipf, ukeys, manual) = real::redis_dst_setup(preset)?;
        let d = redis_sim::simulator::dst::DSTConfig::default();
        let p = fc.get(faults::process::CRASH);
        let (kind, nkeys, table) = match zipf {
            None => (0u8, ukeys, Vec::new()),
            Some((k, sk)) => (1u8, k, real::zipf_boundaries(k, sk)?),
        };
        return Some(format!(
            "{} {} {} {} {} {} {} {} {} {} {} {} {} {}",
            nodes, p.to_bits(), d.crash_config.enable_buggify_crashes as u8, d.enable_clock_skew as u8, d.max_clock_skew_ms * 2, d.max_clock_drift_ppm * 2,
            d.crash_config.min_recovery_time_ms, d.crash_config.max_recovery_time_ms, d.max_time_ms, crate::cfg::CODE_DST_SORTS_NODES as u8, manual as u8, kind, nkeys,
            table.iter().map(|x| x.to_string()).collect::<Vec<_>>().join(" ")
        ).trim_end().to_string());
    }
    if harness == "dst-api" && preset == "sim" {
        let (variant, nodes, p, script) = crate::c20_more::dst_api_script(seed, ops)?;
        let c = if variant == 0 {
            let mut fc = FaultConfig::new();
            fc.set(faults::process::CRASH, p);
            let mut c = redis_sim::simulator::dst::DSTConfig::new(seed);
            c.fault_config = fc;
            c
        } else {
            redis_sim::simulator::dst::DSTConfig::chaos(seed).with_crash_config(redis_sim::simulator::CrashConfig { min_recovery_time_ms: 5, max_recovery_time_ms: 50, ..Default::default() })
        };
        let init_nodes = if variant == 0 { c.node_count } else { nodes };
        let flat: Vec<String> = script.iter().map(|(a, b, c)| format!("{} {} {}", a, b, c)).collect();
        return Some(format!("{} {} {} {} {} {} {} {} {} {} {}", nodes, init_nodes, c.fault_config.get(faults::process::CRASH).to_bits(), c.crash_config.enable_buggify_crashes as u8,
            c.enable_clock_skew as u8, c.max_clock_skew_ms, c.max_clock_drift_ppm, c.crash_config.min_recovery_time_ms, c.crash_config.max_recovery_time_ms, crate::cfg::CODE_DST_SORTS_NODES as u8, flat.join(" ")));
    }
    if harness == "scenario-timing" {
        let sc = crate::c20_more::scenario_of(preset, seed, ops)?;
        let (en, bits) = match sc.buggify { Some(p) => (1u8, p.to_bits()), None => (0, 0) };
        let ops: Vec<String> = sc.ops.iter().map(|(t, c)| format!("{} {}", t, c)).collect();
        return Some(format!("{} {} {} {}", en, bits, sc.evict_ms, ops.join(" ")));
    }
    if harness == "streaming-workload" {
        let c = crate::c20_more::streaming_cfg(preset, seed)?;
        return Some(format!("{} {} {}", c.crash_probability.to_bits(), (c.crash_probability + c.flush_probability).to_bits(), c.replica_id));
    }
    if harness == "compaction-workload" {
        let c = crate::c20_more::compaction_cfg(preset, seed)?;
        return Some(format!("{} {} {}", c.compact_probability.to_bits(), (c.compact_probability + c.flush_probability).to_bits(), c.replica_id));
    }
    if matches!(harness, "multi-node" | "multi-node-gen" | "partition") {
        return crate::c20_mn::cfg_numbers(harness, preset, seed, ops);
    }
    if harness == "dst" {
        let c = real::dst_config(preset, seed)?;
        // the probability `should_buggify` will read: the real FaultConfig::get of this preset
        let p = c.fault_config.get(faults::process::CRASH);
        return Some(format!(
            "{} {} {} {} {} {} {} {} {} {}",
            c.node_count, p.to_bits(), c.crash_config.enable_buggify_crashes as u8, c.enable_clock_skew as u8,
            c.max_clock_skew_ms * 2, c.max_clock_drift_ppm * 2, c.crash_config.min_recovery_time_ms, c.crash_config.max_recovery_time_ms, c.max_time_ms,
            crate::cfg::CODE_DST_SORTS_NODES as u8
        ));
    }
    None
}


/// where a family has no model, a process-dependent trace is attributed to a CAUSE by the shape of
/// its first divergence; anything that does not have that shape keeps the bare signature (unlisted)
fn divergence_class(family: &str, preset: &str, a: Option<&String>, b: Option<&String>) -> &'static str {
    if family == "dst-api" {
        if let (Some(a), Some(b)) = (a, b) {
            if a.starts_with("buggify-summary ") && b.starts_with("buggify-summary ") {
                // everything up to the result agrees; only the BUGGIFY statistics copied into the result differ
                return ":buggify-stats-cumulative";
            }
        }
    }
    if family == "multi-node" {
        if let (Some(a), Some(b)) = (a, b) {
            let strip = |s: &str| -> (String, String) {
                match s.rsplit_once(" clocks=") {
                    Some((h, c)) => (h.split_once(' ').map(|x| x.1).unwrap_or("").to_string(), c.to_string()),
                    None => (s.to_string(), String::new()),
                }
            };
            let (ha, ca) = strip(a);
            let (hb, cb) = strip(b);
            let anti = ha.starts_with("full-anti-entropy") || ha.starts_with("heal ");
            if ha == hb && ca != cb && anti {
                // same step, same reply; only the Lamport clocks after an anti-entropy exchange differ
                return ":lamport-clock-after-anti-entropy";
            }
            if preset == "partitioned" && ha.starts_with("gossip ") && hb.starts_with("gossip ") {
                // selective routing: the same gossip step; which target got which loss / delay draw differs
                return ":routing-table-order-in-gossip-round";
            }
        }
    }
    ""
}

/// signature of a difference between the verbatim report lines of two runs, by CAUSE:
/// an accessor listing a hash container (`order-of:<name> …`), a violation text that differs only in
/// the order in which a `HashSet` was rendered, or — anything else — the bare signature
fn raw_diff_signature(family: &str, scope: &str, a: Option<&String>, b: Option<&String>) -> (String, String) {
    if let Some(acc) = a.and_then(|l| l.strip_prefix("order-of:")).and_then(|l| l.split(' ').next()) {
        return (format!("C20:accessor-in-map-order:{}:{}", family, acc),
            format!("the public accessor {} returns the simulation's final state in an order that differs between two runs (it iterates a HashMap)", acc));
    }
    if let (Some(a), Some(b)) = (a, b) {
        if a.starts_with("violation ") && b.starts_with("violation ") && a != b && real::canon_violation(a) == real::canon_violation(b) {
            return (format!("C20:violation-text-in-hashset-order:{}", family),
                "the violation text the harness reports renders two HashSets with {:?}: same sets, different element order in different runs".to_string());
        }
    }
    (format!("C20:report-differs-{}:{}", scope, family), "the text the harness reports (summary / violation strings / statistics) differs between two runs".to_string())
}

struct Family {
    name: &'static str,
    presets: &'static [&'static str],
    ops: usize,
    modelled: bool,
    /// quick tier runs only the first `quick_presets` presets
    quick_presets: usize,
}

const FAMILIES: &[Family] = &[
    Family { name: "crdt-gcounter", presets: &["calm", "moderate", "chaos", "default", "gen"], ops: 200, modelled: true, quick_presets: 5 },
    Family { name: "crdt-pncounter", presets: &["calm", "moderate", "chaos", "default", "gen"], ops: 200, modelled: true, quick_presets: 5 },
    Family { name: "crdt-orset", presets: &["corpus-drop1", "calm", "moderate", "chaos", "default", "gen"], ops: 200, modelled: true, quick_presets: 6 },
    Family { name: "crdt-vclock", presets: &["calm", "moderate", "chaos", "default", "gen"], ops: 200, modelled: true, quick_presets: 5 },
    Family { name: "dst", presets: &["chaos", "chaos9", "default", "calm", "gen", "limit-below", "limit-at", "limit-above"], ops: 400, modelled: true, quick_presets: 8 },
    Family { name: "sim-executor", presets: &["script"], ops: 0, modelled: false, quick_presets: 1 },
    Family { name: "redis-dst", presets: &["chaos", "moderate", "uniform", "zipf-small", "steps", "calm"], ops: 150, modelled: true, quick_presets: 5 },
    Family { name: "executor", presets: &["default", "chaos", "gen", "calm", "string_heavy"], ops: 300, modelled: false, quick_presets: 3 },
    Family { name: "list", presets: &["default", "high_churn", "modify_heavy", "gen"], ops: 300, modelled: true, quick_presets: 4 },
    Family { name: "set", presets: &["default", "small_members", "high_churn", "large_members", "gen"], ops: 300, modelled: true, quick_presets: 5 },
    Family { name: "hash", presets: &["default", "small_fields", "high_churn", "gen"], ops: 300, modelled: true, quick_presets: 4 },
    Family { name: "sorted-set", presets: &["default", "small_keyspace", "large_keyspace", "gen"], ops: 300, modelled: true, quick_presets: 4 },
    Family { name: "transaction", presets: &["default", "high_conflict", "error_heavy", "gen"], ops: 200, modelled: true, quick_presets: 4 },
    Family { name: "multi-node", presets: &["broadcast", "lossy", "partitioned", "no-anti-entropy"], ops: 250, modelled: true, quick_presets: 3 },
    Family { name: "multi-node-gen", presets: &["corpus-backlog130", "corpus-sync1100", "gen-broadcast", "gen-partitioned", "gen-no-auto-ae"], ops: 18, modelled: true, quick_presets: 5 },
    Family { name: "partition", presets: &["isolate", "split_brain", "gen", "ring", "asymmetric"], ops: 0, modelled: true, quick_presets: 3 },
    Family { name: "streaming", presets: &["moderate", "chaos", "gen", "calm", "default"], ops: 150, modelled: false, quick_presets: 3 },
    Family { name: "compaction", presets: &["chaos", "aggressive", "gen", "calm", "default"], ops: 120, modelled: false, quick_presets: 3 },
    Family { name: "wal", presets: &["chaos", "default", "crash_only", "baseline", "chaos_nofsync", "chaos_tiny_files", "gen"], ops: 0, modelled: true, quick_presets: 7 },
    Family { name: "connection", presets: &["pipeline"], ops: 0, modelled: false, quick_presets: 1 },
    Family { name: "scenario", presets: &["buggify", "plain"], ops: 120, modelled: false, quick_presets: 1 },
    // session 3: entry points found by the source-derived audit (c20_src.rs / c20_more.rs)
    Family { name: "scenario-timing", presets: &["buggify", "evict", "gen", "buggify-always", "buggify-never", "plain"], ops: 60, modelled: true, quick_presets: 6 },
    Family { name: "streaming-workload", presets: &["default", "calm", "moderate", "chaos", "gen"], ops: 200, modelled: true, quick_presets: 5 },
    Family { name: "compaction-workload", presets: &["default", "calm", "aggressive", "chaos", "gen"], ops: 200, modelled: true, quick_presets: 5 },
    Family { name: "batch", presets: crate::c20_more::BATCH_PRESETS, ops: 60, modelled: false, quick_presets: 15 },
    Family { name: "dst-api", presets: &["sim", "crash"], ops: 150, modelled: false, quick_presets: 2 },
    Family { name: "connection-gen", presets: &["conn", "readbuf", "pipeline-sizes"], ops: 25, modelled: false, quick_presets: 3 },
    Family { name: "multi-node-api", presets: &["corpus-deltas8", "broadcast", "partitioned"], ops: 60, modelled: false, quick_presets: 3 },
];

/// is the family run by part B, and is its trace predicted by a Lean model?
pub fn family_modelled(name: &str) -> Option<bool> {
    FAMILIES.iter().find(|f| f.name == name).map(|f| f.modelled)
}

fn part_b(a: &Args, out: &mut Out) {
    let thorough = a.tier == "thorough";
    let k_children = if thorough { 5 } else { 3 };
    let seeds: Vec<u64> = if thorough { (a.seed..a.seed + 20).collect() } else { (a.seed..a.seed + 8).collect() };
    let only = std::env::var("C20_ONLY").ok();
    if let Ok(r) = std::env::var("C20_SRC_ROOT") {
        out.violation("C20:harness:partial-run", &format!("C20_SRC_ROOT={} is set: the source scan read another tree than the one this binary was built against", r), json!({"C20_SRC_ROOT": r}));
    }
    if let Some(o) = &only {
        // a development aid; a run that skipped families must never count as a passing check
        out.violation("C20:harness:partial-run", &format!("C20_ONLY={} is set: only some harness families were run", o), json!({"C20_ONLY": o}));
    }
    // seeds at the edges of u64 as well (one per family and preset, rotating)
    const EDGE_SEEDS: [u64; 6] = [0, u64::MAX, 1 << 32, (1 << 63) - 1, 1 << 63, u64::MAX - 1];
    let mut edge_i = 0usize;
    let mut explored: BTreeMap<String, serde_json::Value> = BTreeMap::new();
    for fam in FAMILIES {
        if let Some(o) = &only {
            if !o.split(',').any(|x| x == fam.name) {
                continue;
            }
        }
        let mut runs = 0u64;
        let mut agree = 0u64;
        let presets = if thorough { fam.presets } else { &fam.presets[..fam.quick_presets] };
        for preset in presets {
            // the process-level comparison costs K+3 runs: fewer seeds for the slow families in quick
            let fam_seeds: &[u64] = if !thorough && !fam.modelled && matches!(fam.name, "streaming" | "compaction" | "multi-node" | "batch") { &seeds[..3] } else { &seeds };
            let mut fam_seeds: Vec<u64> = fam_seeds.to_vec();
            edge_i += 1;
            fam_seeds.push(EDGE_SEEDS[edge_i % EDGE_SEEDS.len()]);
            if thorough {
                fam_seeds.push(EDGE_SEEDS[(edge_i + 3) % EDGE_SEEDS.len()]);
            }
            for &seed in &fam_seeds {
                let ops = if thorough { fam.ops * 2 } else { fam.ops };
                let replay = json!({"harness": fam.name, "preset": preset, "seed": seed, "ops": ops,
                    "how": format!("rvharness --c20-child {} {} {} {}   (run it several times and diff)", fam.name, preset, seed, ops)});
                let mut traces: Vec<Trace> = Vec::new();
                let mut failed = false;
                for _ in 0..k_children {
                    match run_child(fam.name, preset, seed, ops) {
                        Ok(t) => traces.push(t),
                        Err(e) => {
                            out.violation(&format!("C20:child-failed:{}", fam.name), &e, replay.clone());
                            failed = true;
                            break;
                        }
                    }
                }
                if failed {
                    continue;
                }
                runs += 1;
                let mut all_same = true;
                for t in &traces[1..] {
                    if t.lines != traces[0].lines {
                        let i = first_diff(&traces[0].lines, &t.lines);
                        all_same = false;
                        out.violation(&format!("C20:trace-differs-across-processes:{}{}", fam.name, divergence_class(fam.name, preset, traces[0].lines.get(i), t.lines.get(i))),
                            &format!("{} {} seed {}: two fresh processes print different traces; first divergence at trace line {}", fam.name, preset, seed, i + 1),
                            json!({"replay": replay, "line": i + 1, "process_1": traces[0].lines.get(i), "process_n": t.lines.get(i),
                                   "iteration_order_1": traces[0].pi, "iteration_order_n": t.pi}));
                        break;
                    }
                    if t.raw != traces[0].raw {
                        let i = first_diff(&traces[0].raw, &t.raw);
                        all_same = false;
                        let (sig, what) = raw_diff_signature(fam.name, "across-processes", traces[0].raw.get(i), t.raw.get(i));
                        out.violation(&sig, &format!("{} {} seed {} (two fresh processes): {}", fam.name, preset, seed, what),
                            json!({"replay": replay, "process_1": traces[0].raw.get(i), "process_n": t.raw.get(i)}));
                        break;
                    }
                }
                // same process: twice, and once more after unrelated simulation activity
                let stats_before = buggify::get_stats().checks.get(faults::process::CRASH).copied().unwrap_or(0);
                let p1 = harness_trace(fam.name, preset, seed, ops).expect("known harness");
                if fam.name == "dst-api" && *preset == "sim" {
                    // SimulationResult.buggify_stats: what this run reports given what was on the thread before
                    let get = |t: &Trace| -> Option<u64> { t.lines.iter().find_map(|l| l.strip_prefix("buggify-summary crash_checks=")).and_then(|l| l.split(' ').next()).and_then(|x| x.parse().ok()) };
                    if let (Some(own), Some(rep)) = (get(&traces[0]), get(&p1)) {
                        out.op(format!("BSTATS {} {} {}", crate::cfg::CODE_DST_RESETS_STATS as u8, stats_before, own), rep.to_string());
                    }
                }
                let p2 = harness_trace(fam.name, preset, seed, ops).expect("known harness");
                if p1.lines == p2.lines && p1.raw != p2.raw {
                    let i = first_diff(&p1.raw, &p2.raw);
                    all_same = false;
                    let (sig, what) = raw_diff_signature(fam.name, "in-process", p1.raw.get(i), p2.raw.get(i));
                    out.violation(&sig, &format!("{} {} seed {} (two runs in one process): {}", fam.name, preset, seed, what),
                        json!({"replay": replay, "first": p1.raw.get(i), "second": p2.raw.get(i)}));
                }
                // a harness that panics on one of its OWN presets would agree with itself in every process
                let generated = preset.starts_with("gen") || matches!(fam.name, "dst-api" | "connection-gen" | "multi-node-gen" | "scenario-timing");
                if !generated && traces[0].lines.first().map(|l| l.starts_with("panic: ")).unwrap_or(false) && !(EDGE_SEEDS.contains(&seed) && seed > (1 << 62)) {
                    all_same = false;
                    out.violation(&format!("C20:harness-panicked:{}", fam.name), &format!("{} {} seed {}: the harness panics on a built-in preset: {}", fam.name, preset, seed, traces[0].lines[0]), json!({"replay": replay}));
                }
                if p1.lines != p2.lines {
                    let i = first_diff(&p1.lines, &p2.lines);
                    all_same = false;
                    out.violation(&format!("C20:trace-differs-in-process:{}{}", fam.name, divergence_class(fam.name, preset, p1.lines.get(i), p2.lines.get(i))),
                        &format!("{} {} seed {}: two runs in one process differ; first divergence at trace line {}", fam.name, preset, seed, i + 1),
                        json!({"replay": replay, "line": i + 1, "first": p1.lines.get(i), "second": p2.lines.get(i),
                               "iteration_order_first": p1.pi, "iteration_order_second": p2.pi}));
                }
                real::unrelated_activity();
                let p3 = harness_trace(fam.name, preset, seed, ops).expect("known harness");
                real::unrelated_activity();
                let p4 = harness_trace(fam.name, preset, seed, ops).expect("known harness");
                buggify::set_config(FaultConfig::default());
                // attributed to the earlier run only when everything else agrees and the effect repeats
                if all_same && p1.lines == traces[0].lines && p3.lines != traces[0].lines && p3.lines == p4.lines {
                    let i = first_diff(&p3.lines, &traces[0].lines);
                    all_same = false;
                    out.violation(&format!("C20:trace-depends-on-earlier-run:{}", fam.name),
                        &format!("{} {} seed {}: after another built-in harness (DSTSimulation with FaultConfig::disabled()) ran on the same thread the trace differs from a fresh process; first divergence at trace line {}", fam.name, preset, seed, i + 1),
                        json!({"replay": replay, "line": i + 1, "after_other_harness": p3.lines.get(i), "fresh_process": traces[0].lines.get(i)}));
                }
                if p1.lines != traces[0].lines && p1.lines == p2.lines {
                    let i = first_diff(&p1.lines, &traces[0].lines);
                    all_same = false;
                    out.violation(&format!("C20:trace-differs-across-processes:{}{}", fam.name, divergence_class(fam.name, preset, p1.lines.get(i), traces[0].lines.get(i))),
                        &format!("{} {} seed {}: the parent process and a fresh child differ; first divergence at trace line {}", fam.name, preset, seed, i + 1),
                        json!({"replay": replay, "line": i + 1, "parent": p1.lines.get(i), "child": traces[0].lines.get(i)}));
                }
                for l in traces[0].lines.iter().filter(|l| l.starts_with("ORACLE-FAIL ")) {
                    let mut it = l.splitn(3, ' ');
                    it.next();
                    let sig = it.next().unwrap_or("child-oracle");
                    all_same = false;
                    out.violation(&format!("C20:{}", sig), &format!("{} {} seed {}: {}", fam.name, preset, seed, it.next().unwrap_or("")), json!({"replay": replay}));
                }
                if all_same {
                    agree += 1;
                } else {
                    out.count(&format!("diverged:{}:{}", fam.name, preset));
                }
                out.count(&format!("harness:{}:{}", fam.name, preset));
                for l in traces[0].raw.iter().filter(|l| l.starts_with("shape ")) {
                    for tok in l.split(' ').skip(1) {
                        out.count(&format!("scenario-shape:{}:{}", fam.name, tok));
                    }
                }
                out.count_n(&format!("trace-lines:{}", fam.name), traces[0].lines.len() as u64);
                let canon = format!("{} {} {} {}", fam.name, preset, seed, ops);
                out.case(&canon, traces[0].lines.len() > 3 || fam.name == "wal");
                if fam.name == "multi-node-api" && *preset == "corpus-deltas8" {
                    // the accessor's order in THIS process is the map order (or the key order, in the repaired code)
                    for t in traces.iter() {
                        if let Some(l) = t.raw.iter().find(|l| l.starts_with("order-of:get_all_deltas node0 ")) {
                            let idx: Vec<String> = l.rsplit(' ').next().unwrap_or("").split(',').filter_map(|k| k.strip_prefix("key-").map(|x| x.to_string())).collect();
                            if crate::cfg::CODE_MN_SORTS_DELTAS {
                                // the model sorts whatever order it is given: hand it a rotation
                                let mut rot = idx.clone();
                                rot.rotate_left(3);
                                out.op(format!("DELTAS 1 {}", rot.join(" ")), idx.join(","));
                            } else {
                                out.op(format!("DELTAS 0 {}", idx.join(" ")), idx.join(","));
                            }
                        }
                    }
                }
                if fam.name == "dst-api" && *preset == "sim" {
                    // this preset of an otherwise explored family is predicted by the model (fresh process: own statistics)
                    let cfgn = cfg_numbers(fam.name, preset, seed, ops).expect("cfg numbers");
                    let t = &traces[0];
                    out.op(format!("RUN dst-api sim {} {} {}", seed, ops, cfgn), format!("{} | {}", trace_digest(&t.lines), t.lines.last().cloned().unwrap_or_default()));
                }
                if fam.name == "partition" && *preset == "isolate" {
                    // every element of `run_partition_test_batch` is a single run of seed i: predicted as well
                    for i in 0..(3 + seed % 3) {
                        let p = format!("batch-elem{}", i);
                        let mut t = Trace::default();
                        if crate::c20_mn::partition(&p, i, &mut t.lines, &mut t.raw) {
                            let cfgn = cfg_numbers("partition", &p, i, 0).expect("cfg numbers");
                            out.op(format!("RUN partition {} {} 0 {}", p, i, cfgn), format!("{} | {}", trace_digest(&t.lines), t.lines.last().cloned().unwrap_or_default()));
                        }
                    }
                }
                if fam.modelled {
                    let cfgn = cfg_numbers(fam.name, preset, seed, ops).expect("cfg numbers");
                    // with an iteration order as input: every process is its own case (its own order)
                    let mut all: Vec<&Trace> = traces.iter().collect();
                    all.push(&p1);
                    all.push(&p2);
                    all.push(&p3);
                    all.push(&p4);
                    let cases: Vec<&Trace> = if fam.name == "dst" { all } else { vec![&traces[0]] };
                    let mut seen_pi: Vec<Vec<usize>> = Vec::new();
                    for t in cases {
                        if seen_pi.contains(&t.pi) && fam.name == "dst" {
                            continue;
                        }
                        seen_pi.push(t.pi.clone());
                        let answer = format!("{} | {}", trace_digest(&t.lines), t.lines.last().cloned().unwrap_or_default());
                        if seed == seeds[0] {
                            out.sample(json!({"run": canon, "trace_head": t.lines.iter().take(4).collect::<Vec<_>>(), "answer": answer}));
                        }
                        let pi = if fam.name == "dst" { format!(" {}", t.pi.iter().map(|x| x.to_string()).collect::<Vec<_>>().join(" ")) } else { String::new() };
                        out.op(format!("RUN {} {} {} {} {}{}", fam.name, preset, seed, ops, cfgn, pi), answer);
                    }
                }
            }
        }
        // the WALL CLOCK as a hidden input, varied on purpose (store-based harnesses: their object store stamps
        // objects with the system time, their compactor reads it): the same run cut into four `run` calls, once
        // straight and once with REAL time passing between the calls — longer than the shortest wall-clock time
        // constant of the configuration.  The simulation is not told, so nothing may change.  Every preset (also the
        // ones the quick tier skips above), three times the family's usual length: a tombstone has to be flushed
        // before a stall and compacted after it for an age-based decision to show.
        if matches!(fam.name, "streaming" | "compaction") {
            for preset in fam.presets {
                for &seed in &seeds[..2] {
                    let ops = fam.ops * 3;
                    if let Some((straight, stalled, ms)) = catch_unwind(AssertUnwindSafe(|| real::stalled_pair(fam.name, preset, seed, ops))).unwrap_or(None) {
                        out.count(&format!("wall-clock-stall:{}:{}", fam.name, preset));
                        out.case(&format!("stall {} {} {} {}", fam.name, preset, seed, ops), straight.len() > 3);
                        if straight != stalled {
                            let i = first_diff(&straight, &stalled);
                            out.violation(&format!("C20:trace-depends-on-wall-clock:{}", fam.name),
                                &format!("{} {} seed {} ops {}: letting {} ms of REAL time pass between the `run` calls of one simulation changes its trace; first divergence at trace line {}", fam.name, preset, seed, ops, ms, i + 1),
                                json!({"harness": fam.name, "preset": preset, "seed": seed, "ops": ops, "stall_ms": ms, "line": i + 1, "straight": straight.get(i), "with_stall": stalled.get(i),
                                       "how": format!("rvharness --c20-child stall:{} {} {} {}   (run() four times on one harness, std::thread::sleep({} ms) between the calls, compared with the same without the sleeps)", fam.name, preset, seed, ops, ms)}));
                        }
                    }
                }
            }
        }
        if runs == 0 && only.is_none() {
            out.violation(&format!("C20:harness:empty-cell:{}", fam.name), &format!("family {} produced no run at all", fam.name), json!({"family": fam.name}));
        }
        explored.insert(fam.name.to_string(), json!({"modelled": fam.modelled, "runs": runs, "processes_per_run": k_children + 1, "all_agree": agree}));
    }
    out.extra.insert("harness_runs".into(), json!(explored));
    out.extra.insert("children_per_run".into(), json!(k_children));
}

/// the coverage audit of C20 against the eleven classes of missed inputs (also DESIGN §4 C20 "Coverage audit")
fn audit() -> serde_json::Value {
    json!({
      "1 entry path / variant": {
        "covered": "every pub harness-like type, every pub fn of those and of the kernel types, every preset constructor, every pub field of a harness configuration struct, every free run_* / summarize_* function of the simulation files is ENUMERATED FROM THE SOURCE the binary was built against (c20_src.rs) and must be driven by c20.rs / c20_more.rs or listed with a reason: C20:coverage:{harness,entry,config-field}-not-…; the table type → M / E / K / N is in extra.source_entry_points",
        "found_open_and_closed": "117 public entry points and 14 configuration fields were never driven (all run_*_batch / summarize_* / BatchRunner / with_seed, DSTSimulation and CrashSimulator API, RedisDSTSimulation::new_uniform / with_key_distribution / step, SimulatedConnection, ScenarioBuilder::run_with_eviction, both Workload generators, SimulationContext clock offsets / id counter, …): families batch, dst-api, scenario-timing, streaming-/compaction-workload, connection-gen, multi-node-api, new kernel ops",
        "open": "SimulatedRuntime::clock()/network() and the simulated network / clock behind them (references to dropped temporaries, no caller); acl_dst (cargo feature acl off) — level N with the reason, both statically scanned"
      },
      "2 input alphabet": {
        "covered": "seeds s…s+4 (s+19 thorough) AND one u64-edge seed per family × preset (0, 2^32, 2^63-1, 2^63, u64::MAX-1, u64::MAX); kernel seeds incl. the edges; scenario scripts with out-of-order and tied times",
        "open": "-"
      },
      "3 comparison at equality": {
        "covered": "RNG range / zone / Bernoulli boundaries as bit patterns; WAL file sizes around one entry; DSTSimulation time limit COMPUTED from a probe run (time after 40 steps −1 / exact / +1); workload probability bands at roll 0.0 / 1.0; probabilities 0 and 1 in every generated configuration; eviction ties",
        "open": "WAL `i == crash_at` at num_writes is reached by seed choice only"
      },
      "4 configuration": {
        "covered": "every pub configuration field enumerated from the source must be varied by a generated configuration or be proved inert (no `.field` read anywhere); CRDT replica counts 1…8 and drop probability 0 / 0.3 / 0.9 / 1.0; crash probability 0 … 1; zipf exponent 0.5 … 2; store presets and field-wise rates; prefixes, replica ids",
        "found": "drop probability 1.0 reaches the ORSet violation text in HashSet order (C20:violation-text-in-hashset-order:crdt-orset)",
        "open": "--features simulation"
      },
      "5 capacity thresholds": {
        "covered": "MAX_PENDING_DELTAS, max_keys_per_sync, WAL file size, compaction / write-buffer limits (round 4); 400-command pipelines over the 8192-byte connection buffers; more than 5 checkpoints per node; Zipf tables of 20 and 1000 keys",
        "open": "MAX_OUTBOUND_QUEUE (not on a simulation path: allow-listed off-path, machine-checked)"
      },
      "6 fault kinds": {
        "covered": "child exit ≠ 0 = C20:child-failed; a panic on a generated configuration is an outcome that must be identical everywhere; a panic on a BUILT-IN preset = C20:harness-panicked",
        "open": "error returns of WalDSTHarness::run (rotator creation) are unreachable with the simulated store"
      },
      "7 history shapes": {
        "covered": "fresh process, twice in one process, after another harness on the thread, consecutive runs inside a batch compared element-wise with single runs, manual stepping without the time limit",
        "open": "-"
      },
      "8 node-global state": {
        "covered": "thread-local BUGGIFY configuration (defect C, required set_config calls checked statically) and STATISTICS (finding buggify-stats-cumulative); scan kind global-state lists every function touching a static / thread_local (only BUGGIFY_CONTEXT exists)",
        "open": "a BuggifySuppressor held by the caller is an input, not hidden state"
      },
      "9 observations": {
        "covered": "canonical trace + verbatim reports, both across processes AND in-process; final-state accessors in the order they return (order-of: lines); batch summaries; float statistics as bit patterns",
        "open": "a {:?} of a whole hash container inside a format string is invisible to the static scan (found dynamically only when a run prints it)"
      },
      "10 finding signatures": {
        "covered": "known findings are keyed by cause with exact predicates: first differing line is the statistics line (dst-api), an order-of: accessor line, two violation lines equal after canonicalising the sets; anything else keeps the bare signature and is a VIOLATION (self-test n)",
        "open": "-"
      },
      "11 harness fragility": {
        "covered": "source root from harness/Cargo.toml; scan failure / implausibly small scan = C20:source:scan-failed; C20_ONLY set = C20:harness:partial-run; a family without a run = C20:harness:empty-cell; unknown harness / preset in a child = exit 2 = C20:child-failed",
        "open": "-"
      }
    })
}

pub fn run(a: &Args) {
    // `gen_bool(NaN)` panics by design of rand's Bernoulli; the answer line says `crash`
    std::panic::set_hook(Box::new(|_| {}));
    let mut out = Out::new(&a.out);
    crate::c20_src::report(&mut out);
    part_b(a, &mut out);
    buggify::set_config(FaultConfig::default());
    let n = out.n_ops() + a.n as usize;
    part_a(a, &mut out, n);
    out.extra.insert("audit".into(), audit());
    out.finish("a kernel script is non-trivial when at least 3 of its ops return a value; a harness run is non-trivial when its trace has more than 3 lines (wal: its one-line result struct with 13 numbers)");
}
